package discovery

// Simulation seam (overlay only, never part of the shipped tree): the shipped
// constructors build their S3 client from the process environment and a real
// socket transport. These variants take the client instead (the real SDK
// client over the simulated S3 endpoint) and otherwise compose the same real
// parts in the same order as New / NewManifestBuilder / NewTimeIndexBuilder.

import (
	"time"

	"github.com/aws/aws-sdk-go-v2/service/s3"

	"github.com/kafscale/platform/addons/processors/sql-processor/internal/config"
	"github.com/kafscale/platform/addons/processors/sql-processor/internal/decoder"
)

// NewForSim mirrors New with an injected client. base is the uncached,
// manifest-less lister the builders are given (cmd/backfill builds from a
// lister of its own).
func NewForSim(client *s3.Client, cfg config.Config) (lister Lister) {
	base := &s3Lister{
		client: client,
		bucket: cfg.S3.Bucket,
		prefix: normalizePrefix(cfg.S3.Namespace),
	}
	if cfg.TimeIndex.Enabled {
		base.timeIndex = newTimeIndexReader(client, cfg.S3.Bucket, cfg.TimeIndex.KeySuffix)
	}
	lister = base
	if cfg.Manifest.Enabled {
		lister = newManifestLister(client, cfg.S3.Bucket, base.prefix, cfg.Manifest.Key, time.Duration(cfg.Manifest.TTLSeconds)*time.Second, base)
	}
	if cfg.DiscoveryCache.TTLSeconds <= 0 {
		return lister
	}
	return newCachedLister(lister, time.Duration(cfg.DiscoveryCache.TTLSeconds)*time.Second, cfg.DiscoveryCache.MaxEntries)
}

func NewManifestBuilderForSim(client *s3.Client, cfg config.Config, lister Lister) *ManifestBuilder {
	b := newManifestBuilder(client, cfg.S3.Bucket, normalizePrefix(cfg.S3.Namespace), cfg.Manifest.Key, cfg.Manifest.BuildMaxSegments, cfg.Manifest.BuildMaxBytes, lister)
	if cfg.Manifest.BuildLeaseTTLSeconds > 0 {
		b.leaseTTL = time.Duration(cfg.Manifest.BuildLeaseTTLSeconds) * time.Second
	}
	return b
}

func NewTimeIndexBuilderForSim(client *s3.Client, cfg config.Config, lister Lister, dec decoder.Decoder) *TimeIndexBuilder {
	b := newTimeIndexBuilder(client, cfg.S3.Bucket, cfg.TimeIndex.KeySuffix, cfg.TimeIndex.BuildMaxSegments, cfg.TimeIndex.BuildMaxBytes, lister, dec)
	if cfg.TimeIndex.BuildLeaseTTLSeconds > 0 {
		b.leaseTTL = time.Duration(cfg.TimeIndex.BuildLeaseTTLSeconds) * time.Second
	}
	return b
}
