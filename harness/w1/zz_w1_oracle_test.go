package main

import (
	"fmt"
	"sort"
	"strconv"
	"strings"

	"github.com/KafScale/platform/pkg/metadata"
	"github.com/twmb/franz-go/pkg/kmsg"

	"verif/sim/kbatch"
	"verif/sim/kseg"
	"verif/sim/simrt"
)

// ---------------------------------------------------------------- C01

// onProduceAck runs on the broker task at the moment the reply is emitted.
//
// C01: "when a produce request with acks other than 0 gets a success code for
// a partition, every record of that batch is already stored in an S3 segment
// (with its index)".
func (w *w1) onProduceAck(rec *produceRec) {
	w.sim.Note("produce-reply %s/%d c%d.%d code=%d base=%d n=%d acks=%d %s", rec.topic, rec.part, rec.client, rec.seq, rec.code, rec.base, rec.nrec, rec.acks, mal(rec))
	w.judgeHealthProduce(rec, simrt.TaskName())
	w.judgeLease(rec)
	if rec.code != 0 || rec.acks == 0 || w.cfg("flush_on_ack", 1) != 1 {
		return
	}
	if rec.malformed {
		return // offset arithmetic of malformed batches is C02's business
	}
	ok, why := w.inS3(w.s3, rec.topic, rec.part, rec.base, rec.sent)
	rec.durable = ok
	if !ok && w.prop == "C01" {
		w.sim.Fail("C01", "acked-not-durable", "produce %s/%d client %d seq %d acked base=%d n=%d acks=%d but %s",
			rec.topic, rec.part, rec.client, rec.seq, rec.base, rec.nrec, rec.acks, why)
	}
}

// ---------------------------------------------------------------- C05

// stepInvariant is evaluated by the scheduler after every step.
//
// C05: "the partition end offset published in the metadata store never
// decreases. It never exceeds one past the last offset stored in S3 segments."
func (w *w1) stepInvariant() error {
	if w.prop == "C25" {
		w.healthStep()
		return nil
	}
	if w.prop != "C05" {
		return nil
	}
	if w.etcdMode() && w.etcd != nil {
		// several brokers over etcd: the published end offset is the next_offset key of the partition
		alog := w.etcd.AppliedLog()
		for ; w.etcdIdx < len(alog); w.etcdIdx++ {
			a := alog[w.etcdIdx]
			if a.Op != "put" || !strings.HasSuffix(a.Key, "/next_offset") {
				continue
			}
			next, err := strconv.ParseInt(strings.TrimSpace(a.Value), 10, 64)
			if err != nil {
				continue
			}
			if prev, ok := w.hwLast[a.Key]; ok && next < prev {
				return &simrt.Violation{Property: "C05", Clause: "hw-regressed", Detail: fmt.Sprintf("etcd key %s went %d -> %d (client %s, task %s)", a.Key, prev, next, a.Client, a.Task)}
			}
			w.hwLast[a.Key] = next
		}
		return nil
	}
	log := w.store.Writes()
	for ; w.storeIdx < len(log); w.storeIdx++ {
		wr := log[w.storeIdx]
		if wr.Method != "UpdateOffsets" || wr.Err {
			continue
		}
		if w.cfg("flush_on_ack", 1) != 1 {
			continue
		}
		next := wr.Val + 1
		if prev, ok := w.hwLast[wr.Key]; ok && next < prev {
			return &simrt.Violation{Property: "C05", Clause: "hw-regressed", Detail: fmt.Sprintf("store next offset of %s went %d -> %d (task %s)", wr.Key, prev, next, wr.Task)}
		}
		w.hwLast[wr.Key] = next
		pfx := "default/" + wr.Key + "/"
		max, has := w.segMax[pfx]
		if !has {
			max = -1
		}
		if wr.Val > max {
			return &simrt.Violation{Property: "C05", Clause: "hw-ahead-of-s3", Detail: fmt.Sprintf("store next offset of %s set to %d but the last offset in any S3 segment is %d (task %s)", wr.Key, next, max, wr.Task)}
		}
	}
	return nil
}

// ---------------------------------------------------------------- fetch / C03 / C04

type logBatch struct {
	base  int64
	count int
	raw   []byte
	rec   *produceRec
}

// knownLog reconstructs, for one partition, every batch whose offset is known:
// acknowledged produces (offset from the reply) and batches present in S3.
// knownLogBefore: the batches acknowledged (acks != 0, code 0) before scheduler step `step`.
func (w *w1) knownLogBefore(topic string, part int32, step int) []logBatch {
	var out []logBatch
	for _, r := range w.ledger {
		if r.topic == topic && r.part == part && r.answered && r.code == 0 && !r.malformed && r.acks != 0 && r.ret < step {
			out = append(out, logBatch{base: r.base, count: r.nrec, raw: r.sent, rec: r})
		}
	}
	return out
}

func (w *w1) knownLog(topic string, part int32) []logBatch {
	byMarker := map[string]*produceRec{}
	for _, r := range w.ledger {
		if r.topic == topic && r.part == part && !r.malformed {
			byMarker[r.markers[0]] = r
		}
	}
	seen := map[int64]logBatch{}
	for _, r := range w.ledger {
		if r.topic == topic && r.part == part && r.answered && r.code == 0 && !r.malformed && r.acks != 0 {
			seen[r.base] = logBatch{base: r.base, count: r.nrec, raw: r.sent, rec: r}
		}
	}
	for _, k := range w.s3.Keys(w.partPrefix(topic, part)) {
		if !strings.HasSuffix(k, ".kfs") {
			continue
		}
		data, _ := w.s3.Peek(k)
		for _, b := range w.segBatches(k, data) {
			if r := byMarker[firstMarker(b)]; r != nil {
				if _, ok := seen[b.BaseOffset]; !ok {
					seen[b.BaseOffset] = logBatch{base: b.BaseOffset, count: r.nrec, raw: r.sent, rec: r}
				}
			}
		}
	}
	out := make([]logBatch, 0, len(seen))
	for _, b := range seen {
		out = append(out, b)
	}
	sort.Slice(out, func(i, j int) bool { return out[i].base < out[j].base })
	return out
}

func (w *w1) opFetch(client, seq int, op simrt.Op) {
	topic, part := w.topic(op.A), int32(op.B)%w.nparts
	// choose an offset: C selects among interesting positions of the known log
	known := w.knownLog(topic, part)
	var offset int64
	if len(known) > 0 {
		b := known[int(op.C)%len(known)]
		switch (op.C / 7) % 4 {
		case 0:
			offset = b.base
		case 1:
			offset = b.base + int64(b.count) - 1
		case 2:
			offset = b.base + int64(b.count)/2
		default:
			offset = b.base + int64(b.count) // may be a gap or the next batch
		}
	}
	if op.S == "abs" {
		offset = op.C
	}
	maxBytes := int32(op.D)
	fr := &fetchRec{client: client, topic: topic, part: part, offset: offset, maxBytes: maxBytes, invoke: w.sim.Step()}
	w.fetchs = append(w.fetchs, fr)
	n := w.node(int64(client))
	fr.inc = n.inc
	req := kmsg.NewPtrFetchRequest()
	req.Version = int16(11 + w.cfg("fetch_version_off", 2)%3)
	req.ReplicaID = -1
	req.MaxWaitMillis = int32(w.cfg("fetch_max_wait_ms", 0))
	req.MaxBytes = 1 << 30
	rt := kmsg.NewFetchRequestTopic()
	rt.Topic = topic
	if req.Version >= 13 {
		rt.Topic = ""
		rt.TopicID = topicIDFor(topic)
	}
	rp := kmsg.NewFetchRequestTopicPartition()
	rp.Partition = part
	rp.FetchOffset = offset
	rp.PartitionMaxBytes = maxBytes
	rp.CurrentLeaderEpoch = -1
	rt.Partitions = append(rt.Partitions, rp)
	req.Topics = append(req.Topics, rt)
	n.call(req, fmt.Sprintf("c%d", client), func(r kmsg.Response) {
		resp := r.(*kmsg.FetchResponse)
		if len(resp.Topics) != 1 || len(resp.Topics[0].Partitions) != 1 {
			return
		}
		p := resp.Topics[0].Partitions[0]
		fr.answered, fr.code, fr.hw, fr.data, fr.ret = true, p.ErrorCode, p.HighWatermark, p.RecordBatches, w.sim.Step()
		w.onFetchReply(fr)
	})
}

// onFetchReply judges one fetch response (C03, C04, C05's HW clause).
func (w *w1) onFetchReply(fr *fetchRec) {
	w.sim.Note("fetch-reply %s/%d@%d max=%d code=%d hw=%d bytes=%d", fr.topic, fr.part, fr.offset, fr.maxBytes, fr.code, fr.hw, len(fr.data))
	w.judgeHealthFetch(fr)
	if fr.code == 1 && w.prop == "C04" && fr.maxBytes > 0 && w.sim.Stats.FaultsFired["store.err"] == 0 {
		// OFFSET_OUT_OF_RANGE for an offset that an acknowledged, stored batch holds (known before the fetch was sent).
		// (Not judged once a metadata-store write was refused: the broker acknowledges a produce whose end-offset
		// update failed, the published high watermark stays behind, and the offset is then not "below the high
		// watermark" in the statement's sense.)
		for _, k := range w.knownLogBefore(fr.topic, fr.part, fr.invoke) {
			if fr.offset >= k.base && fr.offset < k.base+int64(k.count) {
				w.sim.Fail("C04", "fetch-out-of-range-below-hw", "fetch %s/%d@%d max=%d was answered OFFSET_OUT_OF_RANGE although the acknowledged batch %d..%d holds the offset", fr.topic, fr.part, fr.offset, fr.maxBytes, k.base, k.base+int64(k.count)-1)
				return
			}
		}
	}
	if fr.code != 0 {
		return
	}
	if w.prop == "C05" && w.cfg("flush_on_ack", 1) == 1 {
		pfx := w.partPrefix(fr.topic, fr.part)
		max, has := w.segMax[pfx]
		if !has {
			max = -1
		}
		if fr.hw > max+1 {
			w.sim.Fail("C05", "fetch-hw-ahead-of-s3", "fetch %s/%d reported high watermark %d but S3 segments end at %d", fr.topic, fr.part, fr.hw, max)
		}
	}
	if w.prop != "C03" && w.prop != "C04" && w.prop != "C22" && w.prop != "C06" {
		return
	}
	known := w.knownLog(fr.topic, fr.part)
	byBase := map[int64]logBatch{}
	for _, b := range known {
		byBase[b.base] = b
	}
	batches, rest := kbatch.ParseAll(fr.data)
	if w.prop == "C03" || w.prop == "C22" || w.prop == "C06" {
		// every complete batch must be a producer's bytes for this partition at its assigned offset
		var prev *kbatch.Batch
		for _, b := range batches {
			m := firstMarker(b)
			var owner *produceRec
			for _, r := range w.ledger {
				if !r.malformed && r.markers[0] == m {
					owner = r
					break
				}
			}
			clause := "C03"
			if w.prop == "C22" {
				clause = "C22"
			}
			if owner == nil {
				w.sim.Fail(clause, "fetch-unknown-bytes", "fetch %s/%d@%d returned a batch (base %d) no producer appended", fr.topic, fr.part, fr.offset, b.BaseOffset)
				return
			}
			if owner.topic != fr.topic || owner.part != fr.part {
				w.sim.Fail(clause, "fetch-foreign-data", "fetch %s/%d@%d returned a batch produced to %s/%d (marker %s)", fr.topic, fr.part, fr.offset, owner.topic, owner.part, m)
				return
			}
			if w.prop == "C22" {
				continue
			}
			if len(b.Raw) != len(owner.sent) || string(b.Raw[8:]) != string(owner.sent[8:]) {
				w.sim.Fail("C03", "fetch-bytes-differ", "fetch %s/%d@%d batch base %d differs from the bytes produced (marker %s)", fr.topic, fr.part, fr.offset, b.BaseOffset, m)
				return
			}
			if owner.answered && owner.code == 0 && owner.acks != 0 && owner.base != b.BaseOffset {
				w.sim.Fail("C03", "fetch-offset-differs", "fetch %s/%d@%d returned marker %s at base %d but it was acknowledged at %d", fr.topic, fr.part, fr.offset, m, b.BaseOffset, owner.base)
				return
			}
			if prev != nil {
				if b.BaseOffset <= prev.BaseOffset {
					w.sim.Fail("C03", "fetch-out-of-order", "fetch %s/%d@%d returned base %d after base %d", fr.topic, fr.part, fr.offset, b.BaseOffset, prev.BaseOffset)
					return
				}
				// no existing batch of this partition may be skipped between two returned ones
				for _, k := range known {
					if k.base > prev.BaseOffset && k.base < b.BaseOffset {
						w.sim.Fail("C03", "fetch-skipped-batch", "fetch %s/%d@%d jumped from base %d to %d skipping stored batch at %d", fr.topic, fr.part, fr.offset, prev.BaseOffset, b.BaseOffset, k.base)
						return
					}
				}
			}
			prev = b
		}
		// the leading bytes must start at a batch boundary: a non-empty reply that parses to nothing is a leading partial batch
		if len(batches) == 0 && len(rest) > 0 && len(rest) >= 61 {
			// could be one batch truncated by max bytes: accept only if it is a prefix of a known batch
			okPrefix := false
			for _, r := range w.ledger {
				if r.topic == fr.topic && r.part == fr.part && len(r.sent) >= len(rest) && string(r.sent[8:len(rest)]) == string(rest[8:]) {
					okPrefix = true
					break
				}
			}
			if !okPrefix {
				w.sim.Fail("C03", "fetch-not-at-batch-boundary", "fetch %s/%d@%d returned %d bytes that are not the start of any produced batch", fr.topic, fr.part, fr.offset, len(rest))
				return
			}
		}
		if len(batches) > 0 {
			// starts at or before the batch holding o
			first := batches[0]
			if first.BaseOffset > fr.offset {
				// allowed only if o falls in a gap (no known batch holds o)
				for _, k := range known {
					if fr.offset >= k.base && fr.offset < k.base+int64(k.count) {
						w.sim.Fail("C03", "fetch-starts-after-offset", "fetch %s/%d@%d starts at base %d although stored batch %d..%d holds the offset", fr.topic, fr.part, fr.offset, first.BaseOffset, k.base, k.base+int64(k.count)-1)
						return
					}
				}
			}
		}
	}
	if w.prop == "C04" {
		w.judgeProgress(fr, known, batches, rest)
	}
}

// C04: "the response includes the start of the batch holding o (or of the
// first batch after o, if o falls in a gap). It never consists only of records
// before o."
func (w *w1) judgeProgress(fr *fetchRec, known []logBatch, batches []*kbatch.Batch, rest []byte) {
	if fr.maxBytes <= 0 || fr.offset >= fr.hw {
		return
	}
	// target: the known batch holding o, else the first known batch after o (below hw)
	var target *logBatch
	for i := range known {
		k := &known[i]
		if fr.offset < k.base+int64(k.count) && k.base < fr.hw {
			target = k
			break
		}
	}
	if target == nil {
		return // nothing known at or above o: nothing to demand
	}
	w.sim.Probe("c04.judged")
	for _, b := range batches {
		if b.BaseOffset == target.base {
			return
		}
		if b.BaseOffset <= fr.offset && fr.offset <= b.BaseOffset+int64(b.LastOffsetDelta) {
			return // a batch the ledger does not know (acks=0, unanswered) holds the offset: that is progress
		}
		if b.BaseOffset > target.base {
			if target.base <= fr.offset && w.prop == "C04" {
				// the reply went past the stored batch that holds o without containing it: a consumer positioned
				// at o never sees the records o..end of that batch (the statement's first sentence)
				w.sim.Fail("C04", "fetch-skips-batch-holding-offset", "fetch %s/%d@%d max=%d below hw=%d returns batch %d.. but not the stored batch %d..%d that holds the offset", fr.topic, fr.part, fr.offset, fr.maxBytes, fr.hw, b.BaseOffset, target.base, target.base+int64(target.count)-1)
			}
			return // (a reply that starts after a gap is C03's clause)
		}
	}
	// the start of the target may be in the trailing partial batch: any
	// non-empty prefix of the target batch (as stored, i.e. with its assigned
	// base offset) counts as "includes the start of the batch"
	if len(rest) > 0 && len(rest) <= len(target.raw) {
		stored := append([]byte(nil), target.raw...)
		for i := 0; i < 8; i++ {
			stored[i] = byte(uint64(target.base) >> (56 - 8*uint(i)))
		}
		if string(stored[:len(rest)]) == string(rest) {
			w.sim.Probe("c04.partial-start-only")
			return
		}
	}
	if len(batches) == 0 && len(rest) == 0 {
		w.sim.Fail("C04", "fetch-empty-below-hw", "fetch %s/%d@%d max=%d below hw=%d returned no bytes although batch %d..%d is stored", fr.topic, fr.part, fr.offset, fr.maxBytes, fr.hw, target.base, target.base+int64(target.count)-1)
		return
	}
	last := int64(-1)
	if len(batches) > 0 {
		lb := batches[len(batches)-1]
		last = lb.BaseOffset + int64(lb.LastOffsetDelta)
	}
	if w.cfg("index_interval", 100) == 1 {
		// a dense index has an entry for every batch: the known sparse-index finding cannot explain this
		idxNote := ""
		for _, k := range w.s3.Keys(w.partPrefix(fr.topic, fr.part)) {
			if strings.HasSuffix(k, ".index") {
				if b, ok := w.s3.Peek(k); ok {
					if ix, err := kseg.ParseIndex(b); err == nil {
						idxNote += fmt.Sprintf(" [%s: interval %d, %d entries]", k[len(k)-32:], ix.Interval, len(ix.Entries))
					}
				}
			}
		}
		w.sim.Note("c04 dense-index violation; stored indexes:" + idxNote)
		w.sim.Fail("C04", "fetch-only-before-offset-dense-index", "fetch %s/%d@%d max=%d returned only data up to offset %d (plus %d trailing bytes) although every batch has its own index entry; the start of batch %d holding/after the offset is not included", fr.topic, fr.part, fr.offset, fr.maxBytes, last, len(rest), target.base)
		return
	}
	w.sim.FailSoft("C04", "fetch-only-before-offset", "fetch %s/%d@%d max=%d returned only data up to offset %d (plus %d trailing bytes); the start of batch %d holding/after the offset is not included", fr.topic, fr.part, fr.offset, fr.maxBytes, last, len(rest), target.base)
}

func beU64(b []byte) uint64 {
	var v uint64
	for _, x := range b[:8] {
		v = v<<8 | uint64(x)
	}
	return v
}

func topicIDFor(name string) [16]byte {
	return metadata.TopicIDForName(name)
}

func (w *w1) opListOffsets(client int, op simrt.Op) {
	topic, part := w.topic(op.A), int32(op.B)%w.nparts
	req := kmsg.NewPtrListOffsetsRequest()
	req.Version = int16(op.C % 5)
	req.ReplicaID = -1
	rt := kmsg.NewListOffsetsRequestTopic()
	rt.Topic = topic
	rp := kmsg.NewListOffsetsRequestTopicPartition()
	rp.Partition = part
	rp.Timestamp = -1
	rp.MaxNumOffsets = 1
	rt.Partitions = append(rt.Partitions, rp)
	req.Topics = append(req.Topics, rt)
	w.node(int64(client)).call(req, fmt.Sprintf("c%d", client), func(r kmsg.Response) {
		resp := r.(*kmsg.ListOffsetsResponse)
		if len(resp.Topics) != 1 || len(resp.Topics[0].Partitions) != 1 {
			return
		}
		p := resp.Topics[0].Partitions[0]
		if p.ErrorCode != 0 || w.prop != "C05" || w.cfg("flush_on_ack", 1) != 1 {
			return
		}
		max, has := w.segMax[w.partPrefix(topic, part)]
		if !has {
			max = -1
		}
		if p.Offset > max+1 {
			w.sim.Fail("C05", "listoffsets-ahead-of-s3", "ListOffsets(latest) %s/%d = %d but S3 segments end at %d", topic, part, p.Offset, max)
		}
	})
}

// ---------------------------------------------------------------- end of run

func (w *w1) finish() {
	switch w.prop {
	case "C02":
		w.judgeOffsets()
	case "C44":
		w.judgeReplicaOps()
	case "C22":
		w.judgeTopicKeys()
	case "C19":
		w.judgeSegmentOverwrites()
	case "C11":
		// a sweep request that is still unanswered when the run is cut off, although no fault was injected
		// and the broker is up: the request got no reply
		if w.sweepInFlight != "" && w.sim.Stats.Truncated && len(w.sim.Stats.FaultsFired) == 0 {
			w.sim.Fail("C11", "no-reply", "%s is still unanswered after %d scheduler steps and %s of virtual time (no fault injected, broker up)", w.sweepInFlight, w.sim.Step(), w.sim.Now().Round(1000000))
		}
	}
}
