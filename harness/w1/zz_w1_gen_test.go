package main

import (
	"math/rand/v2"

	"github.com/KafScale/platform/pkg/acl"

	"verif/sim/simrt"
)

func pick[T any](r *rand.Rand, xs ...T) T { return xs[r.IntN(len(xs))] }

// w1Gen derives one case. Knobs, workload and fault plan are all drawn here,
// before the run starts.
func w1Gen(r *rand.Rand, prop, tier string) *simrt.Case {
	c := &simrt.Case{Config: map[string]int64{}}
	cfg := c.Config
	cfg["partitions"] = int64(1 + r.IntN(2))
	cfg["topics"] = 1
	cfg["buf_max_bytes"] = pick[int64](r, 1, 200, 600, 4<<20)
	cfg["buf_max_batches"] = pick[int64](r, 0, 0, 2, 3)
	cfg["flush_interval_ms"] = pick[int64](r, 0, 5, 500)
	cfg["index_interval"] = pick[int64](r, 1, 2, 5, 20, 100)
	cfg["cache_on"] = int64(r.IntN(2))
	cfg["cache_bytes"] = pick[int64](r, 64, 400, 32<<20)
	cfg["readahead"] = int64(r.IntN(3))
	cfg["s3conc"] = pick[int64](r, 0, 1, 2, 64)
	cfg["s3_lat_us"] = pick[int64](r, 200, 2000, 20000)
	cfg["store_lat_us"] = pick[int64](r, 100, 500, 5000)
	cfg["val_len"] = pick[int64](r, 0, 16, 80)
	cfg["produce_version"] = int64(3 + r.IntN(7))
	cfg["fetch_version_off"] = int64(r.IntN(3))
	cfg["health_lenient"] = 1
	if r.IntN(5) == 0 {
		cfg["health_lenient"] = 0
	}
	cfg["map_seed"] = int64(r.Uint32())
	maxOps := 4
	nclients := 2 + r.IntN(3)
	if tier == "thorough" {
		nclients = 2 + r.IntN(5)
		maxOps = 6
		cfg["max_steps"] = 12000
	}
	switch prop {
	case "C01", "C05":
		if prop == "C05" && r.IntN(6) == 0 {
			// several brokers handing partitions over through leases: the published end offset must not
			// go back when an old owner comes back
			w1GenLease(r, c, nclients, maxOps)
			return c
		}
		w1GenProduceHeavy(r, c, nclients, maxOps, prop)
	default:
		w1GenProp(r, c, nclients, maxOps, prop, tier)
	}
	return c
}

func w1GenProduceHeavy(r *rand.Rand, c *simrt.Case, nclients, maxOps int, prop string) {
	for cl := 0; cl < nclients; cl++ {
		n := 1 + r.IntN(maxOps)
		for i := 0; i < n; i++ {
			switch x := r.IntN(12); {
			case x < 8:
				acks := pick[int64](r, 1, -1, -1, 1, 0)
				c.Program = append(c.Program, simrt.Op{Actor: cl, Kind: "produce", A: 0, B: int64(r.IntN(2)), C: int64(1 + r.IntN(5)), D: acks})
			case x < 9:
				c.Program = append(c.Program, simrt.Op{Actor: cl, Kind: "flush", A: 0, B: int64(r.IntN(2))})
			case x < 10:
				c.Program = append(c.Program, simrt.Op{Actor: cl, Kind: "listoffsets", A: 0, B: int64(r.IntN(2)), C: int64(r.IntN(5))})
			case x < 11:
				c.Program = append(c.Program, simrt.Op{Actor: cl, Kind: "fetch", A: 0, B: int64(r.IntN(2)), C: int64(r.IntN(40)), D: pick[int64](r, 1, 100, 1<<20)})
			default:
				c.Program = append(c.Program, simrt.Op{Actor: cl, Kind: "sleep", A: int64(r.IntN(20))})
			}
		}
	}
	// fault plan: most runs make progress; about half have at least one S3 fault
	nf := pick(r, 0, 0, 1, 1, 2, 3)
	for i := 0; i < nf; i++ {
		switch r.IntN(8) {
		case 0, 1:
			c.Faults = append(c.Faults, simrt.Fault{Kind: "s3.fail_before", Op: "s3.put.segment", Nth: r.IntN(4)})
		case 2:
			c.Faults = append(c.Faults, simrt.Fault{Kind: "s3.fail_after", Op: "s3.put.segment", Nth: r.IntN(4)})
		case 3:
			c.Faults = append(c.Faults, simrt.Fault{Kind: "s3.fail_before", Op: "s3.put.index", Nth: r.IntN(4)})
		case 4:
			c.Faults = append(c.Faults, simrt.Fault{Kind: "s3.fail_after", Op: "s3.put.index", Nth: r.IntN(4)})
		case 5:
			c.Faults = append(c.Faults, simrt.Fault{Kind: "s3.slow", Op: "s3.put", Nth: r.IntN(4), Arg: int64(50+r.IntN(400)) * 1e6})
		case 6:
			c.Faults = append(c.Faults, simrt.Fault{Kind: "store.err", Op: "store.UpdateOffsets", Nth: r.IntN(4)})
		case 7:
			c.Faults = append(c.Faults, simrt.Fault{Kind: "store.slow", Op: "store.UpdateOffsets", Nth: r.IntN(4), Arg: int64(5+r.IntN(50)) * 1e6})
		}
	}
	if prop == "C05" && r.IntN(4) == 0 {
		// S3 ahead of the published end offset when a new incarnation opens the partition: uploads whose
		// offset publication failed, then a restart, then reads of the end offset and more appends
		c.Faults = append(c.Faults, simrt.Fault{Kind: "store.err", Op: "store.UpdateOffsets", Nth: r.IntN(3), Count: 1 + r.IntN(3)})
		for i := 0; i < 1+r.IntN(3); i++ {
			c.Program = append(c.Program, simrt.Op{Actor: 0, Kind: "produce", B: 0, C: int64(1 + r.IntN(3)), D: -1})
		}
		c.Program = append(c.Program, simrt.Op{Actor: 0, Kind: "crash", A: 0})
		c.Program = append(c.Program, simrt.Op{Actor: 0, Kind: "listoffsets", B: 0})
		for i := 0; i < 1+r.IntN(2); i++ {
			c.Program = append(c.Program, simrt.Op{Actor: 0, Kind: "produce", B: 0, C: int64(1 + r.IntN(3)), D: -1})
			c.Program = append(c.Program, simrt.Op{Actor: 0, Kind: "listoffsets", B: 0})
		}
	}
}

// hooks that later files replace with real implementations
var (
	w1ExtraOp    = func(w *w1, client, seq int, op simrt.Op) {}
	w1Authorizer = func(w *w1) *acl.Authorizer { return w1BuildACL(w) }
)
