package main

import (
	"errors"
	"fmt"
	"math/rand/v2"
	"strings"
	"time"

	"github.com/KafScale/platform/pkg/broker"

	"verif/sim/simrt"
)

// ---------------------------------------------------------------- C25

// C25: "While the broker rates S3 degraded or unavailable, it acknowledges no
// produce and returns no fetch data; each affected partition gets a retriable
// error. The health rating depends only on the recent error rate and latency
// within the window, and higher error rates or latencies never give a better
// rating."

type healthWatch struct {
	lastHealthy int // latest scheduler step at which the monitor rated S3 healthy
	lastState   broker.S3HealthState
	streakStart int // first step of the current run of not-healthy ratings (0: healthy now)
}

func (w *w1) healthStep() {
	n := w.nodes[0]
	if n.h == nil {
		return
	}
	st := n.h.s3Health.State()
	w.health.lastState = st
	if st == broker.S3StateHealthy {
		w.health.lastHealthy = w.sim.Step()
		w.health.streakStart = 0
	} else {
		if w.health.streakStart == 0 {
			w.health.streakStart = w.sim.Step()
		}
		w.sim.Probe("c25.unhealthy-step")
	}
}

// unhealthyThroughout reports whether no step in [from, now] saw a healthy rating.
func (w *w1) unhealthyThroughout(from int) bool {
	n := w.nodes[0]
	if n.h == nil {
		return false
	}
	return w.health.lastHealthy < from && n.h.s3Health.State() != broker.S3StateHealthy
}

func retriable(code int16) bool {
	switch code {
	case 5, 6, 7, 8, 9, 14, 15, 16, 19, 20, 56, 72, 74: // Kafka's retriable error codes that a broker may send here
		return true
	}
	return false
}

// judgeHealthWithinRequest: partitions of one produce request are handled one after the other. When an
// earlier partition's own upload failures have pushed the rating out of healthy and it stayed there, a
// later partition of the same request must not be uploaded and acknowledged. Judged only when this client
// is the only one (no concurrent request can have moved the rating in between).
func (w *w1) judgeHealthWithinRequest(rec *produceRec) {
	if !rec.multi || rec.order == 0 || rec.code != 0 || w.cfg("solo", 0) != 1 || w.health.streakStart == 0 {
		return
	}
	myPut := 0
	prefix := w.partPrefix(rec.topic, rec.part)
	for _, a := range w.s3.Attempts {
		if a.Task != "" && strings.HasPrefix(a.Task, rec.task) && strings.HasPrefix(a.Key, prefix) && a.Fault == "" && strings.HasSuffix(a.Key, ".kfs") && a.Step >= rec.invoke {
			myPut = a.Step
		}
	}
	if myPut == 0 {
		return
	}
	for _, sib := range w.ledger {
		if sib.task != rec.task || !sib.multi || sib.order >= rec.order || sib.code == 0 {
			continue
		}
		sp := w.partPrefix(sib.topic, sib.part)
		failedAt := 0
		for _, a := range w.s3.Attempts {
			if strings.HasPrefix(a.Task, rec.task) && strings.HasPrefix(a.Key, sp) && a.Fault != "" && !strings.HasSuffix(a.Fault, "slow") && a.Step < myPut {
				failedAt = a.Step
			}
		}
		if failedAt == 0 {
			continue
		}
		w.sim.Probe("c25.later-partition-after-own-failure")
		// the rating left healthy no later than right after that failure was recorded and never came back
		if w.health.streakStart <= failedAt+2 {
			w.sim.Fail("C25", "produce-acked-while-unhealthy", "partition %s/%d of a multi-partition produce was uploaded (step %d) and acknowledged although the upload failure of %s/%d earlier in the same request (step %d) had already left S3 rated %s, continuously since step %d", rec.topic, rec.part, myPut, sib.topic, sib.part, failedAt, w.health.lastState, w.health.streakStart)
			return
		}
	}
}

func (w *w1) judgeHealthProduce(rec *produceRec, task string) {
	if w.prop != "C25" {
		return
	}
	w.judgeHealthWithinRequest(rec)
	if w.sim.Failed() {
		return
	}
	if !w.unhealthyThroughout(rec.invoke) {
		return
	}
	w.sim.Probe("c25.produce-while-unhealthy")
	if rec.code == 0 {
		w.sim.Fail("C25", "produce-acked-while-unhealthy", "produce %s/%d acknowledged (base %d) although S3 was rated %s from the request's first step %d to its reply", rec.topic, rec.part, rec.base, w.health.lastState, rec.invoke)
		return
	}
	for _, wr := range w.s3.Log {
		if strings.HasPrefix(wr.Task, task) && wr.Step >= rec.invoke {
			w.sim.Fail("C25", "upload-while-unhealthy", "produce %s/%d was rejected (code %d) with S3 rated %s throughout, yet its request wrote %s", rec.topic, rec.part, rec.code, w.health.lastState, wr.Key)
			return
		}
	}
	if !retriable(rec.code) {
		w.sim.FailSoft("C25", "rejected-with-non-retriable-code", "produce %s/%d rejected with code %d while S3 is rated %s: not a retriable Kafka error", rec.topic, rec.part, rec.code, w.health.lastState)
	}
}

func (w *w1) judgeHealthFetch(fr *fetchRec) {
	if w.prop != "C25" || !w.unhealthyThroughout(fr.invoke) {
		return
	}
	w.sim.Probe("c25.fetch-while-unhealthy")
	if fr.code == 0 && len(fr.data) > 0 {
		w.sim.Fail("C25", "fetch-data-while-unhealthy", "fetch %s/%d@%d returned %d bytes although S3 was rated %s throughout the request", fr.topic, fr.part, fr.offset, len(fr.data), w.health.lastState)
		return
	}
	if fr.code != 0 && fr.code != 1 && fr.code != 3 && !retriable(fr.code) {
		w.sim.FailSoft("C25", "rejected-with-non-retriable-code", "fetch %s/%d rejected with code %d while S3 is rated %s: not a retriable Kafka error", fr.topic, fr.part, fr.code, w.health.lastState)
	}
}

func rank(s broker.S3HealthState) int {
	switch s {
	case broker.S3StateHealthy:
		return 0
	case broker.S3StateDegraded:
		return 1
	}
	return 2
}

// opHealthMeta feeds two real monitors the same timeline on virtual time, the
// second one pointwise worse; it must never rate better. Afterwards, with no
// new samples, both must return to healthy once the window has passed.
func (w *w1) opHealthMeta(op simrt.Op) {
	r := rand.New(rand.NewPCG(uint64(op.A), uint64(op.B)+1))
	cfg := broker.S3HealthConfig{
		Window:      time.Duration(1+r.IntN(90)) * time.Second,
		LatencyWarn: time.Duration(50+r.IntN(800)) * time.Millisecond,
		ErrorWarn:   float64(5+r.IntN(50)) / 100,
		MaxSamples:  pickInt(r, 4, 16, 512),
	}
	cfg.LatencyCrit = cfg.LatencyWarn + time.Duration(r.IntN(4000))*time.Millisecond
	cfg.ErrorCrit = cfg.ErrorWarn + float64(r.IntN(45))/100
	a, b := broker.NewS3HealthMonitor(cfg), broker.NewS3HealthMonitor(cfg)
	n := 3 + r.IntN(40)
	injected := errors.New("x")
	for i := 0; i < n; i++ {
		simrt.Sleep(time.Duration(r.IntN(int(cfg.Window/time.Millisecond)/4+1)) * time.Millisecond)
		lat := time.Duration(r.IntN(2*int(cfg.LatencyCrit/time.Millisecond)+1)) * time.Millisecond
		var errA, errB error
		if r.IntN(4) == 0 {
			errA, errB = injected, injected
		} else if r.IntN(4) == 0 {
			errB = injected
		}
		extra := time.Duration(0)
		if r.IntN(3) == 0 {
			extra = time.Duration(r.IntN(3000)) * time.Millisecond
		}
		a.RecordOperation("op", lat, errA)
		b.RecordOperation("op", lat+extra, errB)
		w.sim.Probe("c25.meta-sample")
		if rank(b.State()) < rank(a.State()) {
			w.sim.Fail("C25", "rating-not-monotone", "after %d samples the monitor with pointwise higher latency/errors rates %s but the other rates %s (cfg %+v)", i+1, b.State(), a.State(), cfg)
			return
		}
	}
	if cfg.MaxSamples <= 16 {
		// recency: as many good operations as the monitor keeps, then as many failed ones, all well inside
		// the window - the rating must be about the recent ones
		c := broker.NewS3HealthMonitor(cfg)
		for i := 0; i < cfg.MaxSamples; i++ {
			c.RecordOperation("op", time.Millisecond, nil)
		}
		for i := 0; i < cfg.MaxSamples+2; i++ {
			c.RecordOperation("op", time.Millisecond, injected)
		}
		w.sim.Probe("c25.recency-judged")
		if c.State() == broker.S3StateHealthy {
			w.sim.Fail("C25", "rating-ignores-recent-operations", "%d successful operations followed by %d failed ones within one window (%v) are rated %s (cfg %+v)", cfg.MaxSamples, cfg.MaxSamples+2, cfg.Window, c.State(), cfg)
			return
		}
	}
	simrt.Sleep(cfg.Window + time.Millisecond)
	if a.State() != broker.S3StateHealthy || b.State() != broker.S3StateHealthy {
		w.sim.Fail("C25", "stale-samples-influence-rating", "one full window (%v) after the last sample the ratings are %s / %s", cfg.Window, a.State(), b.State())
	}
}

func pickInt(r *rand.Rand, xs ...int) int { return xs[r.IntN(len(xs))] }

func w1GenHealth(r *rand.Rand, c *simrt.Case, nclients, maxOps int) {
	cfg := c.Config
	cfg["health_lenient"] = 0
	cfg["health_window_s"] = pick[int64](r, 2, 10, 60)
	cfg["health_err_warn_pct"] = pick[int64](r, 10, 20, 40)
	cfg["health_err_crit_pct"] = pick[int64](r, 50, 60, 90)
	cfg["health_lat_warn_ms"] = pick[int64](r, 50, 500)
	cfg["health_lat_crit_ms"] = pick[int64](r, 1000, 3000)
	cfg["partitions"] = 2
	if r.IntN(4) == 0 {
		// one client, multi-partition requests, failing segment uploads: what happens to the later
		// partitions of a request whose first partition's failures have just changed the rating
		cfg["solo"] = 1
		cfg["health_window_s"] = 60
		cfg["health_err_warn_pct"], cfg["health_err_crit_pct"] = pick[int64](r, 10, 20, 40), pick[int64](r, 50, 60)
		for i := 0; i < 2+r.IntN(5); i++ {
			c.Program = append(c.Program, simrt.Op{Actor: 0, Kind: pick(r, "mproduce", "mproduce", "produce"), B: int64(r.IntN(2)), C: int64(1 + r.IntN(3)), D: pick[int64](r, 1, -1)})
		}
		c.Faults = append(c.Faults, simrt.Fault{Kind: "s3.fail_before", Op: "s3.put.segment", Nth: r.IntN(4), Count: 1 + r.IntN(3)})
		return
	}
	for cl := 0; cl < nclients; cl++ {
		n := 3 + r.IntN(maxOps+3)
		for i := 0; i < n; i++ {
			switch x := r.IntN(10); {
			case x < 5:
				c.Program = append(c.Program, simrt.Op{Actor: cl, Kind: "produce", B: int64(r.IntN(2)), C: int64(1 + r.IntN(3)), D: pick[int64](r, 1, -1)})
			case x < 8:
				c.Program = append(c.Program, simrt.Op{Actor: cl, Kind: "fetch", B: int64(r.IntN(2)), C: int64(r.IntN(50)), D: pick[int64](r, 100, 1<<20)})
			default:
				c.Program = append(c.Program, simrt.Op{Actor: cl, Kind: "sleep", A: pick[int64](r, 1, 50, 1500, 12000)})
			}
		}
	}
	c.Program = append(c.Program, simrt.Op{Actor: nclients, Kind: "health-meta", A: int64(r.Uint32()), B: int64(r.Uint32())})
	// bursts of failures / slowness that push the monitor out of healthy
	for i := 0; i < 1+r.IntN(3); i++ {
		switch r.IntN(4) {
		case 0:
			c.Faults = append(c.Faults, simrt.Fault{Kind: "s3.fail_before", Op: "s3.put", Nth: r.IntN(6), Count: 1 + r.IntN(6)})
		case 1:
			c.Faults = append(c.Faults, simrt.Fault{Kind: "s3.slow", Op: "s3.put", Nth: r.IntN(6), Count: 1 + r.IntN(4), Arg: int64(300+r.IntN(5000)) * 1e6})
		case 2:
			c.Faults = append(c.Faults, simrt.Fault{Kind: "s3.fail_before", Op: "s3.get", Nth: r.IntN(4), Count: 1 + r.IntN(4)})
		case 3:
			c.Faults = append(c.Faults, simrt.Fault{Kind: "s3.slow", Op: "s3.get", Nth: r.IntN(4), Count: 1 + r.IntN(3), Arg: int64(300+r.IntN(5000)) * 1e6})
		}
	}
}

var _ = fmt.Sprintf
