package main

import (
	"context"
	"fmt"
	"math/rand/v2"
	"strings"

	"github.com/twmb/franz-go/pkg/kmsg"

	"verif/sim/simrt"
)

// ---------------------------------------------------------------- C22
//
// C22: "Topic names the broker accepts never cause two distinct topics (or a
// topic and a partition of another) to map to the same S3 objects or etcd
// keys. Names that would alias another topic's storage, such as those
// containing path separators or dot segments, are rejected."

var w1AliasNames = []string{"a", "a/0", "x/../a", "a/./0", "..", ".", "a:0", "A", "a.b", "a/0/1", "a//0", "b", "b/", "a1"}

func (w *w1) opCreateTopic(client int, op simrt.Op) {
	name := w.topic(op.A)
	req := kmsg.NewPtrCreateTopicsRequest()
	req.Version = int16(op.C % 3)
	req.TimeoutMillis = 1000
	t := kmsg.NewCreateTopicsRequestTopic()
	t.Topic = name
	t.NumPartitions = int32(1 + op.B%3)
	t.ReplicationFactor = 1
	req.Topics = append(req.Topics, t)
	w.node(int64(client)).call(req, fmt.Sprintf("c%d", client), func(r kmsg.Response) {
		resp := r.(*kmsg.CreateTopicsResponse)
		if len(resp.Topics) == 1 {
			w.sim.Note("create-topic %q code=%d", name, resp.Topics[0].ErrorCode)
			if resp.Topics[0].ErrorCode == 0 {
				w.accepted[name] = true
			}
		}
	})
}

// judgeTopicKeys: no storage key is written on behalf of two different
// (topic, partition) pairs, and no partition's durable end offset is moved by
// traffic to another topic.
func (w *w1) judgeTopicKeys() {
	type tp struct {
		topic string
		part  int32
	}
	owner := map[string]tp{}
	reqOf := map[string]tp{}
	for _, r := range w.ledger {
		if r.task != "" {
			reqOf[r.task] = tp{r.topic, r.part}
			if r.answered && r.code == 0 {
				w.accepted[r.topic] = true
			}
		}
	}
	for _, wr := range w.s3.Log {
		if wr.Del {
			continue
		}
		var who *tp
		for task, t := range reqOf {
			if wr.Task == task || strings.HasPrefix(wr.Task, task+"/") {
				tt := t
				who = &tt
				break
			}
		}
		if who == nil {
			continue
		}
		if prev, ok := owner[wr.Key]; ok && prev != *who {
			w.sim.Fail("C22", "shared-storage-key", "S3 key %s was written for topic %q partition %d and for topic %q partition %d", wr.Key, prev.topic, prev.part, who.topic, who.part)
			return
		}
		owner[wr.Key] = *who
	}
	// metadata: the next offset of a partition never exceeds what was produced to that partition
	produced := map[tp]int64{}
	for _, r := range w.ledger {
		produced[tp{r.topic, r.part}] += int64(r.nrec)
	}
	for name := range w.accepted {
		for p := int32(0); p < 3; p++ {
			next, err := w.inner.NextOffset(context.Background(), name, p)
			if err != nil {
				continue
			}
			if next > produced[tp{name, p}] {
				w.sim.Fail("C22", "shared-metadata-key", "topic %q partition %d has next offset %d in the metadata store but only %d records were ever produced to it", name, p, next, produced[tp{name, p}])
				return
			}
		}
	}
}

func w1GenTopics(r *rand.Rand, c *simrt.Case, nclients, maxOps int) {
	cfg := c.Config
	cfg["topic_alias"] = 1
	cfg["topics"] = int64(len(w1AliasNames))
	cfg["precreate"] = 0
	cfg["partitions"] = 3
	cfg["auto_create"] = int64(r.IntN(2))
	cfg["auto_partitions"] = int64(1 + r.IntN(3))
	cfg["restart_delay_ms"] = 10
	// each run uses a small subset of names so that aliasing pairs meet often
	sub := []int64{int64(r.IntN(len(w1AliasNames))), int64(r.IntN(len(w1AliasNames))), int64(r.IntN(4))}
	digits := r.IntN(5) == 0
	if digits {
		// names and partition numbers whose concatenation collides ("a"+"10" = "a1"+"0"), many partitions,
		// first opens racing over a slow listing
		cfg["partitions"] = 12
		cfg["auto_create"] = 1
		cfg["auto_partitions"] = 12
		sub = []int64{0, int64(len(w1AliasNames) - 1)}
		c.Faults = append(c.Faults, simrt.Fault{Kind: "s3.slow", Op: "s3.list", Nth: r.IntN(2), Count: 1 + r.IntN(2), Arg: int64(20+r.IntN(300)) * 1e6})
	}
	for cl := 0; cl < nclients; cl++ {
		n := 2 + r.IntN(maxOps+2)
		for i := 0; i < n; i++ {
			name := sub[r.IntN(len(sub))]
			switch x := r.IntN(10); {
			case x < 3:
				c.Program = append(c.Program, simrt.Op{Actor: cl, Kind: "create-topic", A: name, B: int64(r.IntN(3)), C: int64(r.IntN(3))})
			case x < 8:
				part := int64(r.IntN(3))
				if digits {
					part = pick[int64](r, 0, 1, 10, 11)
				}
				c.Program = append(c.Program, simrt.Op{Actor: cl, Kind: "produce", A: name, B: part, C: int64(1 + r.IntN(3)), D: pick[int64](r, 1, -1)})
			default:
				c.Program = append(c.Program, simrt.Op{Actor: cl, Kind: "fetch", A: name, B: int64(r.IntN(3)), C: int64(r.IntN(20)), D: 1 << 20})
			}
		}
	}
	c.Program = append(c.Program, simrt.Op{Actor: 100, Kind: "crash"})
	for i := 0; i < 4+r.IntN(4); i++ {
		c.Program = append(c.Program, simrt.Op{Actor: 100, Kind: "fetch", A: sub[r.IntN(len(sub))], B: int64(r.IntN(3)), S: "abs", C: 0, D: 1 << 20})
	}
}
