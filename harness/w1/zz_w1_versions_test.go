package main

import (
	"fmt"
	"math/rand/v2"

	"github.com/twmb/franz-go/pkg/kmsg"

	"verif/sim/simrt"
)

// ---------------------------------------------------------------- C11
//
// C11: "For every API key and version in the broker's ApiVersions response, a
// request at that version gets a reply. A standard Kafka client codec decodes
// that reply at the same version, and it carries the request's correlation id
// and the correct header shape. No request version, advertised or not, yields
// a reply that the codec cannot decode at that version."
//
// The decode / correlation-id / header-shape checks live in bnode.call (every
// request of every world-1 run passes through them); this file adds the
// complete sweep over the advertised (key, version) pairs.

func fillRequest(req kmsg.Request, w *w1, variant int64) {
	topic := fmt.Sprintf("t%d", variant%2)
	group := fmt.Sprintf("g%d", variant%2)
	switch r := req.(type) {
	case *kmsg.ProduceRequest:
		r.Acks, r.TimeoutMillis = 1, 1000
		sent, _ := w.buildBatch(700, int(variant), 1+int(variant%3), 8)
		rt := kmsg.NewProduceRequestTopic()
		rt.Topic = topic
		rp := kmsg.NewProduceRequestTopicPartition()
		rp.Records = sent
		if variant%5 == 4 {
			rp.Partition = 1 + int32(variant%3) // a partition the (one-partition) topic does not have
		}
		rt.Partitions = append(rt.Partitions, rp)
		r.Topics = append(r.Topics, rt)
	case *kmsg.FetchRequest:
		r.ReplicaID, r.MaxBytes = -1, 1<<20
		rt := kmsg.NewFetchRequestTopic()
		rt.Topic = topic
		if r.Version >= 13 {
			rt.Topic, rt.TopicID = "", topicIDFor(topic)
		}
		rp := kmsg.NewFetchRequestTopicPartition()
		rp.PartitionMaxBytes, rp.CurrentLeaderEpoch = 1<<20, -1
		if variant%5 == 3 {
			rp.Partition = 1 + int32(variant%3)
		}
		rt.Partitions = append(rt.Partitions, rp)
		r.Topics = append(r.Topics, rt)
	case *kmsg.MetadataRequest:
		if variant%2 == 0 {
			mt := kmsg.NewMetadataRequestTopic()
			mt.Topic = kmsg.StringPtr(topic)
			r.Topics = append(r.Topics, mt)
		} else if r.Version >= 1 {
			r.Topics = nil
		}
	case *kmsg.ListOffsetsRequest:
		r.ReplicaID = -1
		rt := kmsg.NewListOffsetsRequestTopic()
		rt.Topic = topic
		rp := kmsg.NewListOffsetsRequestTopicPartition()
		rp.Timestamp, rp.MaxNumOffsets = -1-variant%2, 1
		if variant%5 == 2 {
			rp.Partition = 1 + int32(variant%3)
		}
		rt.Partitions = append(rt.Partitions, rp)
		r.Topics = append(r.Topics, rt)
	case *kmsg.FindCoordinatorRequest:
		r.CoordinatorKey = group
	case *kmsg.JoinGroupRequest:
		r.Group, r.SessionTimeoutMillis, r.RebalanceTimeoutMillis, r.ProtocolType = group, 10000, 500, "consumer"
		pr := kmsg.NewJoinGroupRequestProtocol()
		pr.Name = "range"
		r.Protocols = append(r.Protocols, pr)
	case *kmsg.SyncGroupRequest:
		r.Group, r.MemberID = group, "m"
	case *kmsg.HeartbeatRequest:
		r.Group, r.MemberID = group, "m"
	case *kmsg.LeaveGroupRequest:
		r.Group = group
		r.MemberID = "m"
		m := kmsg.NewLeaveGroupRequestMember()
		m.MemberID = "m"
		r.Members = append(r.Members, m)
	case *kmsg.OffsetCommitRequest:
		r.Group, r.Generation = group, -1
		ct := kmsg.NewOffsetCommitRequestTopic()
		ct.Topic = topic
		cp := kmsg.NewOffsetCommitRequestTopicPartition()
		cp.Offset = 5
		ct.Partitions = append(ct.Partitions, cp)
		r.Topics = append(r.Topics, ct)
	case *kmsg.OffsetFetchRequest:
		r.Group = group
		ft := kmsg.NewOffsetFetchRequestTopic()
		ft.Topic, ft.Partitions = topic, []int32{0}
		r.Topics = append(r.Topics, ft)
	case *kmsg.DescribeGroupsRequest:
		r.Groups = []string{group}
	case *kmsg.ListGroupsRequest:
	case *kmsg.OffsetForLeaderEpochRequest:
		r.ReplicaID = -1
		rt := kmsg.NewOffsetForLeaderEpochRequestTopic()
		rt.Topic = topic
		rp := kmsg.NewOffsetForLeaderEpochRequestTopicPartition()
		rp.CurrentLeaderEpoch = -1
		rt.Partitions = append(rt.Partitions, rp)
		r.Topics = append(r.Topics, rt)
	case *kmsg.DescribeConfigsRequest:
		res := kmsg.NewDescribeConfigsRequestResource()
		res.ResourceType, res.ResourceName = kmsg.ConfigResourceTypeTopic, topic
		r.Resources = append(r.Resources, res)
	case *kmsg.AlterConfigsRequest:
		res := kmsg.NewAlterConfigsRequestResource()
		res.ResourceType, res.ResourceName = kmsg.ConfigResourceTypeTopic, topic
		c := kmsg.NewAlterConfigsRequestResourceConfig()
		c.Name, c.Value = "retention.ms", kmsg.StringPtr("60000")
		res.Configs = append(res.Configs, c)
		r.Resources = append(r.Resources, res)
	case *kmsg.CreatePartitionsRequest:
		r.TimeoutMillis = 1000
		cp := kmsg.NewCreatePartitionsRequestTopic()
		cp.Topic, cp.Count = topic, 3
		r.Topics = append(r.Topics, cp)
	case *kmsg.CreateTopicsRequest:
		r.TimeoutMillis = 1000
		ct := kmsg.NewCreateTopicsRequestTopic()
		ct.Topic, ct.NumPartitions, ct.ReplicationFactor = fmt.Sprintf("sweep%d", variant%3), 1, 1
		r.Topics = append(r.Topics, ct)
	case *kmsg.DeleteTopicsRequest:
		r.TimeoutMillis = 1000
		r.TopicNames = []string{fmt.Sprintf("sweep%d", variant%3)}
	case *kmsg.DeleteGroupsRequest:
		r.Groups = []string{group}
	}
}

// sweepNote names what is unusual about a sweep request (a partition the topic does not have).
func sweepNote(req kmsg.Request) string {
	switch r := req.(type) {
	case *kmsg.ProduceRequest:
		if len(r.Topics) > 0 && len(r.Topics[0].Partitions) > 0 && r.Topics[0].Partitions[0].Partition > 0 {
			return fmt.Sprintf(" for partition %d of the one-partition topic %s", r.Topics[0].Partitions[0].Partition, r.Topics[0].Topic)
		}
	case *kmsg.FetchRequest:
		if len(r.Topics) > 0 && len(r.Topics[0].Partitions) > 0 && r.Topics[0].Partitions[0].Partition > 0 {
			return fmt.Sprintf(" for partition %d of a one-partition topic", r.Topics[0].Partitions[0].Partition)
		}
	case *kmsg.ListOffsetsRequest:
		if len(r.Topics) > 0 && len(r.Topics[0].Partitions) > 0 && r.Topics[0].Partitions[0].Partition > 0 {
			return fmt.Sprintf(" for partition %d of the one-partition topic %s", r.Topics[0].Partitions[0].Partition, r.Topics[0].Topic)
		}
	}
	return ""
}

func (w *w1) opVersionSweep(client int, op simrt.Op) {
	n := w.node(0)
	av := kmsg.NewPtrApiVersionsRequest()
	av.Version = int16(op.A % 4)
	av.ClientSoftwareName, av.ClientSoftwareVersion = "sim", "1"
	resp, ok := n.call(av, "sweep", nil)
	if !ok || resp == nil {
		w.sim.Fail("C11", "no-reply", "ApiVersions v%d got no reply", av.Version)
		return
	}
	keys := resp.(*kmsg.ApiVersionsResponse).ApiKeys
	if resp.(*kmsg.ApiVersionsResponse).ErrorCode != 0 || len(keys) == 0 {
		// (a reply whose header shape is wrong for its version can still "decode" - as an empty list)
		w.sim.Fail("C11", "apiversions-reply-empty", "ApiVersions v%d decoded with a standard codec gives error code %d and %d api keys", av.Version, resp.(*kmsg.ApiVersionsResponse).ErrorCode, len(keys))
		return
	}
	for _, k := range keys {
		if k.MinVersion < 0 || k.MaxVersion < k.MinVersion {
			continue // explicitly advertised as unsupported
		}
		probe := kmsg.RequestForKey(k.ApiKey)
		if probe == nil {
			w.sim.Fail("C11", "advertised-unknown-key", "ApiVersions advertises key %d which the codec does not know", k.ApiKey)
			return
		}
		versions := []int16{}
		for v := k.MinVersion; v <= k.MaxVersion; v++ {
			versions = append(versions, v)
		}
		// a sample of versions outside the advertised range (only those the codec can encode)
		for _, v := range []int16{k.MinVersion - 1, k.MaxVersion + 1, k.MaxVersion + 5} {
			if v >= 0 && v <= probe.MaxVersion() {
				versions = append(versions, v)
			}
		}
		for _, v := range versions {
			req := kmsg.RequestForKey(k.ApiKey)
			req.SetVersion(v)
			fillRequest(req, w, op.B+int64(v))
			advertised := v >= k.MinVersion && v <= k.MaxVersion
			w.sim.Probe("c11.pair")
			w.sweepInFlight = fmt.Sprintf("%s v%d%s", kmsg.NameForKey(k.ApiKey), v, sweepNote(req))
			r, ok := n.call(req, "sweep", nil) // call() fails the run on an undecodable reply or a wrong correlation id
			w.sweepInFlight = ""
			if w.sim.Failed() {
				return
			}
			if advertised && (!ok || r == nil) {
				w.sim.Fail("C11", "no-reply", "%s v%d is advertised but the broker sent no reply", kmsg.NameForKey(k.ApiKey), v)
				return
			}
			if avr, isAV := r.(*kmsg.ApiVersionsResponse); isAV && advertised && (avr.ErrorCode != 0 || len(avr.ApiKeys) != len(keys)) {
				w.sim.Fail("C11", "apiversions-reply-differs", "ApiVersions v%d decodes to error code %d and %d api keys; v%d listed %d", v, avr.ErrorCode, len(avr.ApiKeys), av.Version, len(keys))
				return
			}
		}
	}
}

func w1GenVersions(r *rand.Rand, c *simrt.Case, nclients, maxOps int) {
	c.Config["topics"] = 2
	c.Config["partitions"] = 1
	c.Config["max_steps"] = 30000
	c.Program = append(c.Program, simrt.Op{Actor: 0, Kind: "version-sweep", A: int64(r.IntN(4)), B: int64(r.IntN(100))})
	// background traffic so the sweep meets non-empty logs, groups and a busy broker
	for cl := 1; cl < nclients; cl++ {
		for i := 0; i < 2+r.IntN(maxOps); i++ {
			if r.IntN(2) == 0 {
				c.Program = append(c.Program, simrt.Op{Actor: cl, Kind: "produce", A: int64(r.IntN(2)), C: int64(1 + r.IntN(3)), D: 1})
			} else {
				c.Program = append(c.Program, simrt.Op{Actor: cl, Kind: "fetch", A: int64(r.IntN(2)), C: int64(r.IntN(10)), D: 1 << 20})
			}
		}
	}
}
