package main

import (
	"context"
	"fmt"
	"math/rand/v2"
	"strings"

	"github.com/KafScale/platform/pkg/metadata"
	"github.com/KafScale/platform/pkg/protocol"
	"github.com/twmb/franz-go/pkg/kmsg"

	"verif/sim/simetcd"
	"verif/sim/simrt"
)

// ---------------------------------------------------------------- C19
//
// C19: "When partition leasing is active, a broker returns a success code for a
// produce to partition p only if it held p's lease when it appended. Otherwise
// the client gets NOT_LEADER_OR_FOLLOWER (another owner) or a retriable error,
// and nothing is written."

const w1AppendSite = "storage.PartitionLog.AppendBatch#lock0"

func (w *w1) etcdMode() bool { return w.cfg("etcd", 0) == 1 }

func (w *w1) etcdMeta() metadata.ClusterMetadata {
	meta := metadata.ClusterMetadata{ControllerID: 0, ClusterID: kmsg.StringPtr("sim")}
	for i := 0; i < int(w.cfg("brokers", 1)); i++ {
		meta.Brokers = append(meta.Brokers, protocol.MetadataBroker{NodeID: int32(i), Host: fmt.Sprintf("broker-b%d", i), Port: 9092})
	}
	for _, name := range w.topics {
		mt := protocol.MetadataTopic{Topic: kmsg.StringPtr(name), TopicID: metadata.TopicIDForName(name)}
		for p := int32(0); p < w.nparts; p++ {
			mt.Partitions = append(mt.Partitions, protocol.MetadataPartition{Partition: p, Leader: 0, Replicas: []int32{0}, ISR: []int32{0}})
		}
		meta.Topics = append(meta.Topics, mt)
	}
	return meta
}

func (w *w1) setupEtcd() {
	w.etcd = simetcd.NewServer(w.sim, w.cfg("etcd_lat_us", 400))
	simetcd.Install(w.etcd)
	w.etcd.StartExpirer()
	w.sim.OnRelease(func(task, site string) {
		if site != w1AppendSite {
			return
		}
		// which produce does this append belong to?
		for i := len(w.ledger) - 1; i >= 0; i-- {
			rec := w.ledger[i]
			if rec.task != "" && (task == rec.task || strings.HasPrefix(task, rec.task+"/")) {
				if rec.multi {
					return // which partition of the request this append belongs to is not observable here
				}
				rec.appendSeen = true
				rec.heldAtAppend, rec.leaseNote = w.leaseHeldNow(rec)
				return
			}
		}
	})
	// who the etcd server shows as live owner of each partition lease, step by step
	w.ownerHist = map[string][]ownerAt{}
	w.sim.OnStep(func() error {
		for _, topic := range w.topics {
			for p := int32(0); p < w.nparts; p++ {
				key := fmt.Sprintf("%s/%s/%d", metadata.PartitionLeasePrefix(), topic, p)
				inc := ""
				if _, leaseID, ok := w.etcd.KeyInfo(key); ok && w.etcd.LeaseAlive(leaseID) {
					inc = w.etcd.LeaseOwner(leaseID)
				}
				h := w.ownerHist[key]
				if len(h) == 0 || h[len(h)-1].inc != inc {
					w.ownerHist[key] = append(h, ownerAt{w.sim.Step(), inc})
				}
			}
		}
		return nil
	})
}

type ownerAt struct {
	step int
	inc  string
}

// lostBeforeReply: incarnation inc was the live owner at some step of [from, to] but no longer at step to
// (or never was): the request outlived its lease.
func (w *w1) lostBeforeReply(topic string, part int32, inc string, from, to int) bool {
	h := w.ownerHist[fmt.Sprintf("%s/%s/%d", metadata.PartitionLeasePrefix(), topic, part)]
	for i, o := range h {
		end := int(^uint(0) >> 1)
		if i+1 < len(h) {
			end = h[i+1].step
		}
		if o.inc != "" && o.inc != inc && o.step <= to && end >= from {
			// somebody else held the lease at some point while this request was being handled: even if the
			// broker has it back by the time it replies, it lost it in flight (1 in 150 000 thorough runs: lost,
			// interim owner appended and acknowledged, lease regained before the slow upload finished)
			return true
		}
	}
	for i, o := range h {
		end := int(^uint(0) >> 1)
		if i+1 < len(h) {
			end = h[i+1].step
		}
		if o.inc == inc && o.step <= to && end >= to {
			return false // owner at the step of the reply
		}
	}
	return true
}

// ownedDuring: did incarnation inc hold the lease of topic/part at any step in [from, to]?
func (w *w1) ownedDuring(topic string, part int32, inc string, from, to int) bool {
	h := w.ownerHist[fmt.Sprintf("%s/%s/%d", metadata.PartitionLeasePrefix(), topic, part)]
	for i, o := range h {
		end := int(^uint(0) >> 1)
		if i+1 < len(h) {
			end = h[i+1].step
		}
		if o.inc == inc && o.step <= to && end >= from {
			return true
		}
	}
	return false
}

// etcdStoreFor creates the incarnation's EtcdStore on its own simulated client.
func (w *w1) etcdStoreFor(n *bnode) *metadata.EtcdStore {
	simetcd.NextClientName = n.inc
	st, err := metadata.NewEtcdStore(context.Background(), w.etcdMeta(), metadata.EtcdStoreConfig{Endpoints: []string{"sim:2379"}})
	simetcd.NextClientName = ""
	if err != nil {
		w.sim.Fail("HARNESS", "setup", "NewEtcdStore: %v", err)
		return nil
	}
	return st
}

// leaseHeldNow: does the etcd server, at this scheduler step, show rec's broker incarnation as the
// live owner of rec's partition?
func (w *w1) leaseHeldNow(rec *produceRec) (bool, string) {
	key := fmt.Sprintf("%s/%s/%d", metadata.PartitionLeasePrefix(), rec.topic, rec.part)
	owner, leaseID, ok := w.etcd.KeyInfo(key)
	broker := strings.TrimPrefix(strings.SplitN(rec.inc, "#", 2)[0], "b")
	held := ok && owner == broker && w.etcd.LeaseAlive(leaseID) && w.etcd.LeaseOwner(leaseID) == rec.inc
	if held {
		return true, ""
	}
	return false, fmt.Sprintf("lease key %s: exists=%v owner=%q lease-alive=%v lease-client=%q", key, ok, owner, w.etcd.LeaseAlive(leaseID), w.etcd.LeaseOwner(leaseID))
}

func (w *w1) judgeLease(rec *produceRec) {
	if w.etcdMode() && w.etcd != nil {
		rec.heldAtAck, _ = w.leaseHeldNow(rec)
	}
	if w.prop != "C19" || !w.etcdMode() {
		return
	}
	w.sim.Probe("c19.produce-reply")
	if rec.code == 0 && len(w.sim.Stats.FaultsFired) == 0 && !w.crashed {
		// without any fault or crash no lease ever lapses: a broker that never was the live owner of the
		// partition at any step of the request cannot have "held the lease when it appended"
		w.sim.Probe("c19.ownership-during-request-judged")
		if !w.ownedDuring(rec.topic, rec.part, rec.inc, rec.invoke, rec.ret) {
			w.sim.Fail("C19", "success-for-partition-never-owned", "broker %s acknowledged a produce to %s/%d (base %d) in a run without faults, yet the lease of that partition was never held by it at any step of the request (steps %d..%d; owners seen: %v)", rec.inc, rec.topic, rec.part, rec.base, rec.invoke, rec.ret, w.ownerHist[fmt.Sprintf("%s/%s/%d", metadata.PartitionLeasePrefix(), rec.topic, rec.part)])
			return
		}
	}
	if rec.multi {
		// per-partition append observation is not available for multi-partition requests; the
		// ownership clause above and the write attribution below still apply
		if rec.code == 6 {
			w.sim.Probe("c19.not-leader")
			prefix := w.partPrefix(rec.topic, rec.part)
			for _, wr := range w.s3.Log {
				if rec.task != "" && (wr.Task == rec.task || strings.HasPrefix(wr.Task, rec.task+"/")) && strings.HasPrefix(wr.Key, prefix) {
					w.sim.Fail("C19", "write-after-not-leader", "partition %s/%d of a multi-partition produce to %s was answered NOT_LEADER_OR_FOLLOWER, yet the request wrote %s", rec.topic, rec.part, rec.inc, wr.Key)
					return
				}
			}
		}
		return
	}
	if rec.code == 0 {
		if !rec.appendSeen {
			w.sim.Fail("C19", "success-without-append", "produce %s/%d acknowledged by %s but no append was observed for it", rec.topic, rec.part, rec.inc)
			return
		}
		w.sim.Probe("c19.acked-append-judged")
		if !rec.heldAtAppend {
			w.sim.FailSoft("C19", "append-without-lease", "broker %s acknowledged a produce to %s/%d (base %d) although it did not hold the partition lease at the step it appended: %s", rec.inc, rec.topic, rec.part, rec.base, rec.leaseNote)
		}
		return
	}
	// not acknowledged: the request must not have uploaded anything if it was refused for ownership
	if rec.code == 6 { // NOT_LEADER_OR_FOLLOWER
		w.sim.Probe("c19.not-leader")
		for _, wr := range w.s3.Log {
			if rec.task != "" && (wr.Task == rec.task || strings.HasPrefix(wr.Task, rec.task+"/")) {
				w.sim.Fail("C19", "write-after-not-leader", "produce %s/%d to %s was answered NOT_LEADER_OR_FOLLOWER, yet its request wrote %s", rec.topic, rec.part, rec.inc, wr.Key)
				return
			}
		}
	}
}

// judgeSegmentOverwrites: the visible consequence of two simultaneous owners. Two different
// brokers must never both ACKNOWLEDGE records at the same offset of one partition. (A new owner
// overwriting a crashed owner's unacknowledged orphan segment is legitimate and is not judged:
// an earlier version of this clause compared uploads and raised that false alarm.)
func (w *w1) judgeSegmentOverwrites() {
	type span struct {
		lo, hi int64
		rec    *produceRec
	}
	seen := map[string][]span{}
	for _, rec := range w.ledger {
		if !rec.answered || rec.code != 0 || rec.base < 0 || rec.nrec <= 0 || !rec.appendSeen {
			continue
		}
		k := fmt.Sprintf("%s/%d", rec.topic, rec.part)
		lo, hi := rec.base, rec.base+int64(rec.nrec)-1
		for _, s := range seen[k] {
			if s.lo <= hi && lo <= s.hi && strings.SplitN(s.rec.inc, "#", 2)[0] != strings.SplitN(rec.inc, "#", 2)[0] {
				if s.rec.heldAtAppend && rec.heldAtAppend {
					// both held the lease when they appended: offset reuse across a hand-over is C02's clause
					w.sim.Probe("foreign:C02/overlap")
					continue
				}
				w.sim.FailSoft("C19", "two-brokers-acked-one-offset", "brokers %s and %s both acknowledged records at offsets [%d,%d]∩[%d,%d] of %s: both appended as owner", s.rec.inc, rec.inc, s.lo, s.hi, lo, hi, k)
				return
			}
		}
		seen[k] = append(seen[k], span{lo, hi, rec})
	}
}

func w1GenLease(r *rand.Rand, c *simrt.Case, nclients, maxOps int) {
	cfg := c.Config
	cfg["etcd"] = 1
	cfg["brokers"] = int64(2 + r.IntN(2))
	// the brokers' lease TTL is what newHandler configures (the default, 10 s): sleeps, dropped
	// keep-alive runs (one every TTL/3) and stalls below are sized around it
	cfg["partitions"] = 2
	multiTopic := r.IntN(3) == 0
	if multiTopic {
		cfg["topics"] = 2 // the second topic is reached through produce requests that carry every topic
	}
	cfg["etcd_lat_us"] = pick[int64](r, 100, 400, 3000)
	cfg["max_virtual_s"] = 900
	cfg["max_steps"] = 12000
	for cl := 0; cl < nclients+1; cl++ {
		n := 2 + r.IntN(maxOps+2)
		for i := 0; i < n; i++ {
			switch x := r.IntN(10); {
			case x < 2:
				// every partition of the topic in one request: typically a mix of owned and foreign ones
				mb := int64(r.IntN(2))
				if multiTopic && r.IntN(3) > 0 {
					mb |= 2
				}
				c.Program = append(c.Program, simrt.Op{Actor: cl, Kind: "mproduce", B: mb, C: int64(1 + r.IntN(3)), D: pick[int64](r, 1, -1)})
			case x < 7:
				// E selects the broker the request goes to (any broker, owner or not)
				c.Program = append(c.Program, simrt.Op{Actor: cl, Kind: "produce", B: int64(r.IntN(2)), C: int64(1 + r.IntN(3)), D: pick[int64](r, 1, -1), S: "", A: 0})
			case x < 8:
				c.Program = append(c.Program, simrt.Op{Actor: cl, Kind: "sleep", A: pick[int64](r, 1, 100, 1500, 3500, 7000)})
			case x < 9:
				// (a server-side "expire now" is not used here: a real etcd never ends a lease before a
				// full TTL without renewals, and only then is the client's own deadline a usable bound)
				c.Program = append(c.Program, simrt.Op{Actor: cl, Kind: "sleep", A: pick[int64](r, 4000, 11000, 14000, 25000)})
			default:
				c.Program = append(c.Program, simrt.Op{Actor: cl, Kind: "crash", A: int64(r.IntN(3))})
			}
		}
	}
	nb := int(cfg["brokers"])
	for i := 0; i < r.IntN(4); i++ {
		switch r.IntN(5) {
		case 4:
			// one broker's keep-alives are lost for longer than the TTL (one goes out every TTL/3) while the
			// others stay connected: its partitions move to whoever is asked next
			c.Faults = append(c.Faults, simrt.Fault{Kind: "etcd.drop_keepalive.unavail", Op: "etcd.lease.keepalive", Key: fmt.Sprintf("@b%d", r.IntN(nb)), Nth: r.IntN(5), Count: 3 + r.IntN(4)})
		case 0:
			c.Faults = append(c.Faults, simrt.Fault{Kind: "s3.slow", Op: "s3.", Nth: r.IntN(8), Arg: int64(500+r.IntN(16000)) * 1e6})
		case 1:
			c.Faults = append(c.Faults, simrt.Fault{Kind: "etcd.drop_keepalive.unavail", Op: "etcd.lease.keepalive", Nth: r.IntN(4), Count: 3 + r.IntN(9)})
		case 2:
			c.Faults = append(c.Faults, simrt.Fault{Kind: "etcd.unavail", Op: "etcd.txn", Nth: r.IntN(6)})
		case 3:
			arg := int64(200+r.IntN(5000)) * 1e6
			op := "etcd."
			if r.IntN(3) == 0 {
				// an acquisition (or any other etcd round trip) that takes longer than the produce request's own
				// timeout_ms (5 s here): the request may fail, it may not go ahead without the lease
				arg, op = int64(5500+r.IntN(9000))*1e6, "etcd.txn"
				c.Faults = append(c.Faults, simrt.Fault{Kind: "etcd.slow", Op: op, Nth: r.IntN(8), Count: 1 + r.IntN(4), Arg: arg})
				continue
			}
			c.Faults = append(c.Faults, simrt.Fault{Kind: "etcd.slow", Op: op, Nth: r.IntN(10), Arg: arg})
		}
	}
}

// opExpireLease makes the server end broker A's partition session lease now.
func (w *w1) opExpireLease(op simrt.Op) {
	if w.etcd == nil {
		return
	}
	n := w.node(op.A)
	if n.h == nil || n.h.leaseManager == nil {
		return
	}
	// find the session lease through the keys this incarnation holds
	for k := range w.etcd.Snapshot(metadata.PartitionLeasePrefix() + "/") {
		if _, id, ok := w.etcd.KeyInfo(k); ok && w.etcd.LeaseOwner(id) == n.inc {
			w.etcd.ExpireNow(id)
			w.sim.Probe("c19.lease-expired-by-server")
			return
		}
	}
}
