package main

import (
	"fmt"
	"math/rand/v2"
	"strings"

	"github.com/KafScale/platform/pkg/acl"
	"github.com/twmb/franz-go/pkg/kmsg"

	"verif/sim/simrt"
)

// ---------------------------------------------------------------- C24
//
// C24: "With ACL enforcement enabled, a request from a principal lacking the
// required permission creates no topic, writes no record and commits no offset.
// It changes no group or configuration and returns no record data; the client
// gets an authorization error. This holds for every request type the broker
// accepts."

// refRule / refACL: an independent reading of the ACL semantics (deny wins,
// then allow, then the default policy; unknown principals get the default).
type refRule struct {
	action, resource, name string
}

type refPrincipal struct {
	allow, deny []refRule
}

type refACL struct {
	defaultAllow bool
	principals   map[string]refPrincipal
}

func refMatch(r refRule, action, resource, name string) bool {
	if r.action != "*" && r.action != action {
		return false
	}
	if r.resource != "*" && r.resource != resource {
		return false
	}
	if r.name == "*" || r.name == name {
		return true
	}
	if strings.HasSuffix(r.name, "*") && strings.HasPrefix(name, strings.TrimSuffix(r.name, "*")) {
		return true
	}
	return false
}

func (a *refACL) allows(principal, action, resource, name string) bool {
	p, ok := a.principals[principal]
	if !ok {
		return a.defaultAllow
	}
	for _, r := range p.deny {
		if refMatch(r, action, resource, name) {
			return false
		}
	}
	for _, r := range p.allow {
		if refMatch(r, action, resource, name) {
			return true
		}
	}
	return a.defaultAllow
}

var aclPrincipals = []string{"nobody", "reader", "writer", "grp", "admin", "all", "stranger", "gadmin"}

// w1BuildACL derives the ACL configuration of a run: the same rules go to the
// real authorizer and to the reference model.
func w1BuildACL(w *w1) *acl.Authorizer {
	if w.cfg("acl", 0) != 1 {
		return nil
	}
	defAllow := w.cfg("acl_default_allow", 0) == 1
	ref := &refACL{defaultAllow: defAllow, principals: map[string]refPrincipal{}}
	cfg := acl.Config{Enabled: true, DefaultPolicy: "deny"}
	if defAllow {
		cfg.DefaultPolicy = "allow"
	}
	add := func(name string, allow, deny []refRule) {
		ref.principals[name] = refPrincipal{allow: allow, deny: deny}
		pr := acl.PrincipalRules{Name: name}
		for _, r := range allow {
			pr.Allow = append(pr.Allow, acl.Rule{Action: acl.Action(r.action), Resource: acl.Resource(r.resource), Name: r.name})
		}
		for _, r := range deny {
			pr.Deny = append(pr.Deny, acl.Rule{Action: acl.Action(r.action), Resource: acl.Resource(r.resource), Name: r.name})
		}
		cfg.Principals = append(cfg.Principals, pr)
	}
	add("nobody", nil, []refRule{{"*", "*", "*"}})
	add("reader", []refRule{{"fetch", "topic", "t0"}, {"group_read", "group", "g0"}}, []refRule{{"produce", "topic", "*"}, {"admin", "cluster", "*"}, {"group_write", "group", "*"}, {"group_admin", "group", "*"}, {"fetch", "topic", "t1"}, {"group_read", "group", "g1"}})
	add("writer", []refRule{{"produce", "topic", "t0"}}, []refRule{{"fetch", "topic", "*"}, {"admin", "cluster", "*"}, {"group_write", "group", "*"}, {"group_read", "group", "*"}, {"group_admin", "group", "*"}, {"produce", "topic", "t1"}})
	add("grp", []refRule{{"group_write", "group", "g0"}, {"group_read", "group", "g0"}}, []refRule{{"*", "topic", "*"}, {"admin", "cluster", "*"}, {"group_admin", "group", "*"}, {"*", "group", "g1"}})
	add("admin", []refRule{{"admin", "cluster", "*"}}, []refRule{{"*", "topic", "*"}, {"*", "group", "*"}})
	add("gadmin", []refRule{{"group_admin", "group", "g0"}, {"group_read", "group", "g0"}}, []refRule{{"*", "topic", "*"}, {"admin", "cluster", "*"}, {"*", "group", "g1"}})
	add("all", []refRule{{"*", "*", "*"}}, nil)
	// "stranger" is not configured: it gets the default policy
	w.refACL = ref
	return acl.NewAuthorizer(cfg)
}

type aclItem struct {
	action, resource, name string
	code                   int16 // response code for this item
	leaked                 string
}

const (
	codeTopicAuth   = 29
	codeGroupAuth   = 30
	codeClusterAuth = 31
)

func authCode(c int16) bool { return c == codeTopicAuth || c == codeGroupAuth || c == codeClusterAuth }

// opACL issues one request of kind op.S as principal op.A and judges it.
func (w *w1) opACL(client int, op simrt.Op) {
	principal := aclPrincipals[int(op.A)%len(aclPrincipals)]
	topic := fmt.Sprintf("t%d", op.B%3) // t2 does not exist at the start
	group := fmt.Sprintf("g%d", op.C%2)
	n := w.node(0)
	if n.h == nil {
		return
	}
	task := ""
	mixed := false // several items in one request: effects are judged per denied item
	var req kmsg.Request
	var items func(kmsg.Response) []aclItem
	one := func(action, resource, name string, code int16, leaked string) []aclItem {
		return []aclItem{{action, resource, name, code, leaked}}
	}
	switch op.S {
	case "produce":
		sent, _ := w.buildBatch(900+client, int(op.D), 1, 8)
		r := kmsg.NewPtrProduceRequest()
		r.Version, r.Acks, r.TimeoutMillis = 9, 1, 1000
		rt := kmsg.NewProduceRequestTopic()
		rt.Topic = topic
		rp := kmsg.NewProduceRequestTopicPartition()
		rp.Records = sent
		rt.Partitions = append(rt.Partitions, rp)
		r.Topics = append(r.Topics, rt)
		req = r
		items = func(resp kmsg.Response) []aclItem {
			p := resp.(*kmsg.ProduceResponse)
			if len(p.Topics) != 1 || len(p.Topics[0].Partitions) != 1 {
				return nil
			}
			return one("produce", "topic", topic, p.Topics[0].Partitions[0].ErrorCode, "")
		}
	case "fetch":
		r := kmsg.NewPtrFetchRequest()
		r.Version, r.ReplicaID, r.MaxBytes = 12, -1, 1<<20
		rt := kmsg.NewFetchRequestTopic()
		rt.Topic = topic
		rp := kmsg.NewFetchRequestTopicPartition()
		rp.PartitionMaxBytes, rp.CurrentLeaderEpoch = 1<<20, -1
		rt.Partitions = append(rt.Partitions, rp)
		r.Topics = append(r.Topics, rt)
		req = r
		items = func(resp kmsg.Response) []aclItem {
			p := resp.(*kmsg.FetchResponse)
			if len(p.Topics) != 1 || len(p.Topics[0].Partitions) != 1 {
				return nil
			}
			leak := ""
			if len(p.Topics[0].Partitions[0].RecordBatches) > 0 {
				leak = fmt.Sprintf("%d bytes of record data", len(p.Topics[0].Partitions[0].RecordBatches))
			}
			return one("fetch", "topic", topic, p.Topics[0].Partitions[0].ErrorCode, leak)
		}
	case "fetch-id":
		r := kmsg.NewPtrFetchRequest()
		r.Version, r.ReplicaID, r.MaxBytes = 13, -1, 1<<20
		rt := kmsg.NewFetchRequestTopic()
		rt.TopicID = topicIDFor(topic)
		rp := kmsg.NewFetchRequestTopicPartition()
		rp.PartitionMaxBytes, rp.CurrentLeaderEpoch = 1<<20, -1
		rt.Partitions = append(rt.Partitions, rp)
		r.Topics = append(r.Topics, rt)
		req = r
		items = func(resp kmsg.Response) []aclItem {
			p := resp.(*kmsg.FetchResponse)
			if len(p.Topics) != 1 || len(p.Topics[0].Partitions) != 1 {
				return nil
			}
			code := p.Topics[0].Partitions[0].ErrorCode
			if code == 100 { // unknown topic id: nothing was looked up, nothing to authorize
				return nil
			}
			leak := ""
			if len(p.Topics[0].Partitions[0].RecordBatches) > 0 {
				leak = fmt.Sprintf("%d bytes of record data", len(p.Topics[0].Partitions[0].RecordBatches))
			}
			return one("fetch", "topic", topic, code, leak)
		}
	case "listoffsets":
		r := kmsg.NewPtrListOffsetsRequest()
		r.Version, r.ReplicaID = 4, -1
		rt := kmsg.NewListOffsetsRequestTopic()
		rt.Topic = topic
		rp := kmsg.NewListOffsetsRequestTopicPartition()
		rp.Timestamp = -1 - op.D%2
		rt.Partitions = append(rt.Partitions, rp)
		r.Topics = append(r.Topics, rt)
		req = r
		items = func(resp kmsg.Response) []aclItem {
			p := resp.(*kmsg.ListOffsetsResponse)
			if len(p.Topics) != 1 || len(p.Topics[0].Partitions) != 1 {
				return nil
			}
			return one("fetch", "topic", topic, p.Topics[0].Partitions[0].ErrorCode, "")
		}
	case "metadata":
		r := kmsg.NewPtrMetadataRequest()
		r.Version = 8
		mt := kmsg.NewMetadataRequestTopic()
		mt.Topic = kmsg.StringPtr(topic)
		if op.D%3 == 0 {
			// several topics in one request, existing ones first and a name nobody was granted anything on last:
			// whether a topic may be auto-created is a per-topic question
			for _, first := range []string{"t0", "t1"} {
				m0 := kmsg.NewMetadataRequestTopic()
				m0.Topic = kmsg.StringPtr(first)
				r.Topics = append(r.Topics, m0)
			}
			r.Topics = append(r.Topics, mt)
			m2 := kmsg.NewMetadataRequestTopic()
			m2.Topic = kmsg.StringPtr(fmt.Sprintf("unlisted-%d", op.D%4))
			r.Topics = append(r.Topics, m2)
		} else {
			r.Topics = append(r.Topics, mt)
		}
		r.AllowAutoTopicCreation = true
		req = r
		items = func(resp kmsg.Response) []aclItem { return nil } // judged by effects only
	case "create-topics":
		r := kmsg.NewPtrCreateTopicsRequest()
		r.Version, r.TimeoutMillis = 2, 1000
		ct := kmsg.NewCreateTopicsRequestTopic()
		ct.Topic, ct.NumPartitions, ct.ReplicationFactor = fmt.Sprintf("n%d", op.D%3), 1, 1
		r.Topics = append(r.Topics, ct)
		req = r
		items = func(resp kmsg.Response) []aclItem {
			p := resp.(*kmsg.CreateTopicsResponse)
			if len(p.Topics) != 1 {
				return nil
			}
			return one("admin", "cluster", "cluster", p.Topics[0].ErrorCode, "")
		}
	case "delete-topics":
		r := kmsg.NewPtrDeleteTopicsRequest()
		r.Version, r.TimeoutMillis = 2, 1000
		r.TopicNames = []string{fmt.Sprintf("n%d", op.D%3)}
		req = r
		items = func(resp kmsg.Response) []aclItem {
			p := resp.(*kmsg.DeleteTopicsResponse)
			if len(p.Topics) != 1 {
				return nil
			}
			return one("admin", "cluster", "cluster", p.Topics[0].ErrorCode, "")
		}
	case "create-partitions":
		r := kmsg.NewPtrCreatePartitionsRequest()
		r.Version, r.TimeoutMillis = 1, 1000
		cp := kmsg.NewCreatePartitionsRequestTopic()
		cp.Topic, cp.Count = topic, int32(2+op.D%3)
		r.Topics = append(r.Topics, cp)
		req = r
		items = func(resp kmsg.Response) []aclItem {
			p := resp.(*kmsg.CreatePartitionsResponse)
			if len(p.Topics) != 1 {
				return nil
			}
			return one("admin", "cluster", "cluster", p.Topics[0].ErrorCode, "")
		}
	case "alter-configs":
		r := kmsg.NewPtrAlterConfigsRequest()
		r.Version = 1
		res := kmsg.NewAlterConfigsRequestResource()
		res.ResourceType, res.ResourceName = kmsg.ConfigResourceTypeTopic, topic
		c := kmsg.NewAlterConfigsRequestResourceConfig()
		c.Name, c.Value = "retention.ms", kmsg.StringPtr(fmt.Sprint(60000+op.D))
		res.Configs = append(res.Configs, c)
		r.Resources = append(r.Resources, res)
		req = r
		items = func(resp kmsg.Response) []aclItem {
			p := resp.(*kmsg.AlterConfigsResponse)
			if len(p.Resources) != 1 {
				return nil
			}
			return one("admin", "cluster", "cluster", p.Resources[0].ErrorCode, "")
		}
	case "describe-configs":
		r := kmsg.NewPtrDescribeConfigsRequest()
		r.Version = 4
		res := kmsg.NewDescribeConfigsRequestResource()
		res.ResourceType, res.ResourceName = kmsg.ConfigResourceTypeTopic, topic
		r.Resources = append(r.Resources, res)
		req = r
		items = func(resp kmsg.Response) []aclItem {
			p := resp.(*kmsg.DescribeConfigsResponse)
			if len(p.Resources) != 1 {
				return nil
			}
			return one("fetch", "topic", topic, p.Resources[0].ErrorCode, "")
		}
	case "join":
		r := kmsg.NewPtrJoinGroupRequest()
		r.Version, r.Group, r.SessionTimeoutMillis, r.RebalanceTimeoutMillis, r.ProtocolType = 4, group, 10000, 1000, "consumer"
		pr := kmsg.NewJoinGroupRequestProtocol()
		pr.Name = "range"
		r.Protocols = append(r.Protocols, pr)
		req = r
		items = func(resp kmsg.Response) []aclItem {
			return one("group_write", "group", group, resp.(*kmsg.JoinGroupResponse).ErrorCode, "")
		}
	case "sync":
		r := kmsg.NewPtrSyncGroupRequest()
		r.Version, r.Group, r.MemberID = 4, group, "m"
		req = r
		items = func(resp kmsg.Response) []aclItem {
			return one("group_write", "group", group, resp.(*kmsg.SyncGroupResponse).ErrorCode, "")
		}
	case "heartbeat":
		r := kmsg.NewPtrHeartbeatRequest()
		r.Version, r.Group, r.MemberID = 4, group, "m"
		req = r
		items = func(resp kmsg.Response) []aclItem {
			return one("group_write", "group", group, resp.(*kmsg.HeartbeatResponse).ErrorCode, "")
		}
	case "leave":
		r := kmsg.NewPtrLeaveGroupRequest()
		r.Version, r.Group = 4, group
		m := kmsg.NewLeaveGroupRequestMember()
		m.MemberID = "m"
		r.Members = append(r.Members, m)
		req = r
		items = func(resp kmsg.Response) []aclItem {
			return one("group_write", "group", group, resp.(*kmsg.LeaveGroupResponse).ErrorCode, "")
		}
	case "commit":
		r := kmsg.NewPtrOffsetCommitRequest()
		r.Version, r.Group, r.Generation, r.MemberID = 3, group, -1, ""
		ct := kmsg.NewOffsetCommitRequestTopic()
		ct.Topic = topic
		cp := kmsg.NewOffsetCommitRequestTopicPartition()
		cp.Offset = 100 + op.D
		ct.Partitions = append(ct.Partitions, cp)
		r.Topics = append(r.Topics, ct)
		req = r
		items = func(resp kmsg.Response) []aclItem {
			p := resp.(*kmsg.OffsetCommitResponse)
			if len(p.Topics) != 1 || len(p.Topics[0].Partitions) != 1 {
				return nil
			}
			return one("group_write", "group", group, p.Topics[0].Partitions[0].ErrorCode, "")
		}
	case "offset-fetch":
		r := kmsg.NewPtrOffsetFetchRequest()
		r.Version, r.Group = 5, group
		ft := kmsg.NewOffsetFetchRequestTopic()
		ft.Topic, ft.Partitions = topic, []int32{0}
		r.Topics = append(r.Topics, ft)
		req = r
		items = func(resp kmsg.Response) []aclItem {
			p := resp.(*kmsg.OffsetFetchResponse)
			code := p.ErrorCode
			leak := ""
			if len(p.Topics) == 1 && len(p.Topics[0].Partitions) == 1 {
				if code == 0 {
					code = p.Topics[0].Partitions[0].ErrorCode
				}
				if p.Topics[0].Partitions[0].Offset > 0 {
					leak = fmt.Sprintf("committed offset %d", p.Topics[0].Partitions[0].Offset)
				}
			}
			return one("group_read", "group", group, code, leak)
		}
	case "describe-groups":
		r := kmsg.NewPtrDescribeGroupsRequest()
		r.Version, r.Groups = 5, []string{group}
		req = r
		items = func(resp kmsg.Response) []aclItem {
			p := resp.(*kmsg.DescribeGroupsResponse)
			if len(p.Groups) != 1 {
				return nil
			}
			leak := ""
			if len(p.Groups[0].Members) > 0 {
				leak = fmt.Sprintf("%d group members", len(p.Groups[0].Members))
			}
			return one("group_read", "group", group, p.Groups[0].ErrorCode, leak)
		}
	case "list-groups":
		r := kmsg.NewPtrListGroupsRequest()
		r.Version = int16(op.D % 5)
		req = r
		items = func(resp kmsg.Response) []aclItem {
			p := resp.(*kmsg.ListGroupsResponse)
			leak := ""
			if len(p.Groups) > 0 {
				leak = fmt.Sprintf("%d group names", len(p.Groups))
			}
			return one("group_read", "group", "*", p.ErrorCode, leak)
		}
	case "delete-groups":
		r := kmsg.NewPtrDeleteGroupsRequest()
		r.Version, r.Groups = 2, []string{group}
		req = r
		items = func(resp kmsg.Response) []aclItem {
			p := resp.(*kmsg.DeleteGroupsResponse)
			if len(p.Groups) != 1 {
				return nil
			}
			return one("group_admin", "group", group, p.Groups[0].ErrorCode, "")
		}
	case "delete-groups-mixed":
		// one request naming both groups: a principal may hold the permission for one of them only
		mixed = true
		r := kmsg.NewPtrDeleteGroupsRequest()
		r.Version, r.Groups = 2, []string{"g0", "g1"}
		if op.D%2 == 1 {
			r.Groups = []string{"g1", "g0"}
		}
		req = r
		items = func(resp kmsg.Response) []aclItem {
			var out []aclItem
			for _, g := range resp.(*kmsg.DeleteGroupsResponse).Groups {
				out = append(out, aclItem{"group_admin", "group", g.Group, g.ErrorCode, ""})
			}
			return out
		}
	case "produce-mixed":
		mixed = true
		r := kmsg.NewPtrProduceRequest()
		r.Version, r.Acks, r.TimeoutMillis = 9, 1, 1000
		for _, tn := range []string{"t0", "t1"} {
			sent, _ := w.buildBatch(900+client, int(op.D), 1, 8)
			rt := kmsg.NewProduceRequestTopic()
			rt.Topic = tn
			rp := kmsg.NewProduceRequestTopicPartition()
			rp.Records = sent
			rt.Partitions = append(rt.Partitions, rp)
			r.Topics = append(r.Topics, rt)
		}
		req = r
		items = func(resp kmsg.Response) []aclItem {
			var out []aclItem
			for _, t := range resp.(*kmsg.ProduceResponse).Topics {
				for _, p := range t.Partitions {
					out = append(out, aclItem{"produce", "topic", t.Topic, p.ErrorCode, ""})
				}
			}
			return out
		}
	case "fetch-mixed":
		mixed = true
		r := kmsg.NewPtrFetchRequest()
		r.Version, r.ReplicaID, r.MaxBytes = 12, -1, 1<<20
		for _, tn := range []string{"t1", "t0"} {
			rt := kmsg.NewFetchRequestTopic()
			rt.Topic = tn
			rp := kmsg.NewFetchRequestTopicPartition()
			rp.PartitionMaxBytes, rp.CurrentLeaderEpoch = 1<<20, -1
			rt.Partitions = append(rt.Partitions, rp)
			r.Topics = append(r.Topics, rt)
		}
		req = r
		items = func(resp kmsg.Response) []aclItem {
			var out []aclItem
			for _, t := range resp.(*kmsg.FetchResponse).Topics {
				for _, p := range t.Partitions {
					leak := ""
					if len(p.RecordBatches) > 0 {
						leak = fmt.Sprintf("%d bytes of record data", len(p.RecordBatches))
					}
					out = append(out, aclItem{"fetch", "topic", t.Topic, p.ErrorCode, leak})
				}
			}
			return out
		}
	default:
		return
	}
	topicExisted := w.topicExists(topic)
	var storeBefore, s3Before, invoke int
	n.callT(req, principal, func(t string) {
		task = t
		storeBefore = len(w.store.Writes())
		s3Before = w.s3.WriteLogLen()
		invoke = w.sim.Step()
	}, func(resp kmsg.Response) {
		w.sim.Probe("c24.request")
		its := items(resp)
		denied := false
		for _, it := range its {
			if w.refACL.allows(principal, it.action, it.resource, it.name) {
				continue
			}
			denied = true
			w.sim.Probe("c24.denied-item")
			if mixed {
				w.sim.Probe("c24.denied-item-in-mixed-request")
				for _, wr := range w.store.Writes()[storeBefore:] {
					if (wr.Task == task || strings.HasPrefix(wr.Task, task+"/")) && !wr.Err && (wr.Key == it.name || strings.HasPrefix(wr.Key, it.name+"/")) {
						w.sim.Fail("C24", "mutation-by-unauthorized-request", "%s by %q lacks %s on %s %q, yet the request performed %s(%s) on the metadata store", op.S, principal, it.action, it.resource, it.name, wr.Method, wr.Key)
						return
					}
				}
				for _, wr := range w.s3.Log[s3Before:] {
					if (wr.Task == task || strings.HasPrefix(wr.Task, task+"/")) && strings.Contains(wr.Key, "/"+it.name+"/") {
						w.sim.Fail("C24", "s3-write-by-unauthorized-request", "%s by %q lacks %s on %s %q, yet the request wrote %s", op.S, principal, it.action, it.resource, it.name, wr.Key)
						return
					}
				}
			}
			if !authCode(it.code) {
				w.sim.Fail("C24", "no-authorization-error", "%s by %q lacks %s on %s %q but the reply carries code %d", op.S, principal, it.action, it.resource, it.name, it.code)
				return
			}
			if it.leaked != "" {
				w.sim.Fail("C24", "data-returned-to-unauthorized", "%s by %q lacks %s on %s %q but the reply carries %s", op.S, principal, it.action, it.resource, it.name, it.leaked)
				return
			}
		}
		noPerm := op.S == "metadata" && !w.refACL.allows(principal, "produce", "topic", topic) && !w.refACL.allows(principal, "fetch", "topic", topic) && !w.refACL.allows(principal, "admin", "cluster", "cluster")
		if op.S == "metadata" && op.D%3 == 0 {
			noPerm = false // the request names several topics: judged per created topic below
		}
		if (denied && !mixed) || noPerm {
			for _, wr := range w.store.Writes()[storeBefore:] {
				if wr.Task == task || strings.HasPrefix(wr.Task, task+"/") {
					if wr.Err {
						continue
					}
					clause := "mutation-by-unauthorized-request"
					if wr.Method == "CreateTopic" {
						clause = "topic-created-by-unauthorized-request"
					}
					w.sim.Fail("C24", clause, "%s by %q (no permission for it) performed %s(%s) on the metadata store", op.S, principal, wr.Method, wr.Key)
					return
				}
			}
			for _, wr := range w.s3.Log[s3Before:] {
				if wr.Task == task || strings.HasPrefix(wr.Task, task+"/") {
					w.sim.Fail("C24", "s3-write-by-unauthorized-request", "%s by %q (no permission for it) wrote %s", op.S, principal, wr.Key)
					return
				}
			}
			if noPerm && !topicExisted && w.topicExists(topic) && w.stepCreatedBy(task, storeBefore) {
				w.sim.Fail("C24", "topic-created-by-unauthorized-request", "metadata request by %q created topic %q", principal, topic)
			}
		}
		if op.S == "metadata" {
			// whatever else the request named: a topic this request created is one the principal holds something on
			for _, wr := range w.store.Writes()[storeBefore:] {
				if wr.Method == "CreateTopic" && !wr.Err && (wr.Task == task || strings.HasPrefix(wr.Task, task+"/")) {
					w.sim.Probe("c24.metadata-auto-created")
					if !w.refACL.allows(principal, "produce", "topic", wr.Key) && !w.refACL.allows(principal, "fetch", "topic", wr.Key) && !w.refACL.allows(principal, "admin", "cluster", "cluster") {
						w.sim.Fail("C24", "topic-created-by-unauthorized-request", "metadata request by %q created topic %q, on which it holds no permission (the request also named topics it may use)", principal, wr.Key)
						return
					}
				}
			}
		}
		_ = invoke
	})
}

func (w *w1) topicExists(name string) bool {
	meta, err := w.inner.Metadata(w.nodes[0].ctx, []string{name})
	return err == nil && len(meta.Topics) > 0
}

func (w *w1) stepCreatedBy(task string, from int) bool {
	for _, wr := range w.store.Writes()[from:] {
		if wr.Method == "CreateTopic" && !wr.Err && (wr.Task == task || strings.HasPrefix(wr.Task, task+"/")) {
			return true
		}
	}
	return false
}

var aclKinds = []string{"produce", "fetch", "fetch-id", "listoffsets", "metadata", "create-topics", "delete-topics", "create-partitions", "alter-configs", "describe-configs",
	"join", "sync", "heartbeat", "leave", "commit", "offset-fetch", "describe-groups", "list-groups", "delete-groups",
	"delete-groups-mixed", "produce-mixed", "fetch-mixed"}

func w1GenACL(r *rand.Rand, c *simrt.Case, nclients, maxOps int) {
	cfg := c.Config
	cfg["acl"] = 1
	cfg["acl_default_allow"] = int64(r.IntN(2))
	cfg["topics"] = 2
	cfg["partitions"] = 1
	cfg["auto_create"] = int64(r.IntN(2))
	// some authorised traffic first so there is data, offsets and a group to leak
	c.Program = append(c.Program,
		simrt.Op{Actor: 0, Kind: "acl", A: 5, B: 0, S: "produce", D: 1},
		simrt.Op{Actor: 0, Kind: "acl", A: 5, B: 1, S: "produce", D: 2},
		simrt.Op{Actor: 0, Kind: "acl", A: 5, B: 0, C: 0, S: "commit", D: 3},
		simrt.Op{Actor: 0, Kind: "acl", A: 5, B: 1, C: 1, S: "commit", D: 4},
		simrt.Op{Actor: 0, Kind: "acl", A: 5, C: 0, S: "join"},
	)
	for cl := 1; cl <= nclients; cl++ {
		n := 3 + r.IntN(maxOps+4)
		for i := 0; i < n; i++ {
			c.Program = append(c.Program, simrt.Op{Actor: cl, Kind: "acl", A: int64(r.IntN(len(aclPrincipals))), B: int64(r.IntN(3)), C: int64(r.IntN(2)), D: int64(r.IntN(10)), S: aclKinds[r.IntN(len(aclKinds))]})
		}
	}
}
