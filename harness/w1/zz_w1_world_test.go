package main

// W1: one or more real broker handlers over a simulated S3 and a decorated
// metadata store, driven by simulated Kafka clients. See DESIGN.md section 4.

import (
	"context"
	"encoding/binary"
	"fmt"
	"io"
	"log/slog"
	"sort"
	"strings"
	"testing"
	"time"
	"unsafe"

	"github.com/KafScale/platform/pkg/acl"
	"github.com/KafScale/platform/pkg/broker"
	"github.com/KafScale/platform/pkg/cache"
	"github.com/KafScale/platform/pkg/metadata"
	"github.com/KafScale/platform/pkg/protocol"
	"github.com/KafScale/platform/pkg/storage"
	"github.com/twmb/franz-go/pkg/kmsg"
	"golang.org/x/sync/semaphore"

	"verif/sim/driver"
	"verif/sim/kafsim"
	"verif/sim/kbatch"
	"verif/sim/kclient"
	"verif/sim/simetcd"
	"verif/sim/simrt"
	"verif/sim/sims3"
)

func TestSim(t *testing.T) { driver.Main(t, w1World) }

var w1World = driver.World{
	Name: "w1-broker",
	Gen:  w1Gen,
	Run:  w1Run,
	Real: []string{"cmd/broker handler (produce/fetch/list-offsets/metadata/admin/group paths)", "pkg/storage PartitionLog, WriteBuffer, segment+index builders, RestoreFromS3",
		"pkg/cache SegmentCache", "pkg/broker S3HealthMonitor, GroupCoordinator", "pkg/protocol request parsing and response encoding", "pkg/metadata InMemoryStore", "pkg/acl",
		"kmsg codecs, errgroup, singleflight, semaphore (un-woven)"},
	Stub: []string{"S3 (sims3 behind storage.S3Client)", "metadata.Store decorator (latency, faults, write attribution)", "TCP (requests handed to a per-request broker task)", "goroutine scheduler, clock, map order (simulator)"},
}

// produceRec is one produce attempt for one partition (ledger entry).
type produceRec struct {
	client, seq              int
	topic                    string
	part                     int32
	acks                     int16
	sent                     []byte
	markers                  []string
	nrec                     int
	malformed                bool
	how                      string // which header field was falsified
	invoke, ret              int
	answered                 bool
	code                     int16
	base                     int64
	inc                      string
	durable                  bool   // was found in S3 when acknowledged
	task                     string // broker-side request task (write attribution)
	appendSeen, heldAtAppend bool   // C19: lease state at the step AppendBatch ran
	heldAtAck                bool   // lease state at the step the reply was produced
	leaseNote                string
	multi                    bool // one of several partitions of one request
	order                    int  // position in that request
}

type fetchRec struct {
	client      int
	topic       string
	part        int32
	offset      int64
	maxBytes    int32
	invoke, ret int
	answered    bool
	code        int16
	hw          int64
	data        []byte
	inc         string
}

type bnode struct {
	w         *w1
	name      string
	id        int32
	incNo     int
	inc       string
	h         *handler
	cancel    context.CancelFunc
	ctx       context.Context
	reqSeq    int
	etcdStore *metadata.EtcdStore
	pub       int64 // address used for the start -> request happens-before edge (race mode)
}

type w1 struct {
	sim    *simrt.Sim
	c      *simrt.Case
	prop   string
	// C11: the sweep request that is waiting for its reply right now ("" = none)
	sweepInFlight string
	etcdIdx       int // C05 over etcd: how far the applied log has been read
	s3     *sims3.Store
	s3r    *sims3.Store // read replica (C44)
	inner  *metadata.InMemoryStore
	store  *kafsim.Store
	nodes  []*bnode
	topics []string
	nparts int32
	ledger []*produceRec
	fetchs []*fetchRec
	corr   int32
	// segMax: per partition prefix, the largest footer lastOffset of any segment object ever stored
	segMax      map[string]int64
	storeIdx    int
	hwLast      map[string]int64
	authz       *acl.Authorizer
	clientsLeft int
	allDone     *simrt.Future
	segCache    map[string][]*kbatch.Batch
	health      healthWatch
	primHist    map[string][]objVersion
	replSeq     int
	accepted    map[string]bool
	refACL      *refACL
	etcd        *simetcd.Server
	ownerHist   map[string][]ownerAt // C19: live lease owner per partition, step by step
	crashed     bool                 // some broker was crashed in this run
}

func discardLogger() *slog.Logger { return slog.New(slog.NewTextHandler(io.Discard, nil)) }

func (w *w1) cfg(name string, def int64) int64 { return w.c.Cfg(name, def) }

func (w *w1) partPrefix(topic string, p int32) string {
	return fmt.Sprintf("default/%s/%d/", topic, p)
}

// start builds a fresh handler (a new broker incarnation) over the durable state.
func (n *bnode) start() {
	w := n.w
	n.incNo++
	n.inc = fmt.Sprintf("%s#%d", n.name, n.incNo)
	info := protocol.MetadataBroker{NodeID: n.id, Host: "broker-" + n.name, Port: 9092}
	w.sim.SetupNode = n.inc
	var s3c storage.S3Client = kafsim.S3{St: w.s3}
	if w.s3r != nil {
		s3c = &checkedS3{S3Client: newDualS3Client(kafsim.S3{St: w.s3}, kafsim.S3{St: w.s3r}), w: w}
	}
	var store metadata.Store = w.store
	if w.etcdMode() {
		es := w.etcdStoreFor(n)
		if es == nil {
			return
		}
		n.etcdStore = es
		store = es
	}
	h := newHandler(store, s3c, info, discardLogger())
	if w.etcdMode() && (h.leaseManager == nil || h.groupLeaseManager == nil) {
		// newHandler wires both lease managers itself (default TTL, 10 s) when given an EtcdStore
		w.sim.Fail("HARNESS", "setup", "newHandler did not create lease managers for an EtcdStore")
		return
	}
	h.logConfig.Buffer = storage.WriteBufferConfig{
		MaxBytes:      int(w.cfg("buf_max_bytes", 4<<20)),
		MaxMessages:   int(w.cfg("buf_max_msgs", 0)),
		MaxBatches:    int(w.cfg("buf_max_batches", 0)),
		FlushInterval: time.Duration(w.cfg("flush_interval_ms", 500)) * time.Millisecond,
	}
	h.logConfig.Segment.IndexIntervalMessages = int32(w.cfg("index_interval", 100))
	h.logConfig.ReadAheadSegments = int(w.cfg("readahead", 2))
	h.logConfig.CacheEnabled = w.cfg("cache_on", 1) == 1
	h.readAhead = h.logConfig.ReadAheadSegments
	h.cache = cache.NewSegmentCache(int(w.cfg("cache_bytes", 32<<20)))
	h.flushOnAck = w.cfg("flush_on_ack", 1) == 1
	h.autoCreateTopics = w.cfg("auto_create", 1) == 1
	h.autoCreatePartitions = int32(w.cfg("auto_partitions", 1))
	switch conc := w.cfg("s3conc", 64); {
	case conc <= 0:
		h.s3sem = nil
	default:
		h.s3sem = semaphore.NewWeighted(conc)
	}
	hc := broker.S3HealthConfig{Window: time.Duration(w.cfg("health_window_s", 60)) * time.Second}
	if w.cfg("health_lenient", 1) == 1 {
		hc.ErrorWarn, hc.ErrorCrit = 2, 3
		hc.LatencyWarn, hc.LatencyCrit = time.Hour, 2*time.Hour
	} else {
		hc.ErrorWarn = float64(w.cfg("health_err_warn_pct", 20)) / 100
		hc.ErrorCrit = float64(w.cfg("health_err_crit_pct", 60)) / 100
		hc.LatencyWarn = time.Duration(w.cfg("health_lat_warn_ms", 500)) * time.Millisecond
		hc.LatencyCrit = time.Duration(w.cfg("health_lat_crit_ms", 3000)) * time.Millisecond
	}
	h.s3Health = broker.NewS3HealthMonitor(hc)
	h.authorizer = w.authz
	if h.authorizer == nil {
		h.authorizer = acl.NewAuthorizer(acl.Config{Enabled: false})
	}
	n.ctx, n.cancel = context.WithCancel(context.Background())
	n.h = h
	simrt.RacePublish(unsafe.Pointer(&n.pub))
}

func (n *bnode) stop() {
	if n.h != nil {
		n.h.coordinator.Stop()
	}
	if n.etcdStore != nil {
		_ = n.etcdStore.Close()
	}
	if n.cancel != nil {
		n.cancel()
	}
}

// call performs one request against the node's current incarnation on a
// broker-side task; ok=false means the connection died (crash) or was refused.
func (n *bnode) call(req kmsg.Request, clientID string, after func(resp kmsg.Response)) (kmsg.Response, bool) {
	return n.callT(req, clientID, nil, after)
}

// callT is call with a hook that learns the broker-side task name before the
// request starts (write attribution).
func (n *bnode) callT(req kmsg.Request, clientID string, pre func(task string), after func(resp kmsg.Response)) (kmsg.Response, bool) {
	w := n.w
	h, inc, ctx := n.h, n.inc, n.ctx
	if h == nil {
		simrt.Sleep(2 * time.Millisecond)
		return nil, false
	}
	w.corr++
	corr := w.corr
	payload := kclient.EncodeRequest(req, corr, &clientID)
	fut := w.sim.NewFuture(inc)
	n.reqSeq++
	taskName := fmt.Sprintf("%s/req%04d", inc, n.reqSeq)
	if pre != nil {
		pre(taskName)
	}
	w.sim.Spawn(taskName, inc, false, func() {
		simrt.RaceObserve(unsafe.Pointer(&n.pub))
		header, parsed, err := protocol.ParseRequest(payload)
		if err != nil {
			fut.Set(fmt.Errorf("parse: %w", err))
			return
		}
		out, err := h.Handle(ctx, header, parsed)
		if simrt.Dying() {
			return // the broker died under this request: no reply ever leaves it
		}
		if err != nil {
			fut.Set(fmt.Errorf("handle: %w", err))
			return
		}
		if out == nil {
			fut.Set(nil)
			return
		}
		resp, gotCorr, derr := kclient.DecodeResponse(req, out)
		if derr != nil {
			w.sim.Fail("C11", "undecodable-response", "%s v%d: %v", kmsg.NameForKey(req.Key()), req.GetVersion(), derr)
			fut.Set(derr)
			return
		}
		if gotCorr != corr {
			w.sim.Fail("C11", "wrong-correlation-id", "%s v%d: sent %d got %d", kmsg.NameForKey(req.Key()), req.GetVersion(), corr, gotCorr)
		}
		if after != nil {
			after(resp) // oracle hook evaluated at the moment the broker emits the reply
		}
		fut.Set(resp)
	})
	v, ok := fut.Wait(nil, "rpc")
	if !ok {
		return nil, false
	}
	switch x := v.(type) {
	case kmsg.Response:
		return x, true
	case nil:
		return nil, true
	default:
		return nil, false
	}
}

// ---------------------------------------------------------------- records

func (w *w1) buildBatch(client, seq int, nrec int, valLen int) ([]byte, []string) {
	recs := make([]kbatch.Record, nrec)
	markers := make([]string, nrec)
	for i := range recs {
		m := fmt.Sprintf("m%d.%d.%d;", client, seq, i)
		markers[i] = m
		val := []byte(m)
		for len(val) < valLen {
			val = append(val, byte('a'+(len(val)+i)%26))
		}
		recs[i] = kbatch.Record{TsDelta: int64(i), Value: val}
		switch (client + seq + i) % 3 {
		case 1:
			recs[i].Key = []byte{}
		case 2:
			recs[i].Key = []byte(fmt.Sprintf("k%d", i))
			recs[i].Headers = []kbatch.Header{{Key: "h", Value: []byte{byte(i)}}, {Key: "", Value: nil}}
		}
	}
	return kbatch.Build(1700000000000+int64(seq), recs), markers
}

func firstMarker(b *kbatch.Batch) string {
	if len(b.Records) == 0 {
		return ""
	}
	v := string(b.Records[0].Value)
	if i := strings.IndexByte(v, ';'); i >= 0 {
		return v[:i+1]
	}
	return ""
}

// segBatches parses a stored segment object into batches (cached by key+size+crc).
func (w *w1) segBatches(key string, data []byte) []*kbatch.Batch {
	if len(data) < 48 {
		return nil
	}
	ck := fmt.Sprintf("%s|%d|%x", key, len(data), data[len(data)-16:len(data)-12])
	if b, ok := w.segCache[ck]; ok {
		return b
	}
	bs, _ := kbatch.ParseAll(data[32 : len(data)-16])
	w.segCache[ck] = bs
	return bs
}

// inS3 reports whether the acknowledged batch (base offset, sent bytes) is in
// a stored segment object of its partition whose index object also exists.
func (w *w1) inS3(store *sims3.Store, topic string, part int32, base int64, sent []byte) (found bool, why string) {
	prefix := w.partPrefix(topic, part)
	why = "no segment object holds base offset"
	for _, k := range store.Keys(prefix) {
		if !strings.HasSuffix(k, ".kfs") {
			continue
		}
		data, _ := store.Peek(k)
		for _, b := range w.segBatches(k, data) {
			if b.BaseOffset != base {
				continue
			}
			if len(b.Raw) != len(sent) || string(b.Raw[8:]) != string(sent[8:]) {
				why = fmt.Sprintf("segment %s holds different bytes at offset %d", k, base)
				continue
			}
			if _, ok := store.Peek(strings.TrimSuffix(k, ".kfs") + ".index"); !ok {
				why = fmt.Sprintf("segment %s has the batch but its index object is missing", k)
				continue
			}
			return true, ""
		}
	}
	return false, why
}

func footerLast(data []byte) (int64, bool) {
	if len(data) < 16 || string(data[len(data)-4:]) != "END!" {
		return 0, false
	}
	return int64(binary.BigEndian.Uint64(data[len(data)-12 : len(data)-4])), true
}

// ---------------------------------------------------------------- run

func w1Run(t *testing.T, c *simrt.Case, prop string, keepTrace bool) simrt.Result {
	w := &w1{c: c, prop: prop, segMax: map[string]int64{}, hwLast: map[string]int64{}, segCache: map[string][]*kbatch.Batch{}, primHist: map[string][]objVersion{}, accepted: map[string]bool{}}
	res := simrt.Run(t, c, keepTrace, func(s *simrt.Sim) {
		w.sim = s
		w.setup()
	}, func(s *simrt.Sim) {
		w.finish()
	})
	simetcd.Install(nil)
	if res.Violation != nil && res.Violation.Property != prop {
		// one clause, one property: a check reports only its own clauses
		res.Stats.Probes["foreign:"+res.Violation.Property+"/"+res.Violation.Clause]++
		res.Violation = nil
	}
	return res
}

func (w *w1) setup() {
	s := w.sim
	w.s3 = sims3.New("s3", w.cfg("s3_lat_us", 2000))
	w.s3.OnWrite = func(wr sims3.Write, body []byte) {
		if strings.HasSuffix(wr.Key, ".kfs") {
			if last, ok := footerLast(body); ok {
				pfx := wr.Key[:strings.LastIndexByte(wr.Key, '/')+1]
				if cur, had := w.segMax[pfx]; !had || last > cur {
					w.segMax[pfx] = last
				}
			}
		}
		w.replicate(wr, body)
	}
	if w.cfg("replica", 0) == 1 {
		w.s3r = sims3.New("s3r", w.cfg("s3_lat_us", 2000))
	}
	ntopics := int(w.cfg("topics", 1))
	w.nparts = int32(w.cfg("partitions", 1))
	info := protocol.MetadataBroker{NodeID: 0, Host: "broker-b0", Port: 9092}
	meta := metadata.ClusterMetadata{ControllerID: 0, ClusterID: kmsg.StringPtr("sim"), Brokers: []protocol.MetadataBroker{info}}
	for i := 0; i < ntopics; i++ {
		name := w1TopicName(i, w.cfg("topic_alias", 0) == 1)
		w.topics = append(w.topics, name)
		if w.cfg("precreate", 1) == 1 {
			mt := protocol.MetadataTopic{Topic: kmsg.StringPtr(name), TopicID: metadata.TopicIDForName(name)}
			for p := int32(0); p < w.nparts; p++ {
				mt.Partitions = append(mt.Partitions, protocol.MetadataPartition{Partition: p, Leader: 0, Replicas: []int32{0}, ISR: []int32{0}})
			}
			meta.Topics = append(meta.Topics, mt)
		}
	}
	w.inner = metadata.NewInMemoryStore(meta)
	w.store = kafsim.NewStore(w.inner, w.cfg("store_lat_us", 500))
	w.authz = w1Authorizer(w)
	if w.etcdMode() {
		w.setupEtcd()
	}
	nb := int(w.cfg("brokers", 1))
	for i := 0; i < nb; i++ {
		n := &bnode{w: w, name: fmt.Sprintf("b%d", i), id: int32(i)}
		n.start()
		w.nodes = append(w.nodes, n)
		node := n
		s.OnCrash(n.name, func() {
			if node.h == nil {
				return // already down, restart pending
			}
			w.crashed = true
			s.KillNode(node.inc)
			if node.cancel != nil {
				node.cancel()
			}
			node.h = nil
			delay := time.Duration(w.cfg("restart_delay_ms", 50)) * time.Millisecond
			next := fmt.Sprintf("%s#%d", node.name, node.incNo+1)
			s.Spawn(next+"/boot", next, false, func() {
				simrt.Sleep(delay)
				node.start()
			})
		})
	}
	s.OnStop(func() {
		for _, n := range w.nodes {
			n.stop()
		}
	})
	s.OnStep(w.stepInvariant)
	// clients
	actors := map[int][]simrt.Op{}
	var ids []int
	for _, op := range w.c.Program {
		if _, ok := actors[op.Actor]; !ok {
			ids = append(ids, op.Actor)
		}
		actors[op.Actor] = append(actors[op.Actor], op)
	}
	sort.Ints(ids)
	w.allDone = s.NewFuture("")
	w.clientsLeft = 0
	for _, id := range ids {
		if id < 100 {
			w.clientsLeft++
		}
	}
	if w.clientsLeft == 0 {
		w.allDone.Set(true)
	}
	for _, id := range ids {
		id, ops := id, actors[id]
		s.Spawn(fmt.Sprintf("client%03d", id), "", true, func() {
			if id >= 100 {
				// verifier actors run after every ordinary client has finished
				w.allDone.Wait(nil, "barrier")
			}
			for seq, op := range ops {
				w.clientOp(id, seq, op)
				if s.Failed() {
					break
				}
			}
			s.Note("client %d done (left %d)", id, w.clientsLeft)
			if id < 100 {
				w.clientsLeft--
				if w.clientsLeft == 0 {
					w.allDone.Set(true)
				}
			}
		})
	}
}

func w1TopicName(i int, alias bool) string {
	if !alias {
		return fmt.Sprintf("t%d", i)
	}
	return w1AliasNames[i%len(w1AliasNames)]
}

func (w *w1) node(i int64) *bnode { return w.nodes[int(i)%len(w.nodes)] }

func (w *w1) clientOp(client, seq int, op simrt.Op) {
	switch op.Kind {
	case "produce":
		w.opProduce(client, seq, op)
	case "mproduce":
		w.opMultiProduce(client, seq, op)
	case "fetch":
		w.opFetch(client, seq, op)
	case "sleep":
		simrt.Sleep(time.Duration(op.A) * time.Millisecond)
	case "flush":
		w.opForceFlush(op)
	case "listoffsets":
		w.opListOffsets(client, op)
	case "crash":
		w.sim.CrashNode(w.node(op.A).name)
		simrt.Sleep(time.Duration(w.cfg("restart_delay_ms", 50)+20) * time.Millisecond)
	case "verify":
		w.opVerify(client)
	case "health-meta":
		w.opHealthMeta(op)
	case "create-topic":
		w.opCreateTopic(client, op)
	case "acl":
		w.opACL(client, op)
	case "version-sweep":
		w.opVersionSweep(client, op)
	case "expire-lease":
		w.opExpireLease(op)
	default:
		w1ExtraOp(w, client, seq, op)
	}
}

func (w *w1) topic(i int64) string { return w.topics[int(i)%len(w.topics)] }

func (w *w1) opProduce(client, seq int, op simrt.Op) {
	topic, part := w.topic(op.A), int32(op.B)%w.nparts
	nrec := int(op.C)
	if nrec < 1 {
		nrec = 1
	}
	acks := int16(op.D)
	valLen := 8 + int(w.cfg("val_len", 24))
	sent, markers := w.buildBatch(client, seq, nrec, valLen)
	rec := &produceRec{client: client, seq: seq, topic: topic, part: part, acks: acks, sent: sent, markers: markers, nrec: nrec}
	if op.S != "" {
		sent = w1Malform(sent, op.S, nrec)
		rec.sent = sent
		rec.malformed = true
		rec.how = op.S
	}
	n := w.node(int64(client))
	if w.etcdMode() {
		n = w.node(int64(client + seq)) // any broker, owner or not
	}
	rec.invoke = w.sim.Step()
	rec.inc = n.inc
	w.ledger = append(w.ledger, rec)
	req := kmsg.NewPtrProduceRequest()
	req.Version = int16(w.cfg("produce_version", 9))
	req.Acks = acks
	req.TimeoutMillis = 5000
	rt := kmsg.NewProduceRequestTopic()
	rt.Topic = topic
	rp := kmsg.NewProduceRequestTopicPartition()
	rp.Partition = part
	rp.Records = sent
	rt.Partitions = append(rt.Partitions, rp)
	req.Topics = append(req.Topics, rt)
	resp, ok := n.callT(req, fmt.Sprintf("c%d", client), func(task string) { rec.task = task }, func(r kmsg.Response) {
		pr := r.(*kmsg.ProduceResponse)
		if len(pr.Topics) == 1 && len(pr.Topics[0].Partitions) == 1 {
			p := pr.Topics[0].Partitions[0]
			rec.code, rec.base, rec.answered = p.ErrorCode, p.BaseOffset, true
			rec.ret = w.sim.Step()
			w.onProduceAck(rec)
		}
	})
	if !ok || resp == nil {
		if rec.ret == 0 {
			rec.ret = w.sim.Step()
		}
		return
	}
}

// opMultiProduce sends ONE produce request carrying a batch for every partition of a topic (in the
// order op.B selects); each partition gets its own ledger entry, marked multi.
func (w *w1) opMultiProduce(client, seq int, op simrt.Op) {
	topic := w.topic(op.A)
	nrec := int(op.C)
	if nrec < 1 {
		nrec = 1
	}
	acks := int16(op.D)
	valLen := 8 + int(w.cfg("val_len", 24))
	n := w.node(int64(client))
	if w.etcdMode() {
		n = w.node(int64(client + seq))
	}
	req := kmsg.NewPtrProduceRequest()
	req.Version = int16(w.cfg("produce_version", 9))
	req.Acks = acks
	req.TimeoutMillis = 5000
	var recs []*produceRec
	topicsOfReq := []string{topic}
	if op.B&2 != 0 {
		// every partition of EVERY topic in one request: the same partition numbers under different topics
		topicsOfReq = nil
		seenT := map[string]bool{}
		for _, t := range w.topics {
			if !seenT[t] {
				seenT[t] = true
				topicsOfReq = append(topicsOfReq, t)
			}
		}
		w.sim.Probe("w1.multi-topic-produce")
	}
	for ti, topic := range topicsOfReq {
		rt := kmsg.NewProduceRequestTopic()
		rt.Topic = topic
		for i := int32(0); i < w.nparts; i++ {
			part := i
			if op.B%2 == 1 {
				part = w.nparts - 1 - i
			}
			sent, markers := w.buildBatch(client, seq+1000000*int(part+1)+100000000*ti, nrec, valLen)
			rec := &produceRec{client: client, seq: seq, topic: topic, part: part, acks: acks, sent: sent, markers: markers, nrec: nrec, multi: true, order: ti*int(w.nparts) + int(i)}
			rec.invoke = w.sim.Step()
			rec.inc = n.inc
			w.ledger = append(w.ledger, rec)
			recs = append(recs, rec)
			rp := kmsg.NewProduceRequestTopicPartition()
			rp.Partition = part
			rp.Records = sent
			rt.Partitions = append(rt.Partitions, rp)
		}
		req.Topics = append(req.Topics, rt)
	}
	w.sim.Probe("w1.multi-partition-produce")
	_, _ = n.callT(req, fmt.Sprintf("c%d", client), func(task string) {
		for _, rec := range recs {
			rec.task = task
		}
	}, func(r kmsg.Response) {
		pr := r.(*kmsg.ProduceResponse)
		for _, t := range pr.Topics {
			for _, p := range t.Partitions {
				for _, rec := range recs {
					if t.Topic == rec.topic && p.Partition == rec.part && !rec.answered {
						rec.code, rec.base, rec.answered = p.ErrorCode, p.BaseOffset, true
						rec.ret = w.sim.Step()
						w.onProduceAck(rec)
					}
				}
			}
		}
	})
	for _, rec := range recs {
		if rec.ret == 0 {
			rec.ret = w.sim.Step()
		}
	}
}

func (w *w1) opForceFlush(op simrt.Op) {
	n := w.node(op.C)
	h, inc := n.h, n.inc
	if h == nil {
		return
	}
	topic, part := w.topic(op.A), int32(op.B)%w.nparts
	fut := w.sim.NewFuture(inc)
	n.reqSeq++
	w.sim.Spawn(fmt.Sprintf("%s/flush%04d", inc, n.reqSeq), inc, false, func() {
		simrt.RaceObserve(unsafe.Pointer(&n.pub))
		plog, err := h.getPartitionLog(n.ctx, topic, part)
		if err == nil {
			_ = plog.Flush(n.ctx)
		}
		fut.Set(true)
	})
	fut.Wait(nil, "flushrpc")
}

func w1Gen2Check(t *testing.T) {}
