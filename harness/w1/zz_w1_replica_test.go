package main

import (
	"context"
	"errors"
	"fmt"
	"hash/fnv"
	"math/rand/v2"
	"strings"
	"time"

	"github.com/KafScale/platform/pkg/storage"

	"verif/sim/simrt"
	"verif/sim/sims3"
)

// ---------------------------------------------------------------- C44
//
// C44: "With a read replica configured, segment and index reads return the
// same bytes as the primary bucket would, whether the replica copy is missing,
// lagging or failing. Writes and listings always go to the primary."

type objVersion struct {
	step int
	body []byte
}

// replicate models asynchronous bucket replication: immediately, after a lag
// (deliveries of two versions of one key may reorder), or never.
func (w *w1) replicate(wr sims3.Write, body []byte) {
	if w.s3r == nil {
		return
	}
	w.primHist[wr.Key] = append(w.primHist[wr.Key], objVersion{step: wr.Step, body: body})
	h := fnv.New64a()
	fmt.Fprintf(h, "%d|%s|%d", w.c.Seed, wr.Key, len(w.primHist[wr.Key]))
	x := h.Sum64()
	switch mode := x % 10; {
	case mode < 3:
		w.s3r.Poke(wr.Key, body)
		w.sim.Probe("c44.replica-current")
	case mode < 8:
		lag := time.Duration(1+(x>>8)%uint64(w.cfg("replica_lag_ms", 200))) * time.Millisecond
		w.replSeq++
		w.sim.Spawn(fmt.Sprintf("repl%05d", w.replSeq), "", false, func() {
			simrt.Sleep(lag)
			w.s3r.Poke(wr.Key, body)
		})
		w.sim.Probe("c44.replica-lagging")
	default:
		w.sim.Probe("c44.replica-missing")
	}
}

// checkedS3 wraps the broker's (dual) client and compares every download with
// what the primary holds.
type checkedS3 struct {
	storage.S3Client
	w *w1
}

func (c *checkedS3) judge(kind, key string, rng *storage.ByteRange, from int, data []byte, err error) {
	w := c.w
	if simrt.Dying() {
		return
	}
	if err != nil {
		// an error is never wrong data - but "the same bytes as the primary would return" also means that a
		// replica that is missing the object or failing must not turn into a failed read while the primary
		// holds the object. A failure injected into the primary's own read is the primary's answer.
		var inj *sims3.InjectedError
		if errors.As(err, &inj) && strings.HasPrefix(inj.Kind, "s3.") {
			w.sim.Probe("c44.primary-read-failed")
			return
		}
		if _, ok := w.s3.Peek(key); ok && !errors.Is(err, context.Canceled) && !errors.Is(err, context.DeadlineExceeded) {
			w.sim.Probe("c44.read-error-judged")
			w.sim.Fail("C44", "replica-failure-surfaced", "%s of %s failed with %v although the primary bucket holds the object and served no error", kind, key, err)
		}
		return
	}
	w.sim.Probe("c44.download-judged")
	want := func(body []byte) []byte {
		if rng == nil {
			return body
		}
		s, e := rng.Start, rng.End
		if s < 0 {
			s = 0
		}
		if s >= int64(len(body)) {
			return nil
		}
		if e >= int64(len(body)) {
			e = int64(len(body)) - 1
		}
		return body[s : e+1]
	}
	hist := w.primHist[key]
	// acceptable: any version the primary held at some step during the read
	for i, v := range hist {
		endStep := int(^uint(0) >> 1)
		if i+1 < len(hist) {
			endStep = hist[i+1].step
		}
		if endStep < from {
			continue // superseded before the read began
		}
		if string(want(v.body)) == string(data) {
			return
		}
	}
	stale := false
	for _, v := range hist {
		if string(want(v.body)) == string(data) {
			stale = true
		}
	}
	if stale {
		w.sim.FailSoft("C44", "stale-replica-bytes", "%s of %s returned an older version than the primary held during the read (replica lagging behind an overwrite)", kind, key)
		return
	}
	w.sim.Fail("C44", "download-differs-from-primary", "%s of %s (range %v) returned %d bytes that match no version the primary ever held", kind, key, rng, len(data))
}

func (c *checkedS3) DownloadSegment(ctx context.Context, key string, rng *storage.ByteRange) ([]byte, error) {
	from := c.w.sim.Step()
	b, err := c.S3Client.DownloadSegment(ctx, key, rng)
	jerr := err
	if err != nil && ctx.Err() == nil && (errors.Is(err, context.Canceled) || errors.Is(err, context.DeadlineExceeded)) {
		// "cancelled" / "deadline exceeded" although the caller's own context is alive: a deadline of the
		// client's making, not the request's (the broker still gets the error as it is)
		jerr = fmt.Errorf("%s (the caller's context is still alive)", err.Error())
	}
	c.judge("DownloadSegment", key, rng, from, b, jerr)
	return b, err
}

func (c *checkedS3) DownloadIndex(ctx context.Context, key string) ([]byte, error) {
	from := c.w.sim.Step()
	b, err := c.S3Client.DownloadIndex(ctx, key)
	jerr := err
	if err != nil && ctx.Err() == nil && (errors.Is(err, context.Canceled) || errors.Is(err, context.DeadlineExceeded)) {
		jerr = fmt.Errorf("%s (the caller's context is still alive)", err.Error())
	}
	c.judge("DownloadIndex", key, nil, from, b, jerr)
	return b, err
}

// judgeReplicaOps: the replica bucket sees reads only.
func (w *w1) judgeReplicaOps() {
	if w.s3r == nil {
		return
	}
	for _, op := range w.s3r.Ops {
		if strings.HasPrefix(op, "put") || strings.HasPrefix(op, "del") || strings.HasPrefix(op, "list") || strings.HasPrefix(op, "ensure") {
			w.sim.Fail("C44", "write-or-list-on-replica", "the replica bucket received %q", op)
			return
		}
	}
}

func w1GenReplica(r *rand.Rand, c *simrt.Case, nclients, maxOps int) {
	cfg := c.Config
	cfg["replica"] = 1
	cfg["replica_lag_ms"] = pick[int64](r, 5, 200, 5000)
	cfg["cache_on"] = pick[int64](r, 0, 0, 1)
	cfg["restart_delay_ms"] = 20
	for cl := 0; cl < nclients; cl++ {
		n := 3 + r.IntN(maxOps+2)
		for i := 0; i < n; i++ {
			switch x := r.IntN(10); {
			case x < 5:
				c.Program = append(c.Program, simrt.Op{Actor: cl, Kind: "produce", B: int64(r.IntN(2)), C: int64(1 + r.IntN(4)), D: pick[int64](r, 1, -1)})
			case x < 8:
				c.Program = append(c.Program, simrt.Op{Actor: cl, Kind: "fetch", B: int64(r.IntN(2)), C: int64(r.IntN(60)), D: pick[int64](r, 60, 300, 1<<20)})
			case x < 9:
				c.Program = append(c.Program, simrt.Op{Actor: cl, Kind: "sleep", A: pick[int64](r, 1, 30, 400)})
			default:
				c.Program = append(c.Program, simrt.Op{Actor: cl, Kind: "crash"})
			}
		}
	}
	c.Program = append(c.Program, simrt.Op{Actor: 100, Kind: "crash"}, simrt.Op{Actor: 100, Kind: "verify"})
	for i := 0; i < r.IntN(3); i++ {
		switch r.IntN(4) {
		case 0:
			c.Faults = append(c.Faults, simrt.Fault{Kind: "s3r.fail_before", Op: "s3r.get", Nth: r.IntN(6), Count: 1 + r.IntN(3)})
		case 1:
			c.Faults = append(c.Faults, simrt.Fault{Kind: "s3.fail_before", Op: "s3.put.segment", Nth: r.IntN(5)})
		case 2:
			c.Faults = append(c.Faults, simrt.Fault{Kind: "s3.fail_after", Op: "s3.put.index", Nth: r.IntN(5)})
		case 3:
			c.Faults = append(c.Faults, simrt.Fault{Kind: "s3r.slow", Op: "s3r.get", Nth: r.IntN(6), Arg: int64(50+r.IntN(500)) * 1e6})
		}
	}
	if r.IntN(4) == 0 {
		// a replica that hangs for seconds and then fails: the read must still be served by the primary
		c.Faults = append(c.Faults, simrt.Fault{Kind: "s3r.slow", Op: "s3r.get", Nth: r.IntN(4), Count: 1 + r.IntN(2), Arg: int64(2100+r.IntN(6000)) * 1e6},
			simrt.Fault{Kind: "s3r.fail_before", Op: "s3r.get", Nth: r.IntN(6), Count: 1 + r.IntN(3)})
	}
	if r.IntN(4) == 0 {
		// the replica lags (object missing there) at the moment a primary read fails: what comes back must be
		// the primary's failure, not "there is no such object"
		cfg["replica_lag_ms"] = 5000
		c.Faults = append(c.Faults, simrt.Fault{Kind: "s3.fail_before", Op: pick(r, "s3.get.index", "s3.get.segment", "s3.get"), Nth: r.IntN(4), Count: 1 + r.IntN(2)})
	}
}
