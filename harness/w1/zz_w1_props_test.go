package main

import (
	"encoding/binary"
	"fmt"
	"math/rand/v2"
	"sort"
	"strings"
	"time"

	"github.com/twmb/franz-go/pkg/kmsg"

	"verif/sim/kbatch"
	"verif/sim/simrt"
)

// ---------------------------------------------------------------- generators

func w1S3WriteFaults(r *rand.Rand, c *simrt.Case, n int) {
	for i := 0; i < n; i++ {
		switch r.IntN(6) {
		case 0, 1:
			c.Faults = append(c.Faults, simrt.Fault{Kind: "s3.fail_before", Op: "s3.put.segment", Nth: r.IntN(5)})
		case 2:
			c.Faults = append(c.Faults, simrt.Fault{Kind: "s3.fail_after", Op: "s3.put.segment", Nth: r.IntN(5)})
		case 3:
			c.Faults = append(c.Faults, simrt.Fault{Kind: "s3.fail_before", Op: "s3.put.index", Nth: r.IntN(5)})
		case 4:
			c.Faults = append(c.Faults, simrt.Fault{Kind: "s3.fail_after", Op: "s3.put.index", Nth: r.IntN(5)})
		case 5:
			c.Faults = append(c.Faults, simrt.Fault{Kind: "store.err", Op: "store.UpdateOffsets", Nth: r.IntN(5)})
		}
	}
}

func w1GenProp(r *rand.Rand, c *simrt.Case, nclients, maxOps int, prop, tier string) {
	cfg := c.Config
	switch prop {
	case "C02":
		if r.IntN(5) == 0 {
			// several brokers handing a partition over through leases: offsets stay unique across owners
			w1GenLease(r, c, nclients, maxOps)
			return
		}
		clean := r.IntN(2) == 0
		if clean {
			cfg["clean"] = 1
		}
		if r.IntN(3) == 0 {
			// topics come into being with their first produce (auto-create), several clients at once,
			// over a slow metadata store
			cfg["precreate"] = 0
			cfg["store_lat_us"] = pick[int64](r, 500, 5000, 30000)
			if r.IntN(2) == 0 {
				// one of the racing creations is much slower than everything else
				c.Faults = append(c.Faults, simrt.Fault{Kind: "store.slow", Op: "store.CreateTopic", Nth: r.IntN(2), Arg: int64(20+r.IntN(400)) * 1e6})
				c.Faults = append(c.Faults, simrt.Fault{Kind: "s3.slow", Op: "s3.put.segment", Nth: r.IntN(2), Arg: int64(20+r.IntN(400)) * 1e6})
			}
		}
		for cl := 0; cl < nclients; cl++ {
			n := 1 + r.IntN(maxOps)
			for i := 0; i < n; i++ {
				op := simrt.Op{Actor: cl, Kind: "produce", B: int64(r.IntN(2)), C: int64(1 + r.IntN(5)), D: pick[int64](r, 1, -1)}
				if !clean && r.IntN(6) == 0 {
					op.D = 0
				}
				if r.IntN(4) == 0 {
					op.S = pick(r, "neg_delta", "delta_big", "delta_small", "count_zero", "count_big", "concat", "neg_count")
				}
				c.Program = append(c.Program, op)
				if r.IntN(8) == 0 {
					c.Program = append(c.Program, simrt.Op{Actor: cl, Kind: "flush", B: int64(r.IntN(2))})
				}
			}
		}
		if !clean {
			w1S3WriteFaults(r, c, r.IntN(3))
			if r.IntN(3) == 0 {
				c.Faults = append(c.Faults, simrt.Fault{Kind: "crash", Key: "b0", Nth: 20 + r.IntN(200)})
			}
			if r.IntN(4) == 0 {
				// an upload that leaves a segment without its index, then a restart, then more appends: the
				// new incarnation must continue right behind what is readable
				c.Faults = append(c.Faults, simrt.Fault{Kind: pick(r, "s3.fail_before", "s3.fail_before", "s3.fail_after"), Op: pick(r, "s3.put.index", "s3.put.index", "s3.put.segment"), Nth: r.IntN(4)})
				for i := 0; i < 1+r.IntN(3); i++ {
					c.Program = append(c.Program, simrt.Op{Actor: 0, Kind: "produce", B: 0, C: int64(1 + r.IntN(3)), D: -1})
				}
				c.Program = append(c.Program, simrt.Op{Actor: 0, Kind: "crash", A: 0})
				for i := 0; i < 1+r.IntN(3); i++ {
					c.Program = append(c.Program, simrt.Op{Actor: 0, Kind: "produce", B: 0, C: int64(1 + r.IntN(3)), D: -1})
				}
			}
		}
	case "C22":
		w1GenTopics(r, c, nclients, maxOps)
		if c.Config["max_steps"] < 16000 {
			c.Config["max_steps"] = 16000 // topic creation/deletion with read-backs makes for long runs
		}
	case "C24":
		w1GenACL(r, c, nclients, maxOps)
	case "C11":
		w1GenVersions(r, c, nclients, maxOps)
	case "C19":
		w1GenLease(r, c, nclients, maxOps)
	case "C03", "C04":
		cfg["topics"] = 2
		cfg["partitions"] = 2
		cfg["topic_alias"] = 0
		if prop == "C22" {
			cfg["topic_alias"] = 1
			cfg["topics"] = int64(2 + r.IntN(5))
			cfg["precreate"] = int64(r.IntN(2))
		}
		if prop == "C04" {
			// dense (one entry per batch) as well as sparse indexes; mostly buffered appends so that
			// segments hold many batches
			cfg["index_interval"] = pick[int64](r, 1, 1, 2, 5, 20, 100)
			cfg["buf_max_bytes"] = pick[int64](r, 600, 2000, 4<<20)
		}
		cfg["flush_on_ack"] = pick[int64](r, 1, 1, 1, 0)
		if prop == "C04" {
			cfg["flush_on_ack"] = pick[int64](r, 1, 0, 0)
		}
		producers := 1 + r.IntN(3)
		for cl := 0; cl < producers; cl++ {
			n := 2 + r.IntN(maxOps+2)
			for i := 0; i < n; i++ {
				acks := pick[int64](r, 1, -1, 1, 0)
				c.Program = append(c.Program, simrt.Op{Actor: cl, Kind: "produce", A: int64(r.IntN(6)), B: int64(r.IntN(2)), C: int64(1 + r.IntN(6)), D: acks})
			}
		}
		fetchers := 1 + r.IntN(3)
		for f := 0; f < fetchers; f++ {
			cl := producers + f
			n := 2 + r.IntN(maxOps+3)
			for i := 0; i < n; i++ {
				if r.IntN(4) == 0 {
					c.Program = append(c.Program, simrt.Op{Actor: cl, Kind: "sleep", A: int64(1 + r.IntN(30))})
				}
				c.Program = append(c.Program, simrt.Op{Actor: cl, Kind: "fetch", A: int64(r.IntN(6)), B: int64(r.IntN(2)), C: int64(r.IntN(200)), D: pick[int64](r, 1, 30, 70, 150, 400, 1<<20, 1<<20, 1<<31-1, 1<<31-101)})
			}
		}
		// a late fetcher that runs after every producer finished (stable log, all paths: segment/cache/range)
		for i := 0; i < 3+r.IntN(4); i++ {
			c.Program = append(c.Program, simrt.Op{Actor: 100, Kind: "fetch", A: int64(r.IntN(6)), B: int64(r.IntN(2)), C: int64(r.IntN(200)), D: pick[int64](r, 1, 30, 70, 150, 400, 1<<20, 1<<20, 1<<31-1, 1<<31-101)})
		}
		if r.IntN(3) == 0 {
			w1S3WriteFaults(r, c, 1+r.IntN(2))
		}
	case "C06":
		cfg["restart_delay_ms"] = pick[int64](r, 1, 50, 500)
		for cl := 0; cl < nclients; cl++ {
			n := 2 + r.IntN(maxOps+1)
			for i := 0; i < n; i++ {
				switch x := r.IntN(10); {
				case x < 7:
					c.Program = append(c.Program, simrt.Op{Actor: cl, Kind: "produce", B: int64(r.IntN(2)), C: int64(1 + r.IntN(4)), D: pick[int64](r, 1, -1)})
				case x < 8:
					c.Program = append(c.Program, simrt.Op{Actor: cl, Kind: "fetch", B: int64(r.IntN(2)), C: int64(r.IntN(100)), D: pick[int64](r, 100, 1<<20)})
				case x < 9:
					c.Program = append(c.Program, simrt.Op{Actor: cl, Kind: "sleep", A: int64(r.IntN(60))})
				default:
					c.Program = append(c.Program, simrt.Op{Actor: cl, Kind: "crash"})
				}
			}
		}
		ncr := 1 + r.IntN(2)
		for i := 0; i < ncr; i++ {
			c.Faults = append(c.Faults, simrt.Fault{Kind: "crash", Key: "b0", Nth: 10 + r.IntN(300)})
		}
		w1S3WriteFaults(r, c, r.IntN(3))
		// transient read failures: some land on the listing / footer / index reads of a reopening broker
		for i := 0; i < r.IntN(3); i++ {
			c.Faults = append(c.Faults, simrt.Fault{Kind: "s3.fail_before", Op: pick(r, "s3.get.segment", "s3.get.segment", "s3.list", "s3.get.index"), Nth: r.IntN(14)})
		}
		c.Program = append(c.Program, simrt.Op{Actor: 100, Kind: "crash"}, simrt.Op{Actor: 100, Kind: "verify"})
	case "C41":
		// producers, then (optionally after a restart = cold cache) several
		// fetchers hitting the same few segments at once: concurrent cache
		// misses, hits, prefetches and flushes on shared partitions
		cfg["cache_on"] = 1
		cfg["cache_bytes"] = pick[int64](r, 400, 2000, 32<<20)
		cfg["readahead"] = int64(1 + r.IntN(2))
		cfg["partitions"] = 1
		cfg["buf_max_bytes"] = pick[int64](r, 1, 300, 4<<20)
		w1GenProduceHeavy(r, c, nclients, maxOps, prop)
		if r.IntN(3) == 0 {
			// a wide topic: steady traffic on partitions that are already open while sibling partitions of
			// the same topic are being opened for the first time
			cfg["partitions"] = 6
			for cl := 0; cl < nclients; cl++ {
				for i := 0; i < 3+r.IntN(4); i++ {
					c.Program = append(c.Program, simrt.Op{Actor: cl, Kind: pick(r, "produce", "produce", "fetch"), B: int64(r.IntN(6)), C: int64(1 + r.IntN(3)), D: 1})
				}
			}
		}
		if r.IntN(2) == 0 {
			c.Program = append(c.Program, simrt.Op{Actor: 100, Kind: "crash"})
		}
		if r.IntN(3) == 0 {
			// segment or index uploads fail while fetchers read the batches of the flush in flight: the
			// failure path (requeue, reset of the in-flight state) runs next to readers
			w1S3WriteFaults(r, c, 1+r.IntN(3))
		}
		nf := 2 + r.IntN(4)
		for f := 0; f < nf; f++ {
			for i := 0; i < 1+r.IntN(4); i++ {
				c.Program = append(c.Program, simrt.Op{Actor: 100 + f, Kind: "fetch", C: int64(r.IntN(30)), D: pick[int64](r, 100, 1<<20)})
				if r.IntN(3) == 0 {
					c.Program = append(c.Program, simrt.Op{Actor: 100 + f, Kind: "produce", C: int64(1 + r.IntN(3)), D: 1})
				}
			}
		}
	case "C25":
		w1GenHealth(r, c, nclients, maxOps)
	case "C44":
		w1GenReplica(r, c, nclients, maxOps)
	default:
		w1GenProduceHeavy(r, c, nclients, maxOps, prop)
	}
}

// w1Malform rewrites header fields of a well-formed batch (CRC is fixed up so
// only the named inconsistency remains).
func w1Malform(b []byte, how string, nrec int) []byte {
	out := append([]byte(nil), b...)
	switch how {
	case "neg_delta":
		binary.BigEndian.PutUint32(out[23:27], 0xffffffff) // -1
	case "delta_big":
		binary.BigEndian.PutUint32(out[23:27], uint32(nrec+3))
	case "delta_small":
		if nrec >= 2 {
			binary.BigEndian.PutUint32(out[23:27], 0)
		} else {
			binary.BigEndian.PutUint32(out[23:27], 0xfffffffe)
		}
	case "count_zero":
		binary.BigEndian.PutUint32(out[57:61], 0)
	case "count_big":
		binary.BigEndian.PutUint32(out[57:61], uint32(nrec+4))
	case "neg_count":
		binary.BigEndian.PutUint32(out[57:61], 0xfffffffd)
	case "concat":
		out = append(out, b...)
		return out
	}
	kbatch.FixCRC(out)
	return out
}

// ---------------------------------------------------------------- C02

// judgeOffsets: "The offsets the broker assigns in a partition are unique,
// strictly increasing in append order, and leave no gaps between successive
// acknowledged batches. The base offset in each produce response equals the
// first offset of that batch in the stored log."
func (w *w1) judgeOffsets() {
	type acked struct {
		r *produceRec
		n int64
	}
	per := map[string][]acked{}
	unacked := map[string]int64{}
	anyFault := len(w.sim.Stats.FaultsFired) > 0
	for _, r := range w.ledger {
		key := fmt.Sprintf("%s/%d", r.topic, r.part)
		n := int64(r.nrec)
		if r.malformed && len(r.sent) >= 61 {
			// what the client put in the header's record count is what it "sent" for offset purposes,
			// except for concatenated batches where it really sent both
			n = int64(int32(binary.BigEndian.Uint32(r.sent[57:61])))
			if len(r.sent) > 12+int(binary.BigEndian.Uint32(r.sent[8:12])) {
				n = int64(2 * r.nrec)
			}
		}
		if r.answered && r.code == 0 && r.acks != 0 {
			if r.malformed && n <= 0 {
				w.sim.Fail("C02", "accepted-batch-without-records", "%s: batch with record count %d was acknowledged at base %d", key, n, r.base)
				return
			}
			per[key] = append(per[key], acked{r, n})
		} else {
			if n < int64(r.nrec) {
				n = int64(r.nrec)
			}
			unacked[key] += n + 8 // a rejected malformed batch may still have consumed what its header claimed
		}
	}
	for key, list := range per {
		sort.Slice(list, func(i, j int) bool { return list[i].r.base < list[j].r.base })
		for i, a := range list {
			if a.r.base < 0 {
				w.sim.Fail("C02", "negative-base", "%s: acknowledged base offset %d", key, a.r.base)
				return
			}
			if i > 0 {
				p := list[i-1]
				if a.r.base < p.r.base+p.n {
					clause := "overlap"
					if w.etcdMode() {
						w.sim.Probe("c02.lease-handover-overlap")
						lost := func(r *produceRec) bool {
							return (r.appendSeen && (!r.heldAtAppend || !r.heldAtAck)) || w.lostBeforeReply(r.topic, r.part, r.inc, r.invoke, r.ret)
						}
						if lost(p.r) || lost(a.r) {
							// one of the two requests lost its lease between its ownership check and its
							// acknowledgement: the unfenced-write gap recorded as KF-C19-check-then-act
							clause = "overlap-lease-lost-in-flight"
						}
					}
					if p.r.how == "concat" {
						clause = "overlap-after-concatenated-batches"
					}
					w.sim.Fail("C02", clause, "%s: acknowledged [%d,+%d) (client %d seq %d%s) overlaps [%d,+%d) (client %d seq %d%s)", key,
						p.r.base, p.n, p.r.client, p.r.seq, mal(p.r), a.r.base, a.n, a.r.client, a.r.seq, mal(a.r))
					return
				}
				gap := a.r.base - (p.r.base + p.n)
				if gap > 0 && p.r.inc != a.r.inc && !w.etcdMode() && !p.r.malformed && !a.r.malformed {
					// the broker restarted between the two acknowledgements: nothing of the old incarnation
					// is still buffered, so every offset it skipped must be in a completed segment (a stored
					// but unacknowledged attempt); an offset that exists nowhere is a hole in the log
					stored := w.storedOffsets(a.r.topic, a.r.part)
					for o := p.r.base + p.n; o < a.r.base; o++ {
						if !stored[o] {
							w.sim.Fail("C02", "gap-after-restart", "%s: offset %d exists in no completed segment, although [%d,+%d) was acknowledged by %s before it and [%d,+%d) by %s after it", key, o, p.r.base, p.n, p.r.inc, a.r.base, a.n, a.r.inc)
							return
						}
					}
					w.sim.Probe("c02.gap-after-restart-explained")
				}
				if gap > 0 && w.cfg("clean", 0) == 1 && !anyFault {
					w.sim.Fail("C02", "gap", "%s: %d unused offsets between acknowledged [%d,+%d)%s and [%d,+%d)%s in a fault-free run where every produce was acknowledged or rejected", key,
						gap, p.r.base, p.n, mal(p.r), a.r.base, a.n, mal(a.r))
					return
				}
				if gap > unacked[key] {
					w.sim.Fail("C02", "gap", "%s: %d unused offsets between [%d,+%d) and [%d,+%d) exceed the %d records of failed/unacknowledged attempts", key, gap, p.r.base, p.n, a.r.base, a.n, unacked[key])
					return
				}
			} else if a.r.base > unacked[key] && w.cfg("clean", 0) == 1 && !anyFault {
				w.sim.Fail("C02", "gap", "%s: first acknowledged base is %d in a fault-free run", key, a.r.base)
				return
			}
		}
		// real-time order
		for _, a := range list {
			for _, b := range list {
				if a.r.ret < b.r.invoke && a.r.ret > 0 && a.r.base >= b.r.base {
					w.sim.Fail("C02", "not-increasing-in-append-order", "%s: produce acked at base %d returned (step %d) before produce acked at base %d was sent (step %d)", key, a.r.base, a.r.ret, b.r.base, b.r.invoke)
					return
				}
			}
		}
		// (d) response base equals stored base for that marker
		for _, a := range list {
			if a.r.malformed {
				continue
			}
			for _, k := range w.knownLogStored(a.r.topic, a.r.part) {
				if k.rec == a.r && k.base != a.r.base {
					w.sim.Fail("C02", "response-base-differs-from-stored", "%s: client %d seq %d acknowledged at %d but stored at %d", key, a.r.client, a.r.seq, a.r.base, k.base)
					return
				}
			}
		}
	}
}

func mal(r *produceRec) string {
	if r.malformed {
		return " malformed"
	}
	return ""
}

// knownLogStored lists batches found in S3 segment objects, by marker.
func (w *w1) knownLogStored(topic string, part int32) []logBatch {
	byMarker := map[string]*produceRec{}
	for _, r := range w.ledger {
		if r.topic == topic && r.part == part && !r.malformed {
			byMarker[r.markers[0]] = r
		}
	}
	var out []logBatch
	for _, k := range w.s3.Keys(w.partPrefix(topic, part)) {
		if len(k) < 4 || k[len(k)-4:] != ".kfs" {
			continue
		}
		data, _ := w.s3.Peek(k)
		for _, b := range w.segBatches(k, data) {
			if r := byMarker[firstMarker(b)]; r != nil {
				out = append(out, logBatch{base: b.BaseOffset, count: r.nrec, raw: r.sent, rec: r})
			}
		}
	}
	return out
}

// storedOffsets: every offset held by a completed segment (segment and index both present) of the partition.
func (w *w1) storedOffsets(topic string, part int32) map[int64]bool {
	out := map[int64]bool{}
	for _, k := range w.s3.Keys(w.partPrefix(topic, part)) {
		if !strings.HasSuffix(k, ".kfs") {
			continue
		}
		if _, ok := w.s3.Peek(strings.TrimSuffix(k, ".kfs") + ".index"); !ok {
			continue
		}
		data, _ := w.s3.Peek(k)
		for _, b := range w.segBatches(k, data) {
			for o := b.BaseOffset; o <= b.BaseOffset+int64(b.LastOffsetDelta); o++ {
				out[o] = true
			}
		}
	}
	return out
}

// ---------------------------------------------------------------- C06

// opVerify reads every partition back through the (restarted) broker.
//
// C06: "every record acknowledged before the crash can be read at its original
// offset. New appends never reuse an offset that was acknowledged or shown to
// a consumer. Leftover objects from interrupted uploads never hide
// acknowledged data or cause offset reuse."
func (w *w1) opVerify(client int) {
	n := w.node(0)
	// the property is about a NEW broker opening the partitions: always restart first
	w.sim.CrashNode(n.name)
	simrt.Sleep(time.Duration(w.cfg("restart_delay_ms", 50)+20) * time.Millisecond)
	for i := 0; n.h == nil && i < 200; i++ {
		simrt.Sleep(10 * time.Millisecond)
	}
	if n.h == nil {
		return
	}
	w.sim.Probe("c06.verify")
	for _, topic := range w.topics {
		for part := int32(0); part < w.nparts; part++ {
			got := map[int64][]byte{}
			offset := int64(0)
			hw := int64(-1)
			fails := 0
			faultsSeen := -1
			for iter := 0; iter < 200; iter++ {
				fr := w.rawFetch(n, client, topic, part, offset, 1<<20)
				if fr == nil {
					// the broker crashed (again) under the verifier: wait for the next incarnation
					for i := 0; n.h == nil && i < 200; i++ {
						simrt.Sleep(10 * time.Millisecond)
					}
					continue
				}
				if fr.code != 0 {
					fails++
					// a failure with a freshly injected fault behind it says nothing about the log: only
					// failures in a row that no new fault explains count (two transient read faults that
					// each hit one restore attempt, with the health window's rejections between them, used
					// up the whole budget once in 200 000 runs)
					fired := 0
					for _, v := range w.sim.Stats.FaultsFired {
						fired += v
					}
					if fired != faultsSeen {
						faultsSeen = fired
						fails = 1
					}
					if fr != nil && fr.code == 3 { // unknown topic/partition: nothing was ever written
						break
					}
					if fails > 8 {
						if hw > offset || w.ackedAbove(topic, part, offset) {
							w.sim.Fail("C06", "unreadable-after-restart", "%s/%d: fetch at %d keeps failing after restart (code %v) although acknowledged data exists at or above it", topic, part, offset, codeOf(fr))
						}
						break
					}
					// backpressure codes last as long as the health window: wait it out
					simrt.Sleep(15 * time.Second)
					continue
				}
				hw = fr.hw
				batches, _ := kbatch.ParseAll(fr.data)
				if len(batches) == 0 {
					if offset < hw && w.ackedAbove(topic, part, offset) {
						w.sim.Fail("C06", "no-progress-after-restart", "%s/%d: fetch at %d below hw %d returns nothing after restart", topic, part, offset, hw)
					}
					break
				}
				for _, b := range batches {
					got[b.BaseOffset] = b.Raw
					if last := b.BaseOffset + int64(b.LastOffsetDelta); last >= offset {
						offset = last + 1
					}
				}
				if offset >= hw {
					break
				}
			}
			if w.sim.Failed() {
				return
			}
			for _, r := range w.ledger {
				if r.topic != topic || r.part != part || !r.answered || r.code != 0 || r.acks == 0 || r.malformed || !r.durable {
					continue
				}
				raw, ok := got[r.base]
				if !ok {
					w.sim.Fail("C06", "acked-record-lost-after-restart", "%s/%d: client %d seq %d acknowledged at base %d (durable in S3 when acknowledged, incarnation %s) is not returned by fetch after restart (hw %d)", topic, part, r.client, r.seq, r.base, r.inc, hw)
					return
				}
				if len(raw) != len(r.sent) || string(raw[8:]) != string(r.sent[8:]) {
					w.sim.Fail("C06", "acked-record-changed-after-restart", "%s/%d: base %d returns different bytes after restart", topic, part, r.base)
					return
				}
			}
		}
	}
	w.judgeReuse()
}

func codeOf(fr *fetchRec) any {
	if fr == nil {
		return "no reply"
	}
	return fr.code
}

func (w *w1) ackedAbove(topic string, part int32, off int64) bool {
	for _, r := range w.ledger {
		if r.topic == topic && r.part == part && r.answered && r.code == 0 && r.acks != 0 && r.durable && r.base+int64(r.nrec) > off {
			return true
		}
	}
	return false
}

// judgeReuse: an offset acknowledged or shown to a consumer by one incarnation
// is never assigned again by a later one.
func (w *w1) judgeReuse() {
	for _, a := range w.ledger {
		if !a.answered || a.code != 0 || a.acks == 0 || a.malformed {
			continue
		}
		for _, b := range w.ledger {
			if b == a || b.topic != a.topic || b.part != a.part || !b.answered || b.code != 0 || b.acks == 0 || b.malformed {
				continue
			}
			if a.base < b.base+int64(b.nrec) && b.base < a.base+int64(a.nrec) {
				w.sim.Fail("C06", "offset-reused", "%s/%d: [%d,+%d) acknowledged by %s and [%d,+%d) acknowledged by %s overlap", a.topic, a.part, a.base, a.nrec, a.inc, b.base, b.nrec, b.inc)
				return
			}
		}
		for _, f := range w.fetchs {
			if f.topic != a.topic || f.part != a.part || !f.answered || f.code != 0 || f.inc >= a.inc || f.ret > a.invoke {
				continue
			}
			bs, _ := kbatch.ParseAll(f.data)
			for _, b := range bs {
				if m := firstMarker(b); m != a.markers[0] && a.base < b.BaseOffset+int64(b.LastOffsetDelta)+1 && b.BaseOffset < a.base+int64(a.nrec) {
					w.sim.Fail("C06", "offset-reused-after-shown", "%s/%d: offsets [%d,+%d) were shown to a consumer by %s (marker %s) and later acknowledged for another batch by %s", a.topic, a.part, b.BaseOffset, b.LastOffsetDelta+1, f.inc, m, a.inc)
					return
				}
			}
		}
	}
}

func (w *w1) rawFetch(n *bnode, client int, topic string, part int32, offset int64, maxBytes int32) *fetchRec {
	fr := &fetchRec{client: client, topic: topic, part: part, offset: offset, maxBytes: maxBytes, invoke: w.sim.Step(), inc: n.inc}
	req := kmsg.NewPtrFetchRequest()
	req.Version = 12
	req.ReplicaID = -1
	req.MaxBytes = 1 << 30
	rt := kmsg.NewFetchRequestTopic()
	rt.Topic = topic
	rp := kmsg.NewFetchRequestTopicPartition()
	rp.Partition = part
	rp.FetchOffset = offset
	rp.PartitionMaxBytes = maxBytes
	rp.CurrentLeaderEpoch = -1
	rt.Partitions = append(rt.Partitions, rp)
	req.Topics = append(req.Topics, rt)
	_, ok := n.call(req, fmt.Sprintf("c%d", client), func(r kmsg.Response) {
		resp := r.(*kmsg.FetchResponse)
		if len(resp.Topics) != 1 || len(resp.Topics[0].Partitions) != 1 {
			return
		}
		p := resp.Topics[0].Partitions[0]
		fr.answered, fr.code, fr.hw, fr.data, fr.ret = true, p.ErrorCode, p.HighWatermark, p.RecordBatches, w.sim.Step()
	})
	if !ok || !fr.answered {
		return nil
	}
	return fr
}
