package mcpserver

// World "wm": the ops MCP tools against a metadata store that broker-like
// writers mutate at the same time. See DESIGN.md section 5, C40.
//
// C40: "Calling any tool of the ops MCP server, with any arguments, leaves the
// topics, offsets, groups and configurations in the metadata store unchanged."

import (
	"context"
	"encoding/json"
	"fmt"
	"math/rand/v2"
	"sort"
	"strings"
	"testing"

	metadatapb "github.com/KafScale/platform/pkg/gen/metadata"
	"github.com/KafScale/platform/pkg/metadata"
	"github.com/KafScale/platform/pkg/protocol"
	"github.com/twmb/franz-go/pkg/kmsg"

	"verif/sim/driver"
	"verif/sim/kafsim"
	"verif/sim/simrt"
)

func TestSim(t *testing.T) { driver.Main(t, wmWorld) }

var wmWorld = driver.World{
	Name: "wm-mcp",
	Gen:  wmGen,
	Run:  wmRun,
	Real: []string{"internal/mcpserver tool handlers (all eight)", "pkg/metadata InMemoryStore"},
	Stub: []string{"metadata.Store decorator (latency, faults, write attribution)", "MCP transport (handlers are invoked directly)", "scheduler, clock (simulator)"},
}

var wmNames = []string{"orders", "payments", "missing", "", "a.b", "orders "}

func wmGen(r *rand.Rand, prop, tier string) *simrt.Case {
	c := &simrt.Case{Config: map[string]int64{"store_lat_us": []int64{50, 500, 5000}[r.IntN(3)], "map_seed": int64(r.Uint32())}}
	ncl := 1 + r.IntN(3)
	for cl := 0; cl < ncl; cl++ {
		for i := 0; i < 2+r.IntN(8); i++ {
			c.Program = append(c.Program, simrt.Op{Actor: cl, Kind: "tool", A: int64(r.IntN(8)), B: int64(r.IntN(len(wmNames))), C: int64(r.IntN(len(wmNames))), D: int64(r.IntN(3))})
		}
	}
	// broker-like writers (actor ids >= 50), so that tools run against a moving store
	for w := 0; w < r.IntN(3); w++ {
		for i := 0; i < 2+r.IntN(6); i++ {
			c.Program = append(c.Program, simrt.Op{Actor: 50 + w, Kind: "write", A: int64(r.IntN(5)), B: int64(r.IntN(2)), C: int64(r.IntN(100))})
		}
	}
	// an isolated phase: one tool at a time with a full snapshot comparison
	for i := 0; i < 3+r.IntN(6); i++ {
		c.Program = append(c.Program, simrt.Op{Actor: 100, Kind: "tool-isolated", A: int64(r.IntN(8)), B: int64(r.IntN(len(wmNames))), C: int64(r.IntN(len(wmNames))), D: int64(r.IntN(3))})
	}
	if r.IntN(3) == 0 {
		c.Faults = append(c.Faults, simrt.Fault{Kind: "store.err", Op: "store.", Nth: r.IntN(20)})
	}
	return c
}

type wm struct {
	sim   *simrt.Sim
	inner *metadata.InMemoryStore
	store *kafsim.Store
	opts  Options
	left  int
	done  *simrt.Future
}

func wmRun(t *testing.T, c *simrt.Case, prop string, keepTrace bool) simrt.Result {
	w := &wm{}
	return simrt.Run(t, c, keepTrace, func(s *simrt.Sim) {
		w.sim = s
		info := protocol.MetadataBroker{NodeID: 0, Host: "b0", Port: 9092}
		meta := metadata.ClusterMetadata{ControllerID: 0, ClusterID: kmsg.StringPtr("sim"), Brokers: []protocol.MetadataBroker{info}}
		for _, name := range []string{"orders", "payments", "a.b"} {
			mt := protocol.MetadataTopic{Topic: kmsg.StringPtr(name), TopicID: metadata.TopicIDForName(name)}
			for p := int32(0); p < 2; p++ {
				mt.Partitions = append(mt.Partitions, protocol.MetadataPartition{Partition: p, Leader: 0, Replicas: []int32{0}, ISR: []int32{0}})
			}
			meta.Topics = append(meta.Topics, mt)
		}
		w.inner = metadata.NewInMemoryStore(meta)
		ctx := context.Background()
		_ = w.inner.UpdateOffsets(ctx, "orders", 0, 41)
		_ = w.inner.CommitConsumerOffset(ctx, "g0", "orders", 0, 17, "m")
		// a commit that lies beyond the partition's end offset (legal: the log was truncated, or the commit
		// was made by a tool): a reader that "repairs" it would write
		_ = w.inner.UpdateOffsets(ctx, "orders", 1, 49)
		_ = w.inner.CommitConsumerOffset(ctx, "g0", "orders", 1, 80, "ahead")
		// a simple consumer that commits without ever joining: offsets exist, a group record does not
		_ = w.inner.CommitConsumerOffset(ctx, "batch-loader", "orders", 0, 5, "")
		_ = w.inner.PutConsumerGroup(ctx, &metadatapb.ConsumerGroup{GroupId: "g0", State: "stable", GenerationId: 3, Leader: "m1",
			RebalanceTimeoutMs: 30000,
			Members: map[string]*metadatapb.GroupMember{
				"m1": {Subscriptions: []string{"orders"}, Assignments: []*metadatapb.Assignment{{Topic: "orders", Partitions: []int32{0, 1}}}},
				// a member whose stored heartbeat is long past its session timeout (a reader that "tidies up" would drop it)
				"m2": {ClientId: "c2", HeartbeatAt: "1999-12-31T00:00:00Z", SessionTimeoutMs: 10000, Subscriptions: []string{"orders"}, Assignments: []*metadatapb.Assignment{{Topic: "orders", Partitions: []int32{2}}}},
			}})
		w.store = kafsim.NewStore(w.inner, c.Cfg("store_lat_us", 500))
		w.opts = Options{Store: w.store}
		w.done = s.NewFuture("")
		actors := map[int][]simrt.Op{}
		var ids []int
		for _, op := range c.Program {
			if _, ok := actors[op.Actor]; !ok {
				ids = append(ids, op.Actor)
			}
			actors[op.Actor] = append(actors[op.Actor], op)
		}
		sort.Ints(ids)
		for _, id := range ids {
			if id < 100 {
				w.left++
			}
		}
		if w.left == 0 {
			w.done.Set(true)
		}
		for _, id := range ids {
			id, ops := id, actors[id]
			name := fmt.Sprintf("mcp%03d", id)
			if id >= 50 && id < 100 {
				name = fmt.Sprintf("writer%03d", id)
			}
			s.Spawn(name, "", true, func() {
				if id >= 100 {
					w.done.Wait(nil, "barrier")
				}
				for _, op := range ops {
					w.op(op)
					if s.Failed() {
						break
					}
				}
				if id < 100 {
					w.left--
					if w.left == 0 {
						w.done.Set(true)
					}
				}
			})
		}
	}, func(s *simrt.Sim) {
		for _, wr := range w.store.Writes() {
			if strings.HasPrefix(wr.Task, "mcp") {
				s.Fail("C40", "mutation-by-mcp-tool", "an MCP tool task (%s) called %s(%s) on the metadata store", wr.Task, wr.Method, wr.Key)
				return
			}
		}
	})
}

func (w *wm) snapshot() string {
	ctx := context.Background()
	out := map[string]any{}
	meta, _ := w.inner.Metadata(ctx, nil)
	var topics []string
	if meta != nil {
		for _, t := range meta.Topics {
			topics = append(topics, fmt.Sprintf("%s/%d/%x", *t.Topic, len(t.Partitions), t.TopicID))
			for _, p := range t.Partitions {
				n, _ := w.inner.NextOffset(ctx, *t.Topic, p.Partition)
				out["next:"+*t.Topic+fmt.Sprint(p.Partition)] = n
			}
			cfg, _ := w.inner.FetchTopicConfig(ctx, *t.Topic)
			out["cfg:"+*t.Topic] = fmt.Sprint(cfg)
		}
	}
	out["topics"] = topics
	offs, _ := w.inner.ListConsumerOffsets(ctx)
	sort.Slice(offs, func(i, j int) bool { return fmt.Sprint(offs[i]) < fmt.Sprint(offs[j]) })
	out["offsets"] = fmt.Sprint(offs)
	groups, _ := w.inner.ListConsumerGroups(ctx)
	var gs []string
	for _, g := range groups {
		gs = append(gs, fmt.Sprint(g))
	}
	sort.Strings(gs)
	out["groups"] = gs
	b, _ := json.Marshal(out)
	return string(b)
}

func (w *wm) callTool(op simrt.Op) {
	ctx := context.Background()
	n1, n2 := wmNames[int(op.B)%len(wmNames)], wmNames[int(op.C)%len(wmNames)]
	var names []string
	switch op.D % 3 {
	case 1:
		names = []string{n1}
	case 2:
		names = []string{n1, n2}
	}
	w.sim.Probe("c40.tool-call")
	switch op.A % 8 {
	case 0:
		clusterStatusHandler(w.opts)(ctx, nil, emptyInput{})
	case 1:
		clusterMetricsHandler(w.opts)(ctx, nil, emptyInput{})
	case 2:
		listTopicsHandler(w.opts)(ctx, nil, emptyInput{})
	case 3:
		describeTopicsHandler(w.opts)(ctx, nil, TopicNameInput{Names: names})
	case 4:
		listGroupsHandler(w.opts)(ctx, nil, emptyInput{})
	case 5:
		describeGroupHandler(w.opts)(ctx, nil, GroupInput{GroupID: []string{"g0", "nope", ""}[op.B%3]})
	case 6:
		fetchOffsetsHandler(w.opts)(ctx, nil, FetchOffsetsInput{GroupID: []string{"g0", "nope", ""}[op.C%3], Topics: names})
	case 7:
		describeConfigsHandler(w.opts)(ctx, nil, TopicConfigInput{Topics: names})
	}
}

func (w *wm) op(op simrt.Op) {
	ctx := context.Background()
	switch op.Kind {
	case "tool":
		w.callTool(op)
	case "tool-isolated":
		before := w.snapshot()
		w.callTool(op)
		if after := w.snapshot(); after != before {
			w.sim.Fail("C40", "store-changed-by-mcp-tool", "tool %d changed the store:\n before %s\n after  %s", op.A%8, before, after)
		}
	case "write":
		switch op.A % 5 {
		case 0:
			_ = w.store.UpdateOffsets(ctx, "orders", int32(op.B), op.C)
		case 1:
			_ = w.store.CommitConsumerOffset(ctx, "g0", "payments", int32(op.B), op.C, "x")
		case 2:
			_, _ = w.store.CreateTopic(ctx, metadata.TopicSpec{Name: fmt.Sprintf("n%d", op.C%3), NumPartitions: 1, ReplicationFactor: 1})
		case 3:
			_ = w.store.PutConsumerGroup(ctx, &metadatapb.ConsumerGroup{GroupId: fmt.Sprintf("g%d", op.B), State: "stable", GenerationId: int32(op.C)})
		case 4:
			_ = w.store.UpdateTopicConfig(ctx, &metadatapb.TopicConfig{Name: "orders", Partitions: 2, ReplicationFactor: 1, RetentionMs: op.C})
		}
	}
}
