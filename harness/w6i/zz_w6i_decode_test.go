package processor

// C07 / C34 in the iceberg-processor world: segments written by the broker's
// segment writer (storage.BuildSegment) from generated batches are checked for
// structure, decoded by the processor's real decoder and scanned by the real
// point-in-time restore; damaged and random segments must never crash either.
//
// C07: "Every segment and index the broker writes has a valid header, an
// end-offset footer and a CRC over the body. Its index entries point at batch
// starts in increasing offset order. The record decoders used by the Iceberg, SQL
// and skeleton processors, and the point-in-time restore scanner, all recover
// exactly the records the producers sent: offsets, timestamps, keys, values and
// headers."
//
// C34: "The processors' segment decoders and the restore scanner return records
// or an error for any segment bytes, never a crash or an unbounded allocation.
// The broker stores clients' record bytes unchanged, so a crafted record must not
// be able to crash a processor."

import (
	"bytes"
	"context"
	"encoding/binary"
	"fmt"
	"hash/crc32"
	"math/rand/v2"
	"runtime"
	"strings"
	"time"

	"github.com/KafScale/platform/addons/processors/iceberg-processor/internal/decoder"
	"github.com/KafScale/platform/pkg/storage"

	"verif/sim/kafsim"
	"verif/sim/kbatch"
	"verif/sim/kseg"
	"verif/sim/simrt"
	"verif/sim/sims3"
)

func w6GenDecode(r *rand.Rand, prop string) *simrt.Case {
	c := &simrt.Case{Config: map[string]int64{}}
	c.Config["decode_mode"] = 1
	c.Config["max_steps"] = 20000
	n := 1 + r.IntN(4)
	for i := 0; i < n; i++ {
		variant := int64(0)
		if prop == "C34" {
			variant = int64(1 + r.IntN(9))
		}
		c.Program = append(c.Program, simrt.Op{Actor: i % 2, Kind: "decode", A: variant, B: int64(r.Uint32()), C: int64(r.IntN(1 << 20)), D: int64(r.IntN(1000))})
	}
	if r.IntN(3) == 0 {
		// (a GET that silently returns a prefix is not something S3 does: reads fail, they do not shrink)
		c.Faults = append(c.Faults, simrt.Fault{Kind: "s3.fail_before", Op: "s3.get", Nth: r.IntN(6)})
	}
	return c
}

var castagnoliTab = crc32.MakeTable(crc32.Castagnoli)

type genSeg struct {
	seg, idx []byte
	recs     []w6rec
	raws     [][]byte
	created  int64
}

// buildGenerated makes one segment of generated well-formed batches through the broker's writer.
func buildGenerated(w *w6, r *rand.Rand) (*genSeg, bool) {
	g := &genSeg{}
	var batches []storage.RecordBatch
	next := int64(r.IntN(3)) * 1000
	tcur := int64(1_700_000_000_000)
	for b := 0; b < 1+r.IntN(4); b++ {
		n := 1 + r.IntN(4)
		var krecs []kbatch.Record
		first, maxTs := int64(0), int64(0)
		for i := 0; i < n; i++ {
			tcur += int64(r.IntN(2000)) - 600 // timestamp deltas may be negative
			if i > 0 && r.IntN(8) == 0 {
				// client-supplied timestamps: the delta is a varlong and may need more than 32 bits
				jump := int64(1)<<uint(31+r.IntN(10)) + int64(r.IntN(1000))
				if r.IntN(2) == 0 && tcur > jump {
					jump = -jump
				}
				tcur += jump
			}
			if i == 0 {
				first, maxTs = tcur, tcur
			}
			if tcur > maxTs {
				maxTs = tcur
			}
			rec := kbatch.Record{OffsetDelta: int32(i), TsDelta: tcur - first}
			switch r.IntN(5) {
			case 0:
				rec.Key = nil
			case 1:
				rec.Key = []byte{}
			default:
				rec.Key = []byte(fmt.Sprintf("key-%d", next+int64(i)))
			}
			switch r.IntN(6) {
			case 0:
				rec.Value = nil
			case 1:
				rec.Value = []byte{}
			default:
				rec.Value = make([]byte, 1+r.IntN(60))
				for x := range rec.Value {
					rec.Value[x] = byte(r.IntN(256))
				}
			}
			for h := 0; h < r.IntN(4); h++ {
				hv := []byte(fmt.Sprintf("hv%d", r.IntN(99)))
				switch r.IntN(5) {
				case 0:
					hv = nil
				case 1:
					hv = []byte{}
				}
				rec.Headers = append(rec.Headers, kbatch.Header{Key: fmt.Sprintf("h%d", r.IntN(3)), Value: hv})
			}
			krecs = append(krecs, rec)
			g.recs = append(g.recs, w6rec{off: next + int64(i), ts: tcur, key: rec.Key, value: rec.Value, headers: rec.Headers})
		}
		raw := kbatch.BuildRaw(next, int32(n-1), int32(n), first, maxTs, 0, kbatch.EncodeRecords(krecs))
		g.raws = append(g.raws, raw)
		rb, err := storage.NewRecordBatchFromBytes(raw)
		if err != nil {
			w.sim.Fail("HARNESS", "setup", "%v", err)
			return nil, false
		}
		batches = append(batches, rb)
		next += int64(n)
		if r.IntN(4) == 0 {
			next += int64(r.IntN(3)) // offset gaps between batches are legal
		}
	}
	g.created = tcur + 50
	art, err := storage.BuildSegment(storage.SegmentWriterConfig{IndexIntervalMessages: int32(1 + r.IntN(4))}, batches, time.UnixMilli(g.created))
	if err != nil {
		w.sim.Fail("HARNESS", "setup", "%v", err)
		return nil, false
	}
	g.seg, g.idx = art.SegmentBytes, art.IndexBytes
	return g, true
}

func sameRec(t w6rec, topicOff int64, ts int64, key, value []byte, hk []string, hv [][]byte) bool {
	if t.off != topicOff || t.ts != ts || (t.key == nil) != (key == nil) || !bytes.Equal(t.key, key) || (t.value == nil) != (value == nil) || !bytes.Equal(t.value, value) || len(t.headers) != len(hk) {
		return false
	}
	for i := range t.headers {
		if t.headers[i].Key != hk[i] || (t.headers[i].Value == nil) != (hv[i] == nil) || !bytes.Equal(t.headers[i].Value, hv[i]) {
			return false
		}
	}
	return true
}

// damage applies one C34 mutation to a copy of a valid segment.
func damage(seg []byte, variant int64, r *rand.Rand) ([]byte, string) {
	out := append([]byte(nil), seg...)
	body := 32
	fixCRCs := func() {
		// keep the container valid so that the damage reaches the record decoder: batch CRC, footer CRC
		pos := body
		for pos+61 <= len(out)-16 {
			n := int(binary.BigEndian.Uint32(out[pos+8 : pos+12]))
			if n < 49 || pos+12+n > len(out)-16 {
				break // (the length field itself may be among the overwritten bytes)
			}
			binary.BigEndian.PutUint32(out[pos+17:pos+21], crc32.Checksum(out[pos+21:pos+12+n], castagnoliTab))
			pos += 12 + n
		}
		binary.BigEndian.PutUint32(out[len(out)-16:len(out)-12], crc32.Checksum(out[32:len(out)-16], castagnoliTab))
	}
	switch variant {
	case 1:
		g := make([]byte, r.IntN(400))
		for i := range g {
			g[i] = byte(r.IntN(256))
		}
		return g, "random bytes"
	case 2:
		if len(out) > 32+61+16+2 {
			a := 32 + 61 + r.IntN(len(out)-32-61-16)
			for i := a; i < len(out)-16 && i < a+1+r.IntN(12); i++ {
				out[i] = byte(r.IntN(256))
			}
			fixCRCs()
		}
		return out, "record bytes overwritten with arbitrary client bytes"
	case 3:
		// first record's length varint says 2^30 (a larger claim, e.g. 2^40, makes an unpatched decoder die of
		// a fatal out-of-memory error, which would take the whole check process with it)
		huge := []byte{0x80, 0x80, 0x80, 0x80, 0x08}
		out = append(append(append([]byte(nil), out[:32+61]...), huge...), out[32+61:]...)
		binary.BigEndian.PutUint32(out[32+8:32+12], binary.BigEndian.Uint32(out[32+8:32+12])+uint32(len(huge)))
		fixCRCs()
		return out, "record length varint of 2^40"
	case 4:
		// a record whose header count is enormous / negative: rebuild the first batch with one crafted record
		cnt := []byte{0xfe, 0xff, 0xff, 0xff, 0x0f} // zigzag varint: 2^31-1
		if r.IntN(2) == 0 {
			cnt = []byte{0x01} // -1
		}
		rec := append([]byte{0, 0, 0, 0x02, 'k', 0x02, 'v'}, cnt...)
		rec = append([]byte{byte(len(rec) << 1)}, rec...)
		raw := kbatch.BuildRaw(0, 0, 1, 1, 1, 0, rec)
		seg2, _, err := kseg.Build([][]byte{raw}, 1, 1)
		if err == nil {
			return seg2, "record with header count " + fmt.Sprint(cnt)
		}
		return out, "unchanged"
	case 5:
		// a consistent batch header claiming very many records over a tiny payload
		n := uint32(1<<18 + r.IntN(1<<22))
		binary.BigEndian.PutUint32(out[32+57:32+61], n)
		binary.BigEndian.PutUint32(out[32+23:32+27], n-1)
		fixCRCs()
		return out, fmt.Sprintf("batch header claims %d records", n)
	case 6:
		return out[:r.IntN(len(out))], "truncated"
	case 7:
		// key / value length varints beyond the record
		if len(out) > 32+61+6 {
			out[32+61+4] = 0xfe
			out[32+61+5] = 0xff
			fixCRCs()
		}
		return out, "key length beyond the record"
	case 9:
		// a record of length 0 (a single 0x00 length varint) in front of the first batch's records, counted in
		// the header: nothing forbids a client to send it, and every scanner walks over it
		out = append(append(append([]byte(nil), out[:32+61]...), 0x00), out[32+61:]...)
		binary.BigEndian.PutUint32(out[32+8:32+12], binary.BigEndian.Uint32(out[32+8:32+12])+1)
		binary.BigEndian.PutUint32(out[32+57:32+61], binary.BigEndian.Uint32(out[32+57:32+61])+1)
		fixCRCs()
		return out, "zero-length record"
	default:
		if r.IntN(2) == 0 {
			// a frame shorter than a batch header (the broker does not validate this field of a client's batch)
			binary.BigEndian.PutUint32(out[32+8:32+12], uint32(r.IntN(62)))
			return out, "batch length field smaller than a batch header"
		}
		binary.BigEndian.PutUint32(out[32+8:32+12], uint32(r.IntN(1<<31)))
		return out, "batch length field arbitrary"
	}
}

func (w *w6) runDecodeOps() {
	s := w.sim
	w.s3 = sims3.New("s3", 200)
	actors := map[int][]simrt.Op{}
	for _, op := range w.c.Program {
		actors[op.Actor] = append(actors[op.Actor], op)
	}
	for id := 0; id < 4; id++ {
		ops := actors[id]
		if len(ops) == 0 {
			continue
		}
		id := id
		s.Spawn(fmt.Sprintf("decoder%d", id), "processor", true, func() {
			for i, op := range ops {
				if s.Failed() {
					return
				}
				w.decodeOp(id, i, op)
			}
		})
	}
}

func (w *w6) decodeOp(id, seq int, op simrt.Op) {
	r := rand.New(rand.NewPCG(uint64(op.B), uint64(id*100+seq)))
	g, ok := buildGenerated(w, r)
	if !ok {
		return
	}
	topic := fmt.Sprintf("t%d-%d", id, seq)
	segKey := fmt.Sprintf("%s/%s/0/segment-%020d.kfs", w6NS, topic, g.recs[0].off)
	if op.A == 0 {
		// ---- C07
		w.sim.Probe("c07.segment-judged")
		sg, err := kseg.Parse(g.seg)
		if err != nil {
			w.sim.Fail("C07", "segment-structure", "the writer's segment does not parse: %v", err)
			return
		}
		if why := sg.Check(); why != "" {
			w.sim.Fail("C07", "segment-structure", "the writer's segment: %s", why)
			return
		}
		if sg.CreatedMs != g.created {
			w.sim.Fail("C07", "segment-structure", "header creation time %d, writer was given %d", sg.CreatedMs, g.created)
			return
		}
		ix, err := kseg.ParseIndex(g.idx)
		if err != nil {
			w.sim.Fail("C07", "index-structure", "the writer's index does not parse: %v", err)
			return
		}
		if why := ix.CheckAgainst(sg); why != "" {
			w.sim.Fail("C07", "index-structure", "the writer's index: %s", why)
			return
		}
		for i, b := range sg.Batches {
			if !bytes.Equal(b.Raw, g.raws[i]) {
				w.sim.Fail("C07", "segment-structure", "batch %d in the segment is not the batch that was appended", i)
				return
			}
		}
		// the processor's decoder, through its S3 path
		w.s3.Poke(segKey, g.seg)
		recs, err := decoder.NewForSim(w6api{w}, w6Bucket).Decode(context.Background(), segKey, "", topic, 0)
		if simrt.Dying() {
			return
		}
		if err != nil {
			if len(w.sim.Stats.FaultsFired) > 0 {
				w.sim.Probe("c07.decode-failed-under-fault")
				return
			}
			w.sim.Fail("C07", "iceberg-decoder-error", "the decoder rejects a well-formed segment: %v", err)
			return
		}
		short := w.sim.Stats.FaultsFired["s3.read_short"] > 0
		if len(recs) != len(g.recs) && !short {
			w.sim.Fail("C07", "iceberg-decoder-record-count", "the decoder returned %d records, %d were written", len(recs), len(g.recs))
			return
		}
		for i, d := range recs {
			if i >= len(g.recs) {
				break
			}
			var hk []string
			var hv [][]byte
			for _, h := range d.Headers {
				hk = append(hk, h.Key)
				hv = append(hv, h.Value)
			}
			if !sameRec(g.recs[i], d.Offset, d.Timestamp, d.Key, d.Value, hk, hv) {
				w.sim.Fail("C07", "iceberg-decoder-record-differs", "record %d: decoded offset=%d ts=%d key=%q(nil=%v) value=%q(nil=%v) %d headers; written offset=%d ts=%d key=%q(nil=%v) value=%q(nil=%v) %d headers", i, d.Offset, d.Timestamp, d.Key, d.Key == nil, d.Value, d.Value == nil, len(d.Headers), g.recs[i].off, g.recs[i].ts, g.recs[i].key, g.recs[i].key == nil, g.recs[i].value, g.recs[i].value == nil, len(g.recs[i].headers))
				return
			}
		}
		w.sim.Probe("c07.decoder-judged")
		// the restore scanner: cut at a record timestamp, compare what it keeps
		w.s3.Poke(strings.TrimSuffix(segKey, ".kfs")+".index", g.idx)
		T := g.recs[int(op.D)%len(g.recs)].ts
		dst := topic + "-restored"
		res, err := storage.RecoverTopicToTimestamp(context.Background(), kafsim.S3{St: w.s3}, storage.TopicRecoveryConfig{SourceNamespace: w6NS, SourceTopic: topic, TargetNamespace: w6NS, TargetTopic: dst, RestoreTo: time.UnixMilli(T)})
		if simrt.Dying() || err != nil || res == nil {
			w.sim.Probe("c07.restore-failed")
			return
		}
		w.sim.Probe("c07.restore-judged")
		n := 0
		for _, k := range w.s3.Keys(w6NS + "/" + dst + "/") {
			if !strings.HasSuffix(k, ".kfs") {
				continue
			}
			b, _ := w.s3.Peek(k)
			tsg, err := kseg.Parse(b)
			if err != nil {
				w.sim.Fail("C07", "restore-scanner", "restored segment %s does not parse: %v", k, err)
				return
			}
			if why := tsg.Check(); why != "" {
				w.sim.Fail("C07", "restore-scanner", "restored segment %s: %s", k, why)
				return
			}
			for _, bt := range tsg.Batches {
				for i, rr := range bt.Records {
					if n >= len(g.recs) {
						w.sim.Fail("C07", "restore-scanner", "the restore produced more records than were written")
						return
					}
					t := g.recs[n]
					var hk []string
					var hv [][]byte
					for _, h := range rr.Headers {
						hk = append(hk, h.Key)
						hv = append(hv, h.Value)
					}
					if !sameRec(t, bt.BaseOffset+int64(rr.OffsetDelta), bt.BaseTimestamp+rr.TsDelta, rr.Key, rr.Value, hk, hv) {
						w.sim.Fail("C07", "restore-scanner", "restored record %d (batch at %d, record %d) differs from the written record at offset %d", n, bt.BaseOffset, i, t.off)
						return
					}
					n++
				}
			}
		}
		// the scanner keeps records up to the first one later than T
		want := 0
		for want < len(g.recs) && g.recs[want].ts <= T {
			want++
		}
		if n != want {
			w.sim.Fail("C07", "restore-scanner", "restore to T=%d kept %d records, the first record later than T is number %d", T, n, want)
		}
		return
	}
	// ---- C34
	bad, what := damage(g.seg, op.A, r)
	w.sim.Probe("c34.input:" + strings.SplitN(what, " ", 2)[0])
	var before, after runtime.MemStats
	runtime.ReadMemStats(&before)
	recs, err := decoder.DecodeSegmentForSim(bad, topic, 0)
	runtime.ReadMemStats(&after)
	w.sim.Probe("c34.decoder-call")
	_ = recs
	if err == nil {
		w.sim.Probe("c34.decoder-accepted")
	}
	if grew := after.TotalAlloc - before.TotalAlloc; grew > 32<<20 {
		w.sim.Fail("C34", "decoder-unbounded-allocation", "decoding a %d-byte segment (%s) allocated %d MiB", len(bad), what, grew>>20)
		return
	}
	// the restore scanner over the same bytes (cut inside, so that records are scanned one by one)
	w.s3.Poke(segKey, bad)
	w.s3.Poke(strings.TrimSuffix(segKey, ".kfs")+".index", g.idx)
	runtime.ReadMemStats(&before)
	_, _ = storage.RecoverTopicToTimestamp(context.Background(), kafsim.S3{St: w.s3}, storage.TopicRecoveryConfig{SourceNamespace: w6NS, SourceTopic: topic, TargetNamespace: w6NS, TargetTopic: topic + "-r", RestoreTo: time.UnixMilli(g.recs[len(g.recs)/2].ts)})
	runtime.ReadMemStats(&after)
	w.sim.Probe("c34.restore-call")
	if grew := after.TotalAlloc - before.TotalAlloc; grew > 64<<20 {
		w.sim.Fail("C34", "restore-unbounded-allocation", "restoring a %d-byte segment (%s) allocated %d MiB", len(bad), what, grew>>20)
	}
}
