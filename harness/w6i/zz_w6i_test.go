package processor

// W6i: the real iceberg-processor Run loop (polling on virtual time, lease claim
// and renewal, offset filtering, checkpoint commits) with the real S3 segment
// decoder over a simulated S3, the real etcd checkpoint store over the simulated
// etcd (or the real no-op store), a listing stub and a recording sink.
//
// C33: "The Iceberg, SQL and skeleton processors write every record of every
// completed segment to their sink at least once. A partition's checkpoint never
// moves past a record that has not been written. This holds for any sequence of
// transient listing, decoding, LFS, sink and checkpoint failures, and it includes
// the partition's first record at offset 0."

import (
	"bytes"
	"context"
	"encoding/json"
	"fmt"
	"io"
	"log"
	"math/rand/v2"
	"sort"
	"strings"
	"testing"
	"time"

	"github.com/aws/aws-sdk-go-v2/aws"
	"github.com/aws/aws-sdk-go-v2/service/s3"

	"github.com/KafScale/platform/addons/processors/iceberg-processor/internal/checkpoint"
	"github.com/KafScale/platform/addons/processors/iceberg-processor/internal/config"
	"github.com/KafScale/platform/addons/processors/iceberg-processor/internal/decoder"
	"github.com/KafScale/platform/addons/processors/iceberg-processor/internal/discovery"
	"github.com/KafScale/platform/addons/processors/iceberg-processor/internal/sink"
	"github.com/KafScale/platform/pkg/storage"

	"verif/sim/driver"
	"verif/sim/kbatch"
	"verif/sim/simetcd"
	"verif/sim/simrt"
	"verif/sim/sims3"
)

func TestSim(t *testing.T) { driver.Main(t, w6World) }

var w6World = driver.World{
	Name: "w6i-iceberg-processor",
	Gen:  w6Gen,
	Run:  w6Run,
	Real: []string{"iceberg-processor Processor.Run (poll loop, lease claim/renew/loss, filterRecords, commit), decoder.s3Decoder + decodeSegment, checkpoint.etcdStore (ClaimLease/RenewLease/LoadOffset/CommitOffset) and noopStore", "pkg/storage BuildSegment (writes the source segments)", "etcd clientv3 front half"},
	Stub: []string{"segment listing (stub of discovery.Lister over SimS3: listing errors, one segment hidden for a cycle as after a failed footer probe)", "S3 GetObject (SimS3)", "etcd server (SimEtcd)", "the Iceberg sink (recording sink that fails before or after taking effect)", "schema validator and LFS resolution (off)", "scheduler, clock"},
}

func pk[T any](r *rand.Rand, xs ...T) T { return xs[r.IntN(len(xs))] }

func w6Gen(r *rand.Rand, prop, tier string) *simrt.Case {
	if prop == "C07" || prop == "C34" {
		return w6GenDecode(r, prop)
	}
	c := &simrt.Case{Config: map[string]int64{}}
	cfg := c.Config
	cfg["seed"] = int64(r.Uint32())
	cfg["partitions"] = int64(1 + r.IntN(2))
	cfg["segments"] = int64(1 + r.IntN(4))
	cfg["first_base"] = pk[int64](r, 0, 0, 0, 5)
	cfg["noop_store"] = pk[int64](r, 0, 0, 1)
	cfg["poll_s"] = pk[int64](r, 1, 5)
	cfg["lease_ttl_s"] = pk[int64](r, 15, 30)
	cfg["late_segments"] = int64(r.IntN(3)) // segments that appear while the processor runs
	cfg["max_steps"] = 60000
	cfg["max_virtual_s"] = 4000
	c.Program = []simrt.Op{{Actor: 0, Kind: "run"}}
	for i := 0; i < pk(r, 0, 1, 1, 2, 3); i++ {
		switch r.IntN(8) {
		case 0:
			c.Faults = append(c.Faults, simrt.Fault{Kind: "lister.fail_before", Op: "lister.list", Nth: r.IntN(5), Count: 1 + r.IntN(2)})
		case 1:
			c.Faults = append(c.Faults, simrt.Fault{Kind: "lister.hide", Op: "lister.list", Nth: r.IntN(4), Arg: int64(r.IntN(8))})
		case 2:
			c.Faults = append(c.Faults, simrt.Fault{Kind: "s3.fail_before", Op: "s3.get", Nth: r.IntN(6), Count: 1 + r.IntN(2)})
		case 3:
			c.Faults = append(c.Faults, simrt.Fault{Kind: "sink.fail_before", Op: "sink.write", Nth: r.IntN(4), Count: 1 + r.IntN(2)})
		case 4:
			c.Faults = append(c.Faults, simrt.Fault{Kind: "sink.fail_after", Op: "sink.write", Nth: r.IntN(4)})
		case 5:
			c.Faults = append(c.Faults, simrt.Fault{Kind: "etcd.unavail", Op: pk(r, "etcd.put", "etcd.range", "etcd.txn", "etcd."), Nth: r.IntN(8), Count: 1 + r.IntN(2)})
		case 6:
			c.Faults = append(c.Faults, simrt.Fault{Kind: "etcd.timeout_applied", Op: "etcd.put", Nth: r.IntN(6)})
		default:
			c.Faults = append(c.Faults, simrt.Fault{Kind: "etcd.unavail", Op: "etcd.lease.keepalive", Nth: r.IntN(3), Count: 1 + r.IntN(3)})
		}
	}
	return c
}

type w6rec struct {
	off     int64
	ts      int64
	key     []byte
	value   []byte
	headers []kbatch.Header
}

type w6 struct {
	sim   *simrt.Sim
	c     *simrt.Case
	s3    *sims3.Store
	etcd  *simetcd.Server
	recs  map[int32][]w6rec // records of completed (visible) segments
	later []func()          // segments that become visible later
	next  map[int32]int64
	tcur  int64
	rnd   *rand.Rand
	// sink log
	delivered map[string]int // "part/offset" -> times written
	lastFault int            // virtual second of the last fault observation
	cancel    context.CancelFunc
	noop      bool
}

const (
	w6Topic  = "orders"
	w6Bucket = "bkt"
	w6NS     = "ns"
)

func (w *w6) cfg(n string, d int64) int64 { return w.c.Cfg(n, d) }

func w6Run(t *testing.T, c *simrt.Case, prop string, keepTrace bool) simrt.Result {
	log.SetOutput(io.Discard)
	w := &w6{c: c, recs: map[int32][]w6rec{}, next: map[int32]int64{}, delivered: map[string]int{}}
	res := simrt.Run(t, c, keepTrace, func(s *simrt.Sim) {
		w.sim = s
		w.setup()
	}, nil)
	simetcd.Install(nil)
	if len(res.Stats.TaskPanics) > 0 && res.Violation == nil && prop == "C34" && simrt.PanicInHarness(res.Stats.TaskPanics[0]) {
		res.Stats.Probes["HARNESS-PANIC"]++
	} else if len(res.Stats.TaskPanics) > 0 && res.Violation == nil && prop == "C34" {
		msg := res.Stats.TaskPanics[0]
		lines := strings.Split(msg, "\n")
		var keep []string
		for _, l := range lines {
			if (strings.Contains(l, "iceberg-processor/internal/") || strings.Contains(l, "platform/pkg/storage")) && !strings.Contains(l, "zz_w6i") {
				keep = append(keep, strings.TrimSpace(l))
			}
		}
		if len(keep) > 3 {
			keep = keep[:3]
		}
		res.Violation = &simrt.Violation{Property: "C34", Clause: "decoder-panicked", Detail: lines[0] + " @ " + strings.Join(keep, " <- ")}
	}
	if res.Violation != nil && res.Violation.Property != prop {
		res.Stats.Probes["foreign:"+res.Violation.Property+"/"+res.Violation.Clause]++
		res.Violation = nil
	}
	return res
}

// addSegment builds one segment for partition p; it becomes visible when the returned func runs.
func (w *w6) addSegment(p int32) func() {
	r := w.rnd
	var batches []storage.RecordBatch
	var recs []w6rec
	base := w.next[p]
	nb := 1 + r.IntN(3)
	for b := 0; b < nb; b++ {
		n := 1 + r.IntN(3)
		var krecs []kbatch.Record
		first, maxTs := int64(0), int64(0)
		for i := 0; i < n; i++ {
			w.tcur += int64(r.IntN(900)) - 100
			if i == 0 {
				first, maxTs = w.tcur, w.tcur
			}
			if w.tcur > maxTs {
				maxTs = w.tcur
			}
			off := w.next[p] + int64(i)
			rec := kbatch.Record{OffsetDelta: int32(i), TsDelta: w.tcur - first, Key: []byte(fmt.Sprintf("k-%d-%d", p, off)), Value: []byte(fmt.Sprintf("v-%d-%d-%d", p, off, r.IntN(1000)))}
			switch r.IntN(8) {
			case 0:
				rec.Key = nil
			case 1:
				rec.Value = nil
			case 2:
				rec.Value = []byte{}
			}
			for h := 0; h < r.IntN(3); h++ {
				hv := []byte(fmt.Sprintf("hv%d", r.IntN(9)))
				if r.IntN(4) == 0 {
					hv = nil
				}
				rec.Headers = append(rec.Headers, kbatch.Header{Key: fmt.Sprintf("h%d", h), Value: hv})
			}
			krecs = append(krecs, rec)
			recs = append(recs, w6rec{off: off, ts: w.tcur, key: rec.Key, value: rec.Value, headers: rec.Headers})
		}
		raw := kbatch.BuildRaw(w.next[p], int32(n-1), int32(n), first, maxTs, 0, kbatch.EncodeRecords(krecs))
		rb, err := storage.NewRecordBatchFromBytes(raw)
		if err != nil {
			w.sim.Fail("HARNESS", "setup", "%v", err)
			return func() {}
		}
		batches = append(batches, rb)
		w.next[p] += int64(n)
	}
	art, err := storage.BuildSegment(storage.SegmentWriterConfig{IndexIntervalMessages: int32(1 + r.IntN(3))}, batches, time.UnixMilli(w.tcur))
	if err != nil {
		w.sim.Fail("HARNESS", "setup", "%v", err)
		return func() {}
	}
	return func() {
		w.s3.Poke(fmt.Sprintf("%s/%s/%d/segment-%020d.kfs", w6NS, w6Topic, p, base), art.SegmentBytes)
		w.s3.Poke(fmt.Sprintf("%s/%s/%d/segment-%020d.index", w6NS, w6Topic, p, base), art.IndexBytes)
		w.recs[p] = append(w.recs[p], recs...)
	}
}

// ---- stubs

type w6lister struct{ w *w6 }

func (l w6lister) ListCompleted(ctx context.Context) ([]discovery.SegmentRef, error) {
	w := l.w
	out := simrt.IO(ctx, "lister.list", "", 2*time.Millisecond, nil)
	if out.Fault == "dead" {
		return nil, context.Canceled
	}
	if strings.HasSuffix(out.Fault, "fail_before") {
		return nil, fmt.Errorf("list objects: injected")
	}
	var refs []discovery.SegmentRef
	for _, k := range w.s3.Keys(w6NS + "/" + w6Topic + "/") {
		if !strings.HasSuffix(k, ".kfs") {
			continue
		}
		ik := strings.TrimSuffix(k, ".kfs") + ".index"
		if _, ok := w.s3.Peek(ik); !ok {
			continue
		}
		var p int32
		var base int64
		if n, _ := fmt.Sscanf(strings.TrimPrefix(k, w6NS+"/"+w6Topic+"/"), "%d/segment-%020d.kfs", &p, &base); n != 2 {
			continue
		}
		refs = append(refs, discovery.SegmentRef{Topic: w6Topic, Partition: p, BaseOffset: base, SegmentKey: k, IndexKey: ik})
	}
	sort.Slice(refs, func(i, j int) bool {
		if refs[i].Partition != refs[j].Partition {
			return refs[i].Partition < refs[j].Partition
		}
		return refs[i].BaseOffset < refs[j].BaseOffset
	})
	if out.Fault == "lister.hide" && len(refs) > 0 {
		// a failed footer probe of one segment. The real lister used to leave that segment out of the
		// listing for the cycle (which let the run loop commit past it: found with this stub, fixed in
		// the repo's listers); it now fails the whole listing, and so does this stub.
		w.sim.Probe("c33.footer-probe-failed")
		return nil, fmt.Errorf("probe footer of %s: injected", refs[int(out.Arg)%len(refs)].SegmentKey)
	}
	return refs, nil
}

type w6api struct{ w *w6 }

func (a w6api) GetObject(ctx context.Context, in *s3.GetObjectInput, _ ...func(*s3.Options)) (*s3.GetObjectOutput, error) {
	data, err := a.w.s3.Get(ctx, "get.object", aws.ToString(in.Key), nil)
	if err != nil {
		return nil, err
	}
	return &s3.GetObjectOutput{Body: io.NopCloser(bytes.NewReader(data)), ContentLength: aws.Int64(int64(len(data)))}, nil
}

type w6sink struct{ w *w6 }

func (s w6sink) Write(ctx context.Context, records []sink.Record) error {
	w := s.w
	if len(records) == 0 {
		return nil
	}
	out := simrt.IO(ctx, "sink.write", fmt.Sprintf("%d/%d", records[0].Partition, records[0].Offset), 3*time.Millisecond, func() {
		for _, r := range records {
			w.deliver(r)
		}
	})
	if out.Fault != "" && !strings.HasSuffix(out.Fault, "slow") {
		return fmt.Errorf("sink: injected %s", out.Fault)
	}
	return nil
}

func (s w6sink) Close(ctx context.Context) error { return nil }

func (w *w6) deliver(r sink.Record) {
	w.delivered[fmt.Sprintf("%d/%d", r.Partition, r.Offset)]++
	w.sim.Probe("c33.record-delivered")
	// what arrives must be the produced record (the decoder half of C07, judged under that id)
	for _, t := range w.recs[r.Partition] {
		if t.off != r.Offset {
			continue
		}
		same := t.ts == r.Timestamp && (t.key == nil) == (r.Key == nil) && bytes.Equal(t.key, r.Key) && (t.value == nil) == (r.Value == nil) && bytes.Equal(t.value, r.Value) && len(t.headers) == len(r.Headers)
		if same {
			for i := range t.headers {
				if t.headers[i].Key != r.Headers[i].Key || !bytes.Equal(t.headers[i].Value, r.Headers[i].Value) {
					same = false
				}
			}
		}
		if !same {
			w.sim.Fail("C07", "iceberg-decoder-record-differs", "partition %d offset %d: the sink received ts=%d key=%q value=%q headers=%d, produced was ts=%d key=%q value=%q headers=%d", r.Partition, r.Offset, r.Timestamp, r.Key, r.Value, len(r.Headers), t.ts, t.key, t.value, len(t.headers))
		}
		return
	}
	w.sim.Fail("C07", "iceberg-decoder-phantom-record", "partition %d: the sink received offset %d which no producer wrote", r.Partition, r.Offset)
}

// committed reads the checkpoint of partition p straight from the simulated etcd (-1: none).
func (w *w6) committed(p int32) int64 {
	v, ok := w.etcd.Snapshot("processors/offsets/")[fmt.Sprintf("processors/offsets/%s/%d", w6Topic, p)]
	if !ok {
		return -1
	}
	var st struct {
		Offset int64 `json:"offset"`
	}
	if json.Unmarshal([]byte(v), &st) != nil {
		return -1
	}
	return st.Offset
}

func (w *w6) stepInvariant() error {
	w.stepCheck()
	return nil
}

func (w *w6) stepCheck() {
	if w.noop {
		return
	}
	for p, recs := range w.recs {
		c := w.committed(p)
		if c < 0 {
			continue
		}
		for _, r := range recs {
			if r.off <= c && w.delivered[fmt.Sprintf("%d/%d", p, r.off)] == 0 {
				w.sim.Fail("C33", "checkpoint-past-unwritten-record", "partition %d: checkpoint is %d but offset %d was never written to the sink", p, c, r.off)
				return
			}
		}
	}
}

func (w *w6) faults() int {
	n := 0
	for _, v := range w.sim.Stats.FaultsFired {
		n += v
	}
	return n
}

func (w *w6) setup() {
	s := w.sim
	if w.cfg("decode_mode", 0) == 1 {
		w.runDecodeOps()
		return
	}
	w.rnd = rand.New(rand.NewPCG(uint64(w.cfg("seed", 1)), 17))
	w.tcur = 1_700_000_000_000
	w.s3 = sims3.New("s3", 300)
	w.etcd = simetcd.NewServer(s, 300)
	simetcd.Install(w.etcd)
	w.etcd.StartExpirer()
	w.noop = w.cfg("noop_store", 0) == 1
	np := int32(w.cfg("partitions", 1))
	for p := int32(0); p < np; p++ {
		w.next[p] = w.cfg("first_base", 0)
		for i := 0; i < 1+w.rnd.IntN(int(w.cfg("segments", 1))); i++ {
			w.addSegment(p)()
		}
	}
	for i := 0; i < int(w.cfg("late_segments", 0)); i++ {
		w.later = append(w.later, w.addSegment(int32(w.rnd.IntN(int(np)))))
	}
	if s.Failed() {
		return
	}
	cfg := config.Config{}
	cfg.S3.Bucket, cfg.S3.Namespace = w6Bucket, w6NS
	cfg.Processor.PollIntervalSeconds = int(w.cfg("poll_s", 5))
	cfg.Etcd.Endpoints = []string{"sim:2379"}
	cfg.Offsets.LeaseTTLSeconds = int(w.cfg("lease_ttl_s", 30))
	var store checkpoint.Store
	var err error
	if w.noop {
		store, err = checkpoint.New(cfg)
	} else {
		s.SetupNode = "processor"
		simetcd.NextClientName = "processor"
		store, err = checkpoint.NewEtcdStore(cfg)
		simetcd.NextClientName = ""
	}
	if err != nil {
		s.Fail("HARNESS", "setup", "store: %v", err)
		return
	}
	p := &Processor{cfg: cfg, discover: w6lister{w}, decode: decoder.NewForSim(w6api{w}, w6Bucket), store: store, sink: w6sink{w}, mappingByTopic: map[string]config.Mapping{}}
	ctx, cancel := context.WithCancel(context.Background())
	w.cancel = cancel
	s.OnStop(cancel)
	s.OnStep(w.stepInvariant)
	s.Spawn("processor", "processor", false, func() { _ = p.Run(ctx) })
	s.Spawn("driver", "", true, w.drive)
}

func (w *w6) drive() {
	// segments that appear while the processor is running
	for _, show := range w.later {
		simrt.Sleep(time.Duration(3+w.rnd.IntN(20)) * time.Second)
		show()
		w.sim.Probe("c33.segment-appeared-late")
	}
	// wait until the faults have been quiet for a while (bounded), then give the processor time
	quietSince := w.sim.Now()
	seen := w.faults()
	for i := 0; i < 400; i++ {
		simrt.Sleep(5 * time.Second)
		if f := w.faults(); f != seen {
			seen = f
			quietSince = w.sim.Now()
		}
		if w.sim.Now()-quietSince >= 150*time.Second {
			break
		}
		if w.sim.Failed() {
			return
		}
	}
	worked := w.leased()
	w.cancel()
	simrt.Sleep(time.Second)
	w.judgeCompleteness(worked)
}

// leased: the partition(s) whose lease the processor holds right now.
func (w *w6) leased() map[int32]bool {
	worked := map[int32]bool{}
	if w.noop {
		// the no-op store grants whatever partition was listed first when the processor started and
		// never takes it back: that is the partition with deliveries (partition 0 if there are none)
		for k := range w.delivered {
			var p int32
			var o int64
			fmt.Sscanf(k, "%d/%d", &p, &o)
			worked[p] = true
		}
		if len(worked) == 0 {
			worked[0] = true
		}
		return worked
	}
	for k := range w.etcd.Snapshot("processors/leases/") {
		var p int32
		if n, _ := fmt.Sscanf(strings.TrimPrefix(k, "processors/leases/"+w6Topic+"/"), "%d", &p); n == 1 {
			worked[p] = true
		}
	}
	return worked
}

// judgeCompleteness: after 150 fault-free virtual seconds (>= 30 polling cycles) every record of the
// partition the processor works on has reached the sink.
func (w *w6) judgeCompleteness(worked map[int32]bool) {
	// the processor pins itself to one partition at a time (other replicas take the others): only the
	// partition whose lease it held through the quiet period is judged
	if len(worked) == 0 {
		w.sim.Probe("c33.no-lease-at-end")
		return
	}
	w.sim.Probe("c33.completeness-judged")
	var ps []int32
	for p := range worked {
		ps = append(ps, p)
	}
	sort.Slice(ps, func(i, j int) bool { return ps[i] < ps[j] })
	for _, p := range ps {
		for _, r := range w.recs[p] {
			if w.delivered[fmt.Sprintf("%d/%d", p, r.off)] == 0 {
				clause := "record-never-delivered"
				if r.off == 0 {
					clause = "offset-0-never-delivered"
				}
				w.sim.Fail("C33", clause, "partition %d: offset %d of a completed segment never reached the sink although the last %s were free of faults (checkpoint %d, %d records in the partition)", p, r.off, "150 virtual seconds", w.committed(p), len(w.recs[p]))
				return
			}
		}
	}
}
