package cache

// W10: the real SegmentCache under 2-5 simulated reader/writer tasks.
//
// C09: "The segment cache never holds more bytes than its capacity after any
// operation. A lookup returns exactly the bytes most recently stored under
// that key, or a miss. Bytes already handed to a reader never change
// afterwards."

import (
	"bytes"
	"fmt"
	"math/rand/v2"
	"sort"
	"testing"
	"time"

	"github.com/anishathalye/porcupine"

	"verif/sim/driver"
	"verif/sim/simrt"
)

func TestSim(t *testing.T) { driver.Main(t, w10World) }

var w10World = driver.World{
	Name: "w10-cache",
	Gen:  w10Gen,
	Run:  w10Run,
	Real: []string{"pkg/cache SegmentCache"},
	Stub: []string{"callers (simulated reader/writer tasks)", "scheduler (simulator)"},
}

func w10Gen(r *rand.Rand, prop, tier string) *simrt.Case {
	c := &simrt.Case{Config: map[string]int64{}}
	c.Config["capacity"] = []int64{1, 16, 40, 100, 1000}[r.IntN(5)]
	nt := 2 + r.IntN(4)
	nops := 8 + r.IntN(40)
	if tier == "thorough" {
		nops = 8 + r.IntN(52)
	}
	for i := 0; i < nops; i++ {
		op := simrt.Op{Actor: r.IntN(nt), A: int64(r.IntN(2)), B: int64(r.IntN(2)), C: int64(r.IntN(3))}
		switch r.IntN(5) {
		case 0, 1:
			op.Kind = "set"
			op.D = []int64{0, 1, 8, 20, 39, 40, 41, 90, 250}[r.IntN(9)] // value length, up to > 2x capacity
		case 2, 3:
			op.Kind = "get"
		default:
			op.Kind = "get-keep" // keeps the returned slice and re-checks it after later operations
		}
		c.Program = append(c.Program, op)
	}
	return c
}

type w10op struct {
	kind      string
	key       string
	val       []byte
	hit       bool
	call, ret int
	client    int
}

type kept struct {
	key  string
	live []byte
	snap []byte
	step int
}

func w10Run(t *testing.T, c *simrt.Case, prop string, keepTrace bool) simrt.Result {
	var cache *SegmentCache
	var hist []*w10op
	var keeps []*kept
	var s *simrt.Sim
	seq := 0
	check := func(after string) {
		// structural invariants, evaluated by the task that just finished an operation
		// (no other task is inside the cache: every critical section runs without parking)
		total := 0
		n := 0
		for e := cache.ll.Front(); e != nil; e = e.Next() {
			ent := e.Value.(*cacheEntry)
			total += len(ent.data)
			n++
			if cache.items[ent.key] != e {
				s.Fail("C09", "map-list-disagree", "after %s: list entry %q is not the map's entry", after, ent.key)
				return
			}
		}
		if n != len(cache.items) {
			s.Fail("C09", "map-list-disagree", "after %s: %d list entries, %d map entries", after, n, len(cache.items))
			return
		}
		if total != cache.size {
			s.Fail("C09", "size-accounting", "after %s: size field %d, entries hold %d bytes", after, cache.size, total)
			return
		}
		if cache.size > cache.capacity {
			s.Fail("C09", "over-capacity", "after %s: cache holds %d bytes, capacity %d", after, cache.size, cache.capacity)
			return
		}
		for _, k := range keeps {
			if !bytes.Equal(k.live, k.snap) {
				s.Fail("C09", "handed-out-bytes-changed", "bytes returned by GetSegment(%s) at step %d read %q then, %q after %s", k.key, k.step, k.snap, k.live, after)
				return
			}
		}
	}
	res := simrt.Run(t, c, keepTrace, func(sim *simrt.Sim) {
		s = sim
		cache = NewSegmentCache(int(c.Cfg("capacity", 40)))
		actors := map[int][]simrt.Op{}
		var ids []int
		for _, op := range c.Program {
			if _, ok := actors[op.Actor]; !ok {
				ids = append(ids, op.Actor)
			}
			actors[op.Actor] = append(actors[op.Actor], op)
		}
		sort.Ints(ids)
		for _, id := range ids {
			id, ops := id, actors[id]
			s.Spawn(fmt.Sprintf("user%02d", id), "", true, func() {
				for _, op := range ops {
					if s.Failed() {
						return
					}
					topic, part, base := fmt.Sprintf("t%d", op.A), int32(op.B), op.C
					key := fmt.Sprintf("%s/%d/%d", topic, part, base)
					rec := &w10op{kind: op.Kind, key: key, client: id}
					switch op.Kind {
					case "set":
						seq++
						val := bytes.Repeat([]byte{byte('A' + seq%26)}, int(op.D))
						if len(val) >= 4 {
							copy(val, fmt.Sprintf("%04d", seq)) // unique values
						}
						rec.val = append([]byte(nil), val...)
						rec.call = s.Step()
						cache.SetSegment(topic, part, base, val)
						rec.ret = s.Step()
						hist = append(hist, rec)
						check("SetSegment(" + key + ")")
					default:
						rec.call = s.Step()
						data, ok := cache.GetSegment(topic, part, base)
						rec.ret = s.Step()
						rec.hit = ok
						rec.val = append([]byte(nil), data...)
						hist = append(hist, rec)
						if ok && op.Kind == "get-keep" {
							keeps = append(keeps, &kept{key: key, live: data, snap: append([]byte(nil), data...), step: s.Step()})
							s.Probe("c09.kept-slice")
						}
						check("GetSegment(" + key + ")")
					}
					simrt.Yield("between-ops")
				}
			})
		}
	}, func(sim *simrt.Sim) {
		check("the end of the run")
		if sim.Failed() {
			return
		}
		// linearizability of the recorded history against "latest Set or miss"
		var ops []porcupine.Operation
		for _, h := range hist {
			ops = append(ops, porcupine.Operation{ClientId: h.client, Input: h, Call: int64(h.call), Output: h, Return: int64(h.ret) + 1})
		}
		model := porcupine.Model{
			Partition: func(history []porcupine.Operation) [][]porcupine.Operation {
				by := map[string][]porcupine.Operation{}
				var keys []string
				for _, o := range history {
					k := o.Input.(*w10op).key
					if _, ok := by[k]; !ok {
						keys = append(keys, k)
					}
					by[k] = append(by[k], o)
				}
				sort.Strings(keys)
				var out [][]porcupine.Operation
				for _, k := range keys {
					out = append(out, by[k])
				}
				return out
			},
			Init: func() interface{} { return "" },
			Step: func(state, input, output interface{}) (bool, interface{}) {
				o := input.(*w10op)
				if o.kind == "set" {
					return true, "v:" + string(o.val)
				}
				if !o.hit {
					return true, state // a miss is always allowed (eviction)
				}
				return state.(string) == "v:"+string(o.val), state
			},
			Equal: func(a, b interface{}) bool { return a.(string) == b.(string) },
		}
		switch porcupine.CheckOperationsTimeout(model, ops, 10*time.Second) {
		case porcupine.Illegal:
			sim.Fail("C09", "not-linearizable", "the history of %d cache operations has no linearization under 'GetSegment returns the latest SetSegment or a miss'", len(ops))
		case porcupine.Unknown:
			sim.Probe("c09.porcupine-unknown")
		default:
			sim.Probe("c09.porcupine-ok")
		}
	})
	return res
}
