package processor

// W6k: the skeleton processor's real Run loop (the template the other processors were
// copied from: polling on virtual time, lease claim, renewal and loss, offset
// filtering, per-topic sink lock, checkpoint commits). The skeleton ships
// placeholders for everything around the loop, so the lister, the decoder, the
// checkpoint store and the sink are stubs here (over the simulated bucket, with
// injected failures); what runs real is the loop. (Third world of C33.)
//
// C33: "The Iceberg, SQL and skeleton processors write every record of every
// completed segment to their sink at least once. A partition's checkpoint never
// moves past a record that has not been written. This holds for any sequence of
// transient listing, decoding, LFS, sink and checkpoint failures, and it includes
// the partition's first record at offset 0."

import (
	"context"
	"fmt"
	"math/rand/v2"
	"sort"
	"strings"
	"testing"
	"time"

	"github.com/KafScale/platform/addons/processors/skeleton/internal/checkpoint"
	"github.com/KafScale/platform/addons/processors/skeleton/internal/config"
	"github.com/KafScale/platform/addons/processors/skeleton/internal/decoder"
	"github.com/KafScale/platform/addons/processors/skeleton/internal/discovery"
	"github.com/KafScale/platform/addons/processors/skeleton/internal/sink"

	"verif/sim/driver"
	"verif/sim/kbatch"
	"verif/sim/kseg"
	"verif/sim/simrt"
	"verif/sim/sims3"
)

func TestSim(t *testing.T) { driver.Main(t, w6kWorld) }

var w6kWorld = driver.World{
	Name: "w6k-skeleton-processor",
	Gen:  w6kGen,
	Run:  w6kRun,
	Real: []string{"skeleton Processor.Run (poll loop, lease claim/renew/loss, mapBatches, filterRecords, topic locker, commit) and its no-op checkpoint store"},
	Stub: []string{"segment lister (over the simulated bucket; listing and footer-probe failures fail the listing)", "segment decoder (independent parser of the documented layout; download failures)", "the broker's segment writer (independent builder)", "the checkpoint store (in-memory leases with expiry and offsets; calls fail before or after taking effect)", "the sink (recording; fails before or after taking effect)", "scheduler, clock"},
}

const (
	w6pNS    = "prod"
	w6pTopic = "orders"
)

func pkp[T any](r *rand.Rand, xs ...T) T { return xs[r.IntN(len(xs))] }

func w6kGen(r *rand.Rand, prop, tier string) *simrt.Case {
	c := &simrt.Case{Config: map[string]int64{}}
	cfg := c.Config
	cfg["seed"] = int64(r.Uint32())
	cfg["partitions"] = int64(1 + r.IntN(2))
	cfg["segments"] = int64(1 + r.IntN(4))
	cfg["first_base"] = pkp[int64](r, 0, 0, 0, 5)
	cfg["noop_store"] = pkp[int64](r, 0, 0, 0, 1)
	cfg["replicas"] = pkp[int64](r, 1, 1, 2)
	cfg["stop_one_s"] = pkp[int64](r, 0, 0, 7, 23) // a replica is stopped after this many seconds (0: never)
	cfg["lease_ttl_s"] = pkp[int64](r, 15, 30)
	cfg["late_segments"] = int64(r.IntN(3))
	cfg["max_steps"] = 60000
	cfg["max_virtual_s"] = 4000
	c.Program = []simrt.Op{{Actor: 0, Kind: "run"}}
	for i := 0; i < pkp(r, 0, 1, 1, 2, 3); i++ {
		switch r.IntN(8) {
		case 0:
			c.Faults = append(c.Faults, simrt.Fault{Kind: "lister.fail_before", Op: "lister.list", Nth: r.IntN(5), Count: 1 + r.IntN(2)})
		case 1:
			c.Faults = append(c.Faults, simrt.Fault{Kind: "lister.probe_failed", Op: "lister.list", Nth: r.IntN(4), Arg: int64(r.IntN(8))})
		case 2:
			c.Faults = append(c.Faults, simrt.Fault{Kind: "s3.fail_before", Op: "s3.get.segment", Nth: r.IntN(6), Count: 1 + r.IntN(2)})
		case 3:
			c.Faults = append(c.Faults, simrt.Fault{Kind: "sink.fail_before", Op: "sink.write", Nth: r.IntN(4), Count: 1 + r.IntN(2)})
		case 4:
			c.Faults = append(c.Faults, simrt.Fault{Kind: "sink.fail_after", Op: "sink.write", Nth: r.IntN(4)})
		case 5:
			c.Faults = append(c.Faults, simrt.Fault{Kind: "ckpt.fail_before", Op: pkp(r, "ckpt.commit", "ckpt.load", "ckpt.claim", "ckpt."), Nth: r.IntN(8), Count: 1 + r.IntN(2)})
		case 6:
			c.Faults = append(c.Faults, simrt.Fault{Kind: "ckpt.fail_after", Op: "ckpt.commit", Nth: r.IntN(6)})
		default:
			c.Faults = append(c.Faults, simrt.Fault{Kind: "ckpt.fail_before", Op: "ckpt.renew", Nth: r.IntN(3), Count: 1 + r.IntN(3)})
		}
	}
	return c
}

type w6prec struct {
	off   int64
	value []byte
}

type w6p struct {
	sim       *simrt.Sim
	c         *simrt.Case
	store     *sims3.Store
	recs      map[int32][]w6prec
	later     []func()
	next      map[int32]int64
	rnd       *rand.Rand
	delivered map[string]int
	noop      bool
	ckpt      *w6pStore
	cancels   []context.CancelFunc
	stopped   map[int]bool
}

func (w *w6p) cfg(n string, d int64) int64 { return w.c.Cfg(n, d) }

func w6kRun(t *testing.T, c *simrt.Case, prop string, keepTrace bool) simrt.Result {
	w := &w6p{c: c, recs: map[int32][]w6prec{}, next: map[int32]int64{}, delivered: map[string]int{}, stopped: map[int]bool{}}
	res := simrt.Run(t, c, keepTrace, func(s *simrt.Sim) {
		w.sim = s
		w.setup()
	}, nil)
	if res.Violation != nil && res.Violation.Property != prop {
		res.Stats.Probes["foreign:"+res.Violation.Property+"/"+res.Violation.Clause]++
		res.Violation = nil
	}
	return res
}

func (w *w6p) addSegment(p int32) func() {
	r := w.rnd
	var raws [][]byte
	var recs []w6prec
	base := w.next[p]
	tcur := int64(1_700_000_000_000)
	for b := 0; b < 1+r.IntN(3); b++ {
		n := 1 + r.IntN(3)
		var krecs []kbatch.Record
		first, maxTs := int64(0), int64(0)
		for i := 0; i < n; i++ {
			tcur += int64(r.IntN(900)) - 100
			if i == 0 {
				first, maxTs = tcur, tcur
			}
			if tcur > maxTs {
				maxTs = tcur
			}
			off := w.next[p] + int64(i)
			rec := kbatch.Record{OffsetDelta: int32(i), TsDelta: tcur - first, Key: []byte(fmt.Sprintf("k-%d-%d", p, off)), Value: []byte(fmt.Sprintf("v-%d-%d-%d", p, off, r.IntN(1000)))}
			if r.IntN(8) == 0 {
				rec.Key = nil
			}
			krecs = append(krecs, rec)
			recs = append(recs, w6prec{off: off, value: rec.Value})
		}
		raws = append(raws, kbatch.BuildRaw(w.next[p], int32(n-1), int32(n), first, maxTs, 0, kbatch.EncodeRecords(krecs)))
		w.next[p] += int64(n)
	}
	seg, idx, err := kseg.Build(raws, tcur, int32(1+r.IntN(3)))
	if err != nil {
		w.sim.Fail("HARNESS", "setup", "%v", err)
		return func() {}
	}
	return func() {
		w.store.Poke(fmt.Sprintf("%s/%s/%d/segment-%020d.kfs", w6pNS, w6pTopic, p, base), seg)
		w.store.Poke(fmt.Sprintf("%s/%s/%d/segment-%020d.index", w6pNS, w6pTopic, p, base), idx)
		w.recs[p] = append(w.recs[p], recs...)
	}
}

// ---- lister and decoder stubs

type w6kLister struct{ w *w6p }

func (l w6kLister) ListCompleted(ctx context.Context) ([]discovery.SegmentRef, error) {
	w := l.w
	out := simrt.IO(ctx, "lister.list", "", 2*time.Millisecond, nil)
	if out.Fault == "dead" {
		return nil, context.Canceled
	}
	if strings.HasSuffix(out.Fault, "fail_before") {
		return nil, fmt.Errorf("list objects: injected")
	}
	var refs []discovery.SegmentRef
	for _, k := range w.store.Keys(w6pNS + "/" + w6pTopic + "/") {
		if !strings.HasSuffix(k, ".kfs") {
			continue
		}
		ik := strings.TrimSuffix(k, ".kfs") + ".index"
		if _, ok := w.store.Peek(ik); !ok {
			continue
		}
		var p int32
		var base int64
		if n, _ := fmt.Sscanf(strings.TrimPrefix(k, w6pNS+"/"+w6pTopic+"/"), "%d/segment-%020d.kfs", &p, &base); n != 2 {
			continue
		}
		refs = append(refs, discovery.SegmentRef{Topic: w6pTopic, Partition: p, BaseOffset: base, SegmentKey: k, IndexKey: ik})
	}
	sort.Slice(refs, func(i, j int) bool {
		if refs[i].Partition != refs[j].Partition {
			return refs[i].Partition < refs[j].Partition
		}
		return refs[i].BaseOffset < refs[j].BaseOffset
	})
	if out.Fault == "lister.probe_failed" && len(refs) > 0 {
		// a failed footer probe says nothing about the segment: the listing fails (as the repaired listers do)
		w.sim.Probe("c33.skel-footer-probe-failed")
		return nil, fmt.Errorf("probe footer of %s: injected", refs[int(out.Arg)%len(refs)].SegmentKey)
	}
	return refs, nil
}

type w6kDecoder struct{ w *w6p }

func (d w6kDecoder) Decode(ctx context.Context, segmentKey, indexKey string) ([]decoder.Batch, error) {
	data, err := d.w.store.Get(ctx, "get.segment", segmentKey, nil)
	if err != nil {
		return nil, err
	}
	sg, err := kseg.Parse(data)
	if err != nil {
		return nil, err
	}
	var p int32
	var base int64
	fmt.Sscanf(strings.TrimPrefix(segmentKey, w6pNS+"/"+w6pTopic+"/"), "%d/segment-%020d.kfs", &p, &base)
	var out []decoder.Batch
	for _, b := range sg.Batches {
		for _, r := range b.Records {
			out = append(out, decoder.Batch{Topic: w6pTopic, Partition: p, Offset: b.BaseOffset + int64(r.OffsetDelta), Payload: r.Value})
		}
	}
	return out, nil
}

// ---- checkpoint store stub: leases with expiry on the virtual clock, one offset per partition

type w6pLease struct {
	owner   string
	expires time.Time
}

type w6pStore struct {
	w       *w6p
	ttl     time.Duration
	leases  map[string]w6pLease
	offsets map[string]int64
}

func (s *w6pStore) call(ctx context.Context, op, key string, apply func() error) error {
	var err error
	out := simrt.IO(ctx, "ckpt."+op, key, 2*time.Millisecond, func() { err = apply() })
	switch {
	case out.Fault == "dead" || out.Fault == "ctx_cancel":
		return context.Canceled
	case out.Fault != "" && !strings.HasSuffix(out.Fault, "slow"):
		return fmt.Errorf("checkpoint store: injected %s", out.Fault)
	}
	return err
}

func (s *w6pStore) ClaimLease(ctx context.Context, topic string, partition int32, ownerID string) (checkpoint.Lease, error) {
	key := fmt.Sprintf("%s/%d", topic, partition)
	lease := checkpoint.Lease{Topic: topic, Partition: partition, OwnerID: ownerID}
	err := s.call(ctx, "claim", key, func() error {
		if cur, ok := s.leases[key]; ok && cur.owner != ownerID && time.Now().Before(cur.expires) {
			return fmt.Errorf("lease held by %s", cur.owner)
		}
		s.leases[key] = w6pLease{owner: ownerID, expires: time.Now().Add(s.ttl)}
		lease.ExpiresAt = time.Now().Add(s.ttl).UnixMilli()
		return nil
	})
	return lease, err
}

func (s *w6pStore) RenewLease(ctx context.Context, lease checkpoint.Lease) error {
	key := fmt.Sprintf("%s/%d", lease.Topic, lease.Partition)
	return s.call(ctx, "renew", key, func() error {
		cur, ok := s.leases[key]
		if !ok || cur.owner != lease.OwnerID || !time.Now().Before(cur.expires) {
			return fmt.Errorf("lease lost")
		}
		s.leases[key] = w6pLease{owner: cur.owner, expires: time.Now().Add(s.ttl)}
		return nil
	})
}

func (s *w6pStore) ReleaseLease(ctx context.Context, lease checkpoint.Lease) error {
	key := fmt.Sprintf("%s/%d", lease.Topic, lease.Partition)
	return s.call(ctx, "release", key, func() error {
		if cur, ok := s.leases[key]; ok && cur.owner == lease.OwnerID {
			delete(s.leases, key)
		}
		return nil
	})
}

func (s *w6pStore) LoadOffset(ctx context.Context, topic string, partition int32) (checkpoint.OffsetState, error) {
	key := fmt.Sprintf("%s/%d", topic, partition)
	st := checkpoint.OffsetState{Topic: topic, Partition: partition, Offset: -1}
	err := s.call(ctx, "load", key, func() error {
		if o, ok := s.offsets[key]; ok {
			st.Offset = o
		}
		return nil
	})
	return st, err
}

func (s *w6pStore) CommitOffset(ctx context.Context, state checkpoint.OffsetState) error {
	key := fmt.Sprintf("%s/%d", state.Topic, state.Partition)
	return s.call(ctx, "commit", key, func() error {
		s.offsets[key] = state.Offset
		return nil
	})
}

// ---- sink stub

type w6pSink struct{ w *w6p }

func (s w6pSink) Write(ctx context.Context, records []sink.Record) error {
	w := s.w
	if len(records) == 0 {
		return nil
	}
	out := simrt.IO(ctx, "sink.write", fmt.Sprintf("%d/%d", records[0].Partition, records[0].Offset), 3*time.Millisecond, func() {
		for _, r := range records {
			w.deliver(r)
		}
	})
	if out.Fault != "" && !strings.HasSuffix(out.Fault, "slow") {
		return fmt.Errorf("sink: injected %s", out.Fault)
	}
	return nil
}

func (s w6pSink) Close(ctx context.Context) error { return nil }

func (w *w6p) deliver(r sink.Record) {
	w.delivered[fmt.Sprintf("%d/%d", r.Partition, r.Offset)]++
	w.sim.Probe("c33.skel-record-delivered")
	for _, t := range w.recs[r.Partition] {
		if t.off == r.Offset {
			if string(t.value) != string(r.Payload) || r.Topic != w6pTopic {
				w.sim.Fail("C07", "sql-decoder-record-differs", "partition %d offset %d: the sink received topic %q payload %q, produced was %q", r.Partition, r.Offset, r.Topic, r.Payload, t.value)
			}
			return
		}
	}
	w.sim.Fail("C07", "sql-decoder-phantom-record", "partition %d: the sink received offset %d which no producer wrote", r.Partition, r.Offset)
}

func (w *w6p) committed(p int32) int64 {
	if w.ckpt == nil {
		return -1
	}
	if o, ok := w.ckpt.offsets[fmt.Sprintf("%s/%d", w6pTopic, p)]; ok {
		return o
	}
	return -1
}

func (w *w6p) stepInvariant() error {
	if w.noop {
		return nil
	}
	for p, recs := range w.recs {
		c := w.committed(p)
		if c < 0 {
			continue
		}
		for _, r := range recs {
			if r.off <= c && w.delivered[fmt.Sprintf("%d/%d", p, r.off)] == 0 {
				w.sim.Fail("C33", "checkpoint-past-unwritten-record", "partition %d: checkpoint is %d but offset %d was never written to the sink", p, c, r.off)
				return nil
			}
		}
	}
	return nil
}

func (w *w6p) faults() int {
	n := 0
	for _, v := range w.sim.Stats.FaultsFired {
		n += v
	}
	return n
}

func (w *w6p) setup() {
	s := w.sim
	w.rnd = rand.New(rand.NewPCG(uint64(w.cfg("seed", 1)), 17))
	w.store = sims3.New("s3", 300)
	w.noop = w.cfg("noop_store", 0) == 1
	np := int32(w.cfg("partitions", 1))
	for p := int32(0); p < np; p++ {
		w.next[p] = w.cfg("first_base", 0)
		for i := 0; i < 1+w.rnd.IntN(int(w.cfg("segments", 1))); i++ {
			w.addSegment(p)()
		}
	}
	for i := 0; i < int(w.cfg("late_segments", 0)); i++ {
		w.later = append(w.later, w.addSegment(int32(w.rnd.IntN(int(np)))))
	}
	if s.Failed() {
		return
	}
	cfg := config.Config{}
	var store checkpoint.Store
	replicas := int(w.cfg("replicas", 1))
	if w.noop {
		store = checkpoint.New()
		replicas = 1
	} else {
		w.ckpt = &w6pStore{w: w, ttl: time.Duration(w.cfg("lease_ttl_s", 30)) * time.Second, leases: map[string]w6pLease{}, offsets: map[string]int64{}}
		store = w.ckpt
	}
	s.OnStep(w.stepInvariant)
	for i := 0; i < replicas; i++ {
		p := &Processor{cfg: cfg, discover: w6kLister{w}, decode: w6kDecoder{w}, store: store, sink: w6pSink{w}, locks: newTopicLocker()}
		if !w.noop {
			// each replica claims under its own identity (Run uses the host name)
			p.store = w6pOwned{Store: store, owner: fmt.Sprintf("replica-%d", i)}
		}
		ctx, cancel := context.WithCancel(context.Background())
		w.cancels = append(w.cancels, cancel)
		s.OnStop(cancel)
		node := fmt.Sprintf("processor%d", i)
		s.Spawn(node, node, false, func() { _ = p.Run(ctx) })
	}
	s.Spawn("driver", "", true, w.drive)
}

// w6pOwned gives a replica its own owner id (all replicas run on one simulated host name).
type w6pOwned struct {
	checkpoint.Store
	owner string
}

func (o w6pOwned) ClaimLease(ctx context.Context, topic string, partition int32, _ string) (checkpoint.Lease, error) {
	return o.Store.ClaimLease(ctx, topic, partition, o.owner)
}

func (w *w6p) drive() {
	stopAt := w.cfg("stop_one_s", 0)
	if stopAt > 0 && len(w.cancels) > 1 {
		w.sim.Spawn("stopper", "", true, func() {
			simrt.Sleep(time.Duration(stopAt) * time.Second)
			victim := w.rnd.IntN(len(w.cancels))
			w.stopped[victim] = true
			w.cancels[victim]()
			w.sim.Probe("c33.skel-replica-stopped")
		})
	}
	for _, show := range w.later {
		simrt.Sleep(time.Duration(3+w.rnd.IntN(20)) * time.Second)
		show()
		w.sim.Probe("c33.skel-segment-appeared-late")
	}
	quietSince := w.sim.Now()
	seen := w.faults()
	for i := 0; i < 400; i++ {
		simrt.Sleep(5 * time.Second)
		if f := w.faults(); f != seen {
			seen = f
			quietSince = w.sim.Now()
		}
		if w.sim.Now()-quietSince >= 150*time.Second && w.sim.Now() >= time.Duration(stopAt+150)*time.Second {
			break
		}
		if w.sim.Failed() {
			return
		}
	}
	worked := w.leased()
	for _, c := range w.cancels {
		c()
	}
	simrt.Sleep(time.Second)
	w.judgeCompleteness(worked)
}

// leased: the partitions whose lease a live replica holds at the end of the quiet period.
func (w *w6p) leased() map[int32]bool {
	worked := map[int32]bool{}
	if w.noop {
		for k := range w.delivered {
			var p int32
			var o int64
			fmt.Sscanf(k, "%d/%d", &p, &o)
			worked[p] = true
		}
		if len(worked) == 0 {
			worked[0] = true
		}
		return worked
	}
	for k, l := range w.ckpt.leases {
		var p int32
		if n, _ := fmt.Sscanf(strings.TrimPrefix(k, w6pTopic+"/"), "%d", &p); n != 1 {
			continue
		}
		var id int
		fmt.Sscanf(l.owner, "replica-%d", &id)
		if time.Now().Before(l.expires) && !w.stopped[id] {
			worked[p] = true
		}
	}
	return worked
}

func (w *w6p) judgeCompleteness(worked map[int32]bool) {
	if len(worked) == 0 {
		w.sim.Probe("c33.skel-no-lease-at-end")
		return
	}
	w.sim.Probe("c33.skel-completeness-judged")
	var ps []int32
	for p := range worked {
		ps = append(ps, p)
	}
	sort.Slice(ps, func(i, j int) bool { return ps[i] < ps[j] })
	for _, p := range ps {
		for _, r := range w.recs[p] {
			if w.delivered[fmt.Sprintf("%d/%d", p, r.off)] == 0 {
				clause := "record-never-delivered"
				if r.off == 0 {
					clause = "offset-0-never-delivered"
				}
				w.sim.Fail("C33", clause, "skeleton processor, partition %d: offset %d of a completed segment never reached the sink although the last 150 virtual seconds were free of faults (checkpoint %d, %d records in the partition)", p, r.off, w.committed(p), len(w.recs[p]))
				return
			}
		}
	}
}
