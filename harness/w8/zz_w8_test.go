package console

// W8: the real console mux (auth manager, rate limiter, protected handlers)
// driven by simulated browser clients on virtual time.
//
// C38: "Every protected console endpoint answers a request only if it carries a
// session token issued by a successful login that has not expired or been
// logged out. Other requests are rejected. A client address gets at most the
// configured number of login attempts in any sliding window."

import (
	"fmt"
	"math/rand/v2"
	"net/http"
	"net/http/httptest"
	"sort"
	"strings"
	"testing"
	"time"

	"verif/sim/driver"
	"verif/sim/simrt"
)

func TestSim(t *testing.T) { driver.Main(t, w8World) }

var w8World = driver.World{
	Name: "w8-console",
	Gen:  w8Gen,
	Run:  w8Run,
	Real: []string{"internal/console NewMux, authManager (login/logout/session/requireAuth), loginRateLimiter, status handlers"},
	Stub: []string{"HTTP transport (handlers invoked with httptest recorders)", "browser clients", "scheduler, clock (simulator)"},
}

const (
	w8TTL    = 12 * time.Hour
	w8Window = time.Minute
	w8Limit  = 20
)

var w8Protected = []string{"/ui/api/status", "/ui/api/status/topics", "/ui/api/status/topics/x"}

func w8Gen(r *rand.Rand, prop, tier string) *simrt.Case {
	c := &simrt.Case{Config: map[string]int64{"max_virtual_s": 3_000_000}}
	ncl := 1 + r.IntN(4)
	sharedAddr := r.IntN(2) == 0
	for cl := 0; cl < ncl; cl++ {
		n := 4 + r.IntN(16)
		burst := r.IntN(3) == 0 || (sharedAddr && r.IntN(2) == 0)
		if burst {
			n = 20 + r.IntN(30)
		}
		for i := 0; i < n; i++ {
			op := simrt.Op{Actor: cl, A: int64(r.IntN(3)), B: int64(r.IntN(6)), C: int64(r.IntN(len(w8Protected)))}
			if burst {
				op.A = int64(cl % 3) // one address hammering
				if sharedAddr {
					op.A = 0 // several connections of one address hammering at the same time
				}
			}
			switch x := r.IntN(10); {
			case burst && x < 8:
				op.Kind, op.D = "login", int64(r.IntN(3)) // mostly bad credentials, hammering
			case x < 3:
				op.Kind, op.D = "login", int64(r.IntN(4))
			case x < 7:
				op.Kind = "get"
				if r.IntN(4) == 0 {
					op.Kind = "session" // the UI's "am I logged in?" poll, with whatever cookie the request carries
				}
			case x < 8:
				op.Kind = "logout"
			default:
				op.Kind = "sleep"
				op.D = []int64{1, 500, 3000, 59000, 61000, 3600_000, 43_199_000, 43_201_000, 90_000_000}[r.IntN(9)]
			}
			c.Program = append(c.Program, op)
		}
	}
	if r.IntN(4) == 0 {
		// handlers held back at a lock of the auth manager or the rate limiter (a goroutine that does not get the CPU):
		// requests then take time, cross expiry instants and overlap each other for longer
		for k := 0; k < 1+r.IntN(3); k++ {
			c.Faults = append(c.Faults, simrt.Fault{Kind: "sched.stall", Op: "sched.lock", Nth: r.IntN(120), Count: 1,
				Arg: []int64{1e6, 400e6, 1500e6, 3000e6, 61000e6}[r.IntN(5)]})
		}
	}
	return c
}

// A request takes no virtual time unless its handler is held back (sched.stall), so the instants the
// server reads its clock at are only known to lie between the call and its return.
type w8tok struct {
	issued   time.Duration // login called
	expiry   time.Duration // earliest possible expiry (issued at the call)
	expiryHi time.Duration // latest possible expiry (issued at the return)
	outCall  int // step at which a logout of it was invoked (0 = never)
	outRet   int
}

type w8login struct {
	addr string
	t    time.Duration // called
	tRet time.Duration // returned
}

func w8Run(t *testing.T, c *simrt.Case, prop string, keepTrace bool) simrt.Result {
	return simrt.Run(t, c, keepTrace, func(s *simrt.Sim) {
		mux, err := NewMux(ServerOptions{Auth: AuthConfig{Username: "admin", Password: "s3cret"}})
		if err != nil {
			s.Fail("HARNESS", "setup", "NewMux: %v", err)
			return
		}
		tokens := map[string]*w8tok{}
		var tokenList []string
		var processed []w8login
		xff := 0
		actors := map[int][]simrt.Op{}
		var ids []int
		for _, op := range c.Program {
			if _, ok := actors[op.Actor]; !ok {
				ids = append(ids, op.Actor)
			}
			actors[op.Actor] = append(actors[op.Actor], op)
		}
		sort.Ints(ids)
		for _, id := range ids {
			id, ops := id, actors[id]
			s.Spawn(fmt.Sprintf("browser%02d", id), "", true, func() {
				mine := ""
				for _, op := range ops {
					if s.Failed() {
						return
					}
					addr := fmt.Sprintf("10.0.0.%d:%d", 1+op.A, 40000+id)
					host := fmt.Sprintf("10.0.0.%d", 1+op.A)
					// which cookie this request carries
					cookie := ""
					switch op.B {
					case 0:
						cookie = mine
					case 1:
						if len(tokenList) > 0 {
							cookie = tokenList[int(op.C)%len(tokenList)] // someone's token, possibly expired or logged out
						}
					case 2:
						cookie = "forged-" + fmt.Sprint(op.C)
					case 3:
						cookie = ""
					default:
						cookie = mine
					}
					do := func(method, path, body string) *httptest.ResponseRecorder {
						req := httptest.NewRequest(method, path, strings.NewReader(body))
						req.RemoteAddr = addr
						if op.Kind == "login" && op.C == 2 {
							// a client-supplied forwarding header, different on every request: the peer address is
							// what identifies "a client address"
							xff++
							req.Header.Set("X-Forwarded-For", fmt.Sprintf("198.51.100.%d, 10.9.9.9", xff%250))
							req.Header.Set("X-Real-IP", fmt.Sprintf("198.51.100.%d", xff%250))
						}
						if cookie != "" {
							req.AddCookie(&http.Cookie{Name: sessionCookieName, Value: cookie})
						}
						rec := httptest.NewRecorder()
						mux.ServeHTTP(rec, req)
						return rec
					}
					switch op.Kind {
					case "sleep":
						simrt.Sleep(time.Duration(op.D) * time.Millisecond)
					case "login":
						body := `{"username":"admin","password":"s3cret"}`
						switch op.D {
						case 1:
							body = `{"username":"admin","password":"nope"}`
						case 2:
							body = `{"username":"","password":""}`
						case 3:
							body = `{not json`
						}
						now := s.Now()
						rec := do(http.MethodPost, "/ui/api/auth/login", body)
						s.Probe("c38.login")
						nowRet := s.Now()
						if nowRet != now {
							s.Probe("c38.login-took-time")
						}
						if rec.Code != http.StatusTooManyRequests {
							processed = append(processed, w8login{host, now, nowRet})
							// attempts that the limiter saw, whatever the exact instants, within the window ending at nowRet
							n := 0
							for _, p := range processed {
								if p.addr == host && p.t > nowRet-w8Window && p.tRet <= nowRet {
									n++
								}
							}
							if n > w8Limit {
								s.Fail("C38", "login-rate-limit-exceeded", "address %s had %d login attempts processed within one %v window ending at t=%v (limit %d)", host, n, w8Window, nowRet, w8Limit)
								return
							}
						} else {
							s.Probe("c38.rate-limited")
						}
						if rec.Code == http.StatusOK {
							if op.D != 0 {
								s.Fail("C38", "login-with-bad-credentials", "login with payload %s answered 200", body)
								return
							}
							for _, ck := range rec.Result().Cookies() {
								if ck.Name == sessionCookieName && ck.Value != "" {
									tokens[ck.Value] = &w8tok{issued: now, expiry: now + w8TTL, expiryHi: nowRet + w8TTL}
									tokenList = append(tokenList, ck.Value)
									mine = ck.Value
								}
							}
						}
					case "session":
						// not a protected endpoint and not judged itself: what matters is that polling it changes
						// nothing about which sessions the protected endpoints accept
						_ = do(http.MethodGet, "/ui/api/auth/session", "")
						s.Probe("c38.session-poll")
					case "logout":
						call := s.Step()
						if tk := tokens[cookie]; tk != nil && tk.outCall == 0 {
							tk.outCall = call
						}
						do(http.MethodPost, "/ui/api/auth/logout", "")
						if tk := tokens[cookie]; tk != nil && tk.outRet == 0 {
							tk.outRet = s.Step()
						}
					case "get":
						path := w8Protected[int(op.C)%len(w8Protected)]
						now, call := s.Now(), s.Step()
						method := http.MethodGet
						rec := do(method, path, "")
						ret, nowRet := s.Step(), s.Now()
						s.Probe("c38.protected-request")
						served := rec.Code != http.StatusUnauthorized && rec.Code != http.StatusServiceUnavailable
						tk := tokens[cookie]
						switch {
						case tk == nil:
							if served {
								s.Fail("C38", "served-without-issued-token", "%s with cookie %q (never issued) answered %d", path, cookie, rec.Code)
								return
							}
						case now > tk.expiryHi:
							s.Probe("c38.expired-token-used")
							if served {
								s.Fail("C38", "served-expired-session", "%s answered %d with a token issued at t=%v, %v after its 12h expiry", path, rec.Code, tk.issued, now-tk.expiryHi)
								return
							}
						case tk.outRet != 0 && tk.outRet < call:
							s.Probe("c38.logged-out-token-used")
							if served {
								s.Fail("C38", "served-logged-out-session", "%s answered %d with a token whose logout completed at step %d (request at step %d)", path, rec.Code, tk.outRet, call)
								return
							}
						case nowRet > tk.expiry:
							// the session may have lapsed while the request was being handled: either answer is fine
							s.Probe("c38.expiry-during-request")
						case tk.outCall != 0 && tk.outCall <= ret:
							// a logout overlaps this request: either answer is fine
						default:
							s.Probe("c38.live-token-used")
							if rec.Code == http.StatusUnauthorized {
								s.Fail("C38", "live-session-rejected", "%s answered 401 with a live token (issued t=%v, now t=%v, not logged out)", path, tk.issued, now)
								return
							}
						}
					}
				}
			})
		}
	}, nil)
}
