package broker

import (
	"context"
	"fmt"
	"sort"
	"strings"
	"time"

	"github.com/KafScale/platform/pkg/metadata"
	"github.com/KafScale/platform/pkg/protocol"
	"github.com/twmb/franz-go/pkg/kmsg"

	"verif/sim/kafsim"
	"verif/sim/simrt"
)

const (
	codeIllegalGen    = 22
	codeUnknownMember = 25
	codeRebalance     = 27
)

func (w *w2) finish() {
	switch w.prop {
	case "C12":
		w.judgeAssignments()
	case "C13":
		w.judgeFencing()
	case "C14":
		w.judgeJoins()
	case "C15":
		w.judgeFailoverContinuity()
	case "C16":
		w.judgeOffsets(false)
	case "C43":
		w.judgeExpiry()
	}
}

func (w *w2) answered(kind string) []*ev {
	var out []*ev
	for _, e := range w.hist {
		if e.answered && (kind == "" || e.kind == kind) {
			out = append(out, e)
		}
	}
	sort.SliceStable(out, func(i, j int) bool { return out[i].ret < out[j].ret })
	return out
}

// incarnation numbers the lives of a group: it counts the deletions of the
// group's record that the store had applied when a reply was produced.
func (w *w2) incarnation(group string, storeIdx int) int {
	log := w.store.Writes()
	n := 0
	for i := 0; i < storeIdx && i < len(log); i++ {
		if log[i].Method == "DeleteConsumerGroup" && log[i].Key == group && !log[i].Err {
			n++
		}
	}
	return n
}

// groupDeletedBetween reports whether the store applied a DeleteConsumerGroup
// for group between two positions of its write log (the group ceased to exist).
func (w *w2) groupDeletedBetween(group string, from, to int) bool {
	log := w.store.Writes()
	if to > len(log) {
		to = len(log)
	}
	for i := from; i < to; i++ {
		if log[i].Method == "DeleteConsumerGroup" && log[i].Key == group && !log[i].Err {
			return true
		}
	}
	return false
}

// ---------------------------------------------------------------- C16 (+ C13's "changes no committed offset")

type triple struct {
	group, topic string
	part         int32
}

// judgeOffsets: "An offset fetch returns, for each group, topic and partition,
// the offset and metadata of the last successful commit. Commits to one group,
// topic or partition never affect another, whatever characters the names
// contain. A partition with no commit returns -1."
//
// With fencingOnly it reports only the C13 clause (a rejected commit's offset
// must never become visible).
func (w *w2) judgeOffsets(fencingOnly bool) {
	byOffset := map[int64]*ev{}
	commits := map[triple][]*ev{}
	for _, e := range w.hist {
		if e.kind == "commit" {
			byOffset[e.offset] = e
			commits[triple{e.group, e.topic, e.part}] = append(commits[triple{e.group, e.topic, e.part}], e)
		}
	}
	faulty := len(w.sim.Stats.FaultsFired) > 0
	for _, f := range w.answered("ofetch") {
		if f.code != 0 {
			continue
		}
		w.sim.Probe("c16.fetch-judged")
		key := triple{f.group, f.topic, f.part}
		if src, ok := byOffset[f.offset]; ok && f.offset >= 1000 {
			if src.answered && src.code != 0 && src.invoke < f.ret {
				if src.deviant != "" || !faulty {
					w.sim.Fail("C13", "rejected-commit-visible", "commit of offset %d to %s/%s/%d by actor %d (%s identity) was rejected with code %d but OffsetFetch returned it", src.offset, src.group, src.topic, src.part, src.actor, src.deviant, src.code)
					return
				}
			}
			if fencingOnly {
				continue
			}
			if (triple{src.group, src.topic, src.part}) != key {
				w.sim.Fail("C16", "commit-crosstalk", "OffsetFetch(%q,%q,%d) returned offset %d which was committed to (%q,%q,%d)", f.group, f.topic, f.part, f.offset, src.group, src.topic, src.part)
				return
			}
		}
		if fencingOnly {
			continue
		}
		// acceptable values
		var before, concurrent []*ev
		for _, c := range commits[key] {
			applied := c.answered && c.code == 0
			maybe := !c.answered || (c.code != 0 && faulty && c.deviant == "")
			switch {
			case applied && c.ret < f.invoke:
				before = append(before, c)
			case (applied || maybe) && c.invoke <= f.ret:
				concurrent = append(concurrent, c)
			}
		}
		ok := false
		for _, c := range concurrent {
			if c.offset == f.offset && (c.meta == f.meta || !c.answered) {
				ok = true
			}
		}
		for _, c := range before {
			superseded := false
			for _, d := range before {
				if d != c && d.invoke > c.ret {
					superseded = true
				}
			}
			if !superseded && c.offset == f.offset && c.meta == f.meta {
				ok = true
			}
		}
		if len(before) == 0 {
			// nothing definitely committed: -1 (and empty metadata) is the required answer
			if f.offset == -1 && f.meta == "" {
				ok = true
			}
			if !ok && (len(concurrent) == 0 || (f.offset == 0 && f.meta == "")) {
				w.sim.FailSoft("C16", "never-committed-not-minus-one", "OffsetFetch(%q,%q,%d) with no commit ever made returned offset %d metadata %q (the Kafka protocol requires -1)", f.group, f.topic, f.part, f.offset, f.meta)
				continue
			}
		}
		if !ok {
			var want []string
			for _, c := range before {
				want = append(want, fmt.Sprintf("%d", c.offset))
			}
			w.sim.Fail("C16", "fetch-not-last-commit", "OffsetFetch(%q,%q,%d) returned offset %d metadata %q; commits that returned before it: [%s], %d concurrent", f.group, f.topic, f.part, f.offset, f.meta, strings.Join(want, ","), len(concurrent))
			return
		}
	}
}

// ---------------------------------------------------------------- C13

// judgeFencing: "An offset commit, heartbeat or sync from a member that is not
// in the group's current generation is rejected with an error and changes no
// committed offset. Generation numbers a group reports to its members never
// decrease while the group exists."
func (w *w2) judgeFencing() {
	groupOf := map[string]string{} // member id -> group it was issued for
	for _, e := range w.hist {
		if e.kind == "join" && e.answered && e.respMember != "" {
			groupOf[e.respMember] = e.group
		}
	}
	for _, e := range w.answered("") {
		if e.deviant == "" || (e.kind != "commit" && e.kind != "hb" && e.kind != "sync") {
			continue
		}
		stale := false
		why := ""
		switch e.deviant {
		case "alien":
			stale, why = true, "a member id the coordinator never issued"
		case "other":
			if g, ok := groupOf[e.reqMember]; ok && g != e.group {
				stale, why = true, "the id of a member of another group"
			}
		case "stale":
			stale, why = true, "a generation lower than the one its own latest join reply carried"
		case "anon":
			// no member id and generation -1: not a member of any generation. It is stale whenever the
			// group demonstrably had a live member of one generation on both sides of the request.
			if e.kind == "commit" && w.groupActiveAcross(e) {
				stale, why = true, "no member id and generation -1 while the group had an active member"
			}
		}
		if !stale {
			continue
		}
		w.sim.Probe("c13.stale-request")
		if e.code == 0 {
			w.sim.Fail("C13", "stale-request-accepted", "%s by actor %d using %s (member %q generation %d, group %q) succeeded", e.kind, e.actor, why, e.reqMember, e.reqGen, e.group)
			return
		}
	}
	w.judgeOffsets(true)
	if w.sim.Failed() {
		return
	}
	// generations never decrease while the group exists
	last := map[string]*ev{}
	for _, e := range w.answered("join") {
		if p := last[e.group]; p != nil && e.respGen < p.respGen && !w.groupDeletedBetween(e.group, 0, e.storeIdx) {
			w.sim.Fail("C13", "generation-decreased", "group %q reported generation %d (step %d) after generation %d (step %d) and was never deleted", e.group, e.respGen, e.ret, p.respGen, p.ret)
			return
		} else if p != nil && e.respGen < p.respGen && !w.groupDeletedBetween(e.group, p.storeIdx-1, e.storeIdx) && !w.groupDeletedBetween(e.group, 0, p.storeIdx) {
			w.sim.Fail("C13", "generation-decreased", "group %q reported generation %d after %d with no deletion of the group in between", e.group, e.respGen, p.respGen)
			return
		}
		last[e.group] = e
	}
}

// groupActiveAcross: some member of e's group had a request of one generation accepted before e was
// invoked and another one of the same generation accepted after e returned.
func (w *w2) groupActiveAcross(e *ev) bool {
	type mg struct {
		m string
		g int32
	}
	before := map[mg]bool{}
	for _, o := range w.hist {
		if o == e || !o.answered || o.code != 0 || o.group != e.group || o.deviant != "" || o.reqMember == "" {
			continue
		}
		if o.kind != "hb" && o.kind != "commit" && o.kind != "sync" {
			continue
		}
		if o.ret < e.invoke {
			before[mg{o.reqMember, o.reqGen}] = true
		}
	}
	for _, o := range w.hist {
		if o == e || !o.answered || o.code != 0 || o.group != e.group || o.deviant != "" {
			continue
		}
		if (o.kind == "hb" || o.kind == "commit" || o.kind == "sync") && o.invoke > e.ret && before[mg{o.reqMember, o.reqGen}] {
			return true
		}
	}
	return false
}

// ---------------------------------------------------------------- C14

// judgeJoins: "A join reply reports success only when every current member has
// joined the current generation. The leader named in any reply is a current
// member, and only the leader's successful join reply carries the member list.
// Once all members have rejoined and the leader has synced, every member's
// sync in that generation succeeds."
func (w *w2) judgeJoins() {
	joins := w.answered("join")
	left := map[string]int{} // member id -> step at which its leave returned NONE
	for _, e := range w.answered("leave") {
		if e.code == 0 {
			left[e.reqMember] = e.ret
		}
	}
	issued := map[string]bool{}
	for _, e := range joins {
		if e.respMember != "" {
			issued[e.respMember] = true
		}
	}
	for _, e := range joins {
		if len(e.members) > 0 {
			if e.code != 0 || e.respMember != e.leader {
				w.sim.Fail("C14", "member-list-outside-leader-success", "join reply to %q (code %d, leader %q) carries %d members", e.respMember, e.code, e.leader, len(e.members))
				return
			}
		}
		if e.leader != "" {
			if !issued[e.leader] {
				w.sim.Fail("C14", "leader-never-issued", "join reply names leader %q which no join reply ever issued", e.leader)
				return
			}
			if at, ok := left[e.leader]; ok && at < e.invoke {
				rejoined := false
				for _, j := range joins {
					if j.respMember == e.leader && j.ret > at && j.ret <= e.ret {
						rejoined = true
					}
				}
				if !rejoined {
					w.sim.Fail("C14", "leader-left", "join reply at step %d names leader %q whose LeaveGroup succeeded at step %d", e.ret, e.leader, at)
					return
				}
			}
		}
		if e.code != 0 || len(e.members) == 0 {
			continue
		}
		w.sim.Probe("c14.leader-success")
		// every listed member must itself have been told this generation by a join of its own
		for _, m := range e.members {
			told := false
			var lastGen int32 = -1
			for _, j := range joins {
				if j.respMember == m && j.group == e.group && j.invoke <= e.ret {
					lastGen = j.respGen
					if j.respGen == e.respGen {
						told = true
					}
				}
			}
			if !told {
				w.sim.Fail("C14", "success-before-all-rejoined", "group %q generation %d: the leader's join succeeded listing member %q, whose own latest join reply carried generation %d: it has not joined generation %d", e.group, e.respGen, m, lastGen, e.respGen)
				return
			}
		}
	}
	// after the leader synced, every member's sync in that generation succeeds (fault-free runs)
	if len(w.sim.Stats.FaultsFired) > 0 {
		return
	}
	syncs := w.answered("sync")
	for _, ls := range syncs {
		if ls.code != 0 || ls.deviant != "" {
			continue
		}
		// was this the leader of its generation?
		var lj *ev
		for _, j := range joins {
			if j.group == ls.group && j.respGen == ls.reqGen && j.code == 0 && len(j.members) > 0 && j.respMember == ls.reqMember && j.ret < ls.invoke {
				lj = j
			}
		}
		if lj == nil {
			continue
		}
		for _, s := range syncs {
			if s.group != ls.group || s.reqGen != ls.reqGen || s.deviant != "" || s.invoke < ls.ret || s.code == 0 {
				continue
			}
			member := false
			for _, m := range lj.members {
				if m == s.reqMember {
					member = true
				}
			}
			if !member {
				continue
			}
			// excused if a newer generation (or a failover / expiry signal) was visible before this sync returned
			excused := false
			// a LeaveGroup of an identity that had already left and was nevertheless answered NONE: the
			// rejoins that follow it are its consequence, not a reason for the generation to end
			staleLeaveAccepted := -1
			for _, o := range w.answered("leave") {
				if o.group == s.group && o.deviant == "stale-leave" && o.code == 0 && o.ret > ls.ret && o.ret <= s.ret && (staleLeaveAccepted < 0 || o.ret < staleLeaveAccepted) {
					staleLeaveAccepted = o.ret
				}
			}
			for _, o := range w.answered("") {
				if o.group == s.group && o.ret <= s.ret && o.ret > lj.ret && ((o.kind == "join" && o.respGen != ls.reqGen && (staleLeaveAccepted < 0 || o.invoke < staleLeaveAccepted)) || (o.kind == "leave" && o.code == 0 && o.deviant == "") || o.coord != s.coord) {
					excused = true
				}
			}
			if s.tRet-lj.tRet > lj.session/2 {
				excused = true // expiry may legitimately have started a new rebalance
			}
			// ... and so may the expiry of any member of the generation that had gone quiet
			for _, m := range lj.members {
				lastSeen := time.Duration(-1)
				var sess time.Duration
				for _, o := range w.answered("") {
					if (o.reqMember == m || o.respMember == m) && o.ret < s.ret {
						lastSeen = o.tRet
						if o.kind == "join" && o.session > 0 {
							sess = o.session
						}
					}
				}
				if sess == 0 {
					sess = lj.session
				}
				if lastSeen < 0 || s.tRet-lastSeen > sess-1500*time.Millisecond {
					excused = true
				}
			}
			if !excused {
				w.sim.Fail("C14", "sync-fails-after-leader-synced", "group %q generation %d: leader %q synced at step %d, then member %q's sync at step %d got code %d", s.group, s.reqGen, ls.reqMember, ls.ret, s.reqMember, s.ret, s.code)
				return
			}
		}
	}
}

// ---------------------------------------------------------------- C12

// judgeAssignments: "each partition of each subscribed topic goes to exactly
// one current member that subscribes to that topic. No member receives a
// partition of a topic it did not subscribe to. All members of one generation
// see one consistent assignment."
func (w *w2) judgeAssignments() {
	type gk struct {
		group string
		gen   int32
		coord string
	}
	joins := w.answered("join")
	syncs := w.answered("sync")
	per := map[gk]map[string]*ev{}
	for _, s := range syncs {
		if s.code != 0 || s.deviant != "" {
			continue
		}
		w.sim.Probe("c12.sync-judged")
		// the subscription the member announced for this generation: its latest join before the sync
		var subs []string
		for _, j := range joins {
			if j.respMember == s.reqMember && j.group == s.group && j.ret <= s.invoke {
				subs = j.subs
			}
		}
		for topic := range s.assign {
			found := false
			for _, t := range subs {
				if t == topic {
					found = true
				}
			}
			if !found && len(s.assign[topic]) > 0 {
				w.sim.Fail("C12", "assigned-unsubscribed-topic", "group %q generation %d: member %q (subscribed to %v) was assigned topic %q %v", s.group, s.reqGen, s.reqMember, subs, topic, s.assign[topic])
				return
			}
		}
		k := gk{s.group, s.reqGen, fmt.Sprint(w.incarnation(s.group, s.storeIdx))}
		if per[k] == nil {
			per[k] = map[string]*ev{}
		}
		if prev := per[k][s.reqMember]; prev != nil && fmt.Sprint(prev.assign) != fmt.Sprint(s.assign) && !w.groupDeletedBetween(s.group, prev.storeIdx-1, s.storeIdx) {
			w.sim.Fail("C12", "assignment-changed-within-generation", "group %q generation %d: member %q got %v at step %d and %v at step %d", s.group, s.reqGen, s.reqMember, prev.assign, prev.ret, s.assign, s.ret)
			return
		}
		per[k][s.reqMember] = s
	}
	for k, members := range per {
		owner := map[string]string{}
		var first, lastE *ev
		for id, s := range members {
			if first == nil || s.ret < first.ret {
				first = s
			}
			if lastE == nil || s.ret > lastE.ret {
				lastE = s
			}
			for topic, parts := range s.assign {
				for _, p := range parts {
					key := fmt.Sprintf("%s/%d", topic, p)
					if o, ok := owner[key]; ok && o != id {
						if w.groupDeletedBetween(k.group, first.storeIdx-1, lastE.storeIdx) {
							continue // two incarnations of the group share a generation number
						}
						w.sim.Fail("C12", "partition-assigned-twice", "group %q generation %d: %s assigned to both %q and %q", k.group, k.gen, key, o, id)
						return
					}
					owner[key] = id
				}
			}
		}
		// completeness: when every member the leader was told about has synced
		var lj *ev
		for _, j := range joins {
			if j.group == k.group && j.respGen == k.gen && j.code == 0 && len(j.members) > 0 && fmt.Sprint(w.incarnation(j.group, j.storeIdx)) == k.coord {
				lj = j
			}
		}
		if lj == nil || w.grew || len(w.sim.Stats.FaultsFired) > 0 {
			// completeness is judged in fault-free runs only: a join whose persist failed
			// leaves a member the client never learned about, which is assigned partitions
			continue
		}
		// the members of this generation: the leader's list plus everyone whose own join
		// succeeded at this generation (a member may still join while the group is
		// completing the rebalance, after the leader got its list)
		genMembers := map[string]bool{}
		for _, m := range lj.members {
			genMembers[m] = true
		}
		for _, j := range joins {
			if j.group == k.group && j.respGen == k.gen && j.code == 0 && j.respMember != "" && fmt.Sprint(w.incarnation(j.group, j.storeIdx)) == k.coord {
				genMembers[j.respMember] = true
			}
		}
		all := true
		for m := range genMembers {
			if members[m] == nil {
				all = false
			}
		}
		if !all || len(members) != len(genMembers) || w.groupDeletedBetween(k.group, lj.storeIdx-1, lastE.storeIdx) {
			continue
		}
		w.sim.Probe("c12.complete-generation")
		subscribed := map[string]bool{}
		changedDuringGen := false
		for id, s := range members {
			// the subscription in force is the one of the member's latest join before its sync
			var latest *ev
			for _, j := range joins {
				if j.respMember == id && j.group == k.group && j.ret <= s.invoke {
					if latest != nil && j.respGen == k.gen && latest.respGen == k.gen && fmt.Sprint(latest.subs) != fmt.Sprint(j.subs) {
						changedDuringGen = true
					}
					latest = j
				}
			}
			if latest != nil {
				for _, t := range latest.subs {
					subscribed[t] = true
				}
			}
		}
		if changedDuringGen {
			continue // a subscription changed inside the generation: which partitions are due is ambiguous
		}
		for i, t := range w2Topics {
			if !subscribed[t] {
				continue
			}
			np := int(w.cfg(fmt.Sprintf("parts%d", i), 2))
			for p := 0; p < np; p++ {
				if _, ok := owner[fmt.Sprintf("%s/%d", t, p)]; !ok {
					w.sim.Fail("C12", "partition-unassigned", "group %q generation %d: every member synced but %s/%d (subscribed) is assigned to nobody", k.group, k.gen, t, p)
					return
				}
			}
		}
	}
}

// ---------------------------------------------------------------- C43

// judgeExpiry: "A group member that stops heartbeating is removed, and the
// group rebalances, once its session timeout has passed (or, during a
// rebalance, once the rebalance timeout passes without it rejoining). A member
// that keeps heartbeating within its session timeout is never removed."
func (w *w2) judgeExpiry() {
	eps := 1500 * time.Millisecond
	all := w.answered("")
	byMember := map[string][]*ev{}
	for _, e := range all {
		if e.deviant != "" || e.reqMember == "" {
			continue
		}
		byMember[e.reqMember] = append(byMember[e.reqMember], e)
	}
	sessionOf := map[string]time.Duration{}
	for _, e := range all {
		if e.kind == "join" && e.respMember != "" {
			sessionOf[e.respMember] = e.session
		}
	}
	unknown := func(e *ev) bool {
		if e.kind == "join" {
			return e.reqMember != "" && e.respMember != e.reqMember
		}
		return e.code == codeUnknownMember
	}
	for id, evs := range byMember {
		S := sessionOf[id]
		if S == 0 {
			continue
		}
		// (i) silent for longer than session + cleanup interval: must be gone
		lastSeen := time.Duration(-1)
		for _, j := range all {
			if j.kind == "join" && j.respMember == id && (lastSeen < 0 || j.tRet < lastSeen) {
				lastSeen = j.tRet
			}
		}
		lastCoord := ""
		for _, e := range evs {
			if lastSeen >= 0 && lastCoord == e.coord && e.tInvoke-lastSeen > S+w.cleanup+eps && e.kind != "ofetch" && e.kind != "leave" {
				w.sim.Probe("c43.overstay-judged")
				// ILLEGAL_GENERATION / REBALANCE_IN_PROGRESS do not show whether the member is
				// still known (the generation is checked first): only an answer that treats it
				// as a member proves it was not removed
				stillMember := e.code == 0
				if e.kind == "join" {
					stillMember = e.respMember == e.reqMember
				}
				if stillMember {
					w.sim.Fail("C43", "expired-member-still-known", "member %q (session %v) was silent for %v (> session + cleanup interval %v) yet its %s at t=%v was answered with code %d as a known member", id, S, e.tInvoke-lastSeen, w.cleanup, e.kind, e.tInvoke, e.code)
					return
				}
			}
			lastSeen, lastCoord = e.tRet, e.coord
		}
	}
	// (ii) diligent members are never removed
	for actor, m := range w.members {
		if !w.diligent[actor] {
			continue
		}
		_ = m
		var mine []*ev
		for _, e := range all {
			if e.actor == actor && e.deviant == "" && e.kind != "ofetch" {
				mine = append(mine, e)
			}
		}
		for i, e := range mine {
			// (ILLEGAL_GENERATION is not removal: this coordinator answers it, not REBALANCE_IN_PROGRESS, when
			// another member's expiry moved the group on; the member rejoins under its id. A rule that read it
			// as removal was tried and withdrawn: it fired on the unchanged tree.)
			if i == 0 || !unknown(e) {
				continue
			}
			prev := mine[i-1]
			if prev.kind == "leave" || prev.coord != e.coord || e.reqMember == "" {
				continue
			}
			S := sessionOf[e.reqMember]
			if S == 0 {
				continue
			}
			// every gap since this id was issued stayed below the session timeout
			R := time.Duration(w.cfg("rebalance_ms", 3000)) * time.Millisecond
			ok := true
			var since time.Duration
			started := false
			for j := 0; j <= i; j++ {
				x := mine[j]
				if x.kind == "join" && x.respMember == e.reqMember && !started {
					started, since = true, x.tRet
					continue
				}
				if !started {
					continue
				}
				if x.kind != "hb" && x.kind != "join" && j != i {
					continue // the statement speaks of heartbeating: only heartbeats and joins count as signs of life
				}
				// ... and below a third of the rebalance timeout, so that after learning of a
				// rebalance its next request (the re-join) is always in time
				if x.tInvoke-since > S-eps || x.tInvoke-since > R/3 {
					ok = false
				}
				since = x.tRet
			}
			if !started || !ok {
				continue
			}
			w.sim.Probe("c43.diligent-judged")
			w.sim.Fail("C43", "diligent-member-removed", "member %q (actor %d, session %v) never let %v pass between requests and never left, yet its %s at t=%v was answered as unknown (code %d, reply member %q)", e.reqMember, actor, S, S-eps, e.kind, e.tInvoke, e.code, e.respMember)
			return
		}
	}
}

// ---------------------------------------------------------------- C15

type foState struct {
	step  int
	t     time.Duration
	diffs int
}

// failover: pause the members, compare the old coordinator with one restored
// from a copy of the store on an identical probe sequence, then replace it.
//
// C15: "the new coordinator reports the same generation, state, leader,
// members, subscriptions and assignments. Members of the current generation
// keep working against it without rejoining."
func (w *w2) failover(op simrt.Op) {
	if w.coord == nil {
		return
	}
	w.sim.Probe("c15.failover")
	// 1. quiesce: no request in flight, members held at the gate
	w.gate = w.sim.NewFuture("")
	for i := 0; w.inflight > 0 && i < 20000; i++ {
		simrt.Sleep(time.Millisecond)
	}
	if w.inflight > 0 {
		// a request is still being handled (a handler held back for seconds): the switch procedure below
		// assumes a quiet coordinator, so this switch is skipped
		w.sim.Probe("c15.failover-skipped-not-quiet")
		g := w.gate
		w.gate = nil
		g.Set(true)
		return
	}
	old := w.coord
	old.Stop() // its cleanup loop retires with it; keeps the comparison free of timer ticks
	// a cleanup tick that fired just before the stop may still be writing the group it changed: the
	// comparison is between the coordinator and what it HAS stored, not what it is about to store
	simrt.Sleep(time.Duration(w.cfg("store_lat_us", 300))*time.Microsecond*4 + 5*time.Millisecond)
	ctx := context.Background()
	// 2. a copy of the durable state for the old coordinator to keep mutating during the probes
	clone := w.cloneStore()
	shadowStore := kafsim.NewStore(clone, 1)
	restored := NewGroupCoordinator(w.store, protocol.MetadataBroker{NodeID: 99, Host: "co", Port: 9092}, &CoordinatorConfig{CleanupInterval: time.Hour})
	// the old coordinator continues on the clone so that both sides start from equal durable state
	old.store = shadowStore
	type probe struct {
		name string
		run  func(c *GroupCoordinator) string
	}
	var probes []probe
	var actors []int
	for id := range w.members {
		actors = append(actors, id)
	}
	sort.Ints(actors)
	groups := map[string]bool{}
	for _, id := range actors {
		m := w.members[id]
		if m.memberID == "" || m.group == "" {
			continue
		}
		groups[m.group] = true
		probes = append(probes, probe{fmt.Sprintf("heartbeat(%s,%s,%d)", m.group, m.memberID, m.gen), func(c *GroupCoordinator) string {
			r := kmsg.NewPtrHeartbeatRequest()
			r.Group, r.MemberID, r.Generation = m.group, m.memberID, m.gen
			return fmt.Sprint(c.Heartbeat(ctx, r).ErrorCode)
		}})
		probes = append(probes, probe{fmt.Sprintf("sync(%s,%s,%d)", m.group, m.memberID, m.gen), func(c *GroupCoordinator) string {
			r := kmsg.NewPtrSyncGroupRequest()
			r.Group, r.MemberID, r.Generation = m.group, m.memberID, m.gen
			resp, err := c.SyncGroup(ctx, r)
			if err != nil {
				return "err"
			}
			return fmt.Sprintf("%d %v", resp.ErrorCode, decodeAssignment(resp.MemberAssignment))
		}})
	}
	var gl []string
	for g := range groups {
		gl = append(gl, g)
	}
	sort.Strings(gl)
	for _, g := range gl {
		g := g
		probes = append(probes, probe{"describe(" + g + ")", func(c *GroupCoordinator) string {
			r := kmsg.NewPtrDescribeGroupsRequest()
			r.Groups = []string{g}
			resp, _ := c.DescribeGroups(ctx, r)
			if resp == nil || len(resp.Groups) != 1 {
				return "?"
			}
			gr := resp.Groups[0]
			var ms []string
			for _, m := range gr.Members {
				ms = append(ms, m.MemberID)
			}
			return fmt.Sprintf("%d %s %v", gr.ErrorCode, gr.State, ms)
		}})
	}
	// finally one member per group re-joins with unchanged parameters
	seen := map[string]bool{}
	for _, id := range actors {
		m := w.members[id]
		if m.memberID == "" || seen[m.group] || op.B%2 == 1 {
			continue
		}
		seen[m.group] = true
		probes = append(probes, probe{fmt.Sprintf("rejoin(%s,%s)", m.group, m.memberID), func(c *GroupCoordinator) string {
			r := kmsg.NewPtrJoinGroupRequest()
			r.Group, r.MemberID, r.ProtocolType = m.group, m.memberID, "consumer"
			r.SessionTimeoutMillis, r.RebalanceTimeoutMillis = int32(m.session/time.Millisecond), int32(m.rebal/time.Millisecond)
			p := kmsg.NewJoinGroupRequestProtocol()
			p.Name, p.Metadata = "range", encodeSubscription(m.subs)
			r.Protocols = append(r.Protocols, p)
			resp, err := c.JoinGroup(ctx, r)
			if err != nil {
				return "err"
			}
			var ms []string
			for _, mm := range resp.Members {
				ms = append(ms, mm.MemberID)
			}
			// whether the rebalance is already complete (code, member list) is join progress,
			// which C14 judges; C15 compares what the statement lists
			_ = ms
			member, leader := resp.MemberID, resp.LeaderID
			if member != m.memberID {
				// the identity was unknown and a fresh random id was issued: ids cannot be compared
				if leader == member {
					leader = "<new>"
				}
				member = "<new>"
			}
			return fmt.Sprintf("gen=%d leader=%s member=%s", resp.Generation, leader, member)
		}})
	}
	// the restored coordinator answers on its own copy too, so the live store is untouched by probes
	clone2 := w.cloneStore()
	restored.store = kafsim.NewStore(clone2, 1)
	faultsFired := func() int {
		n := 0
		for _, v := range w.sim.Stats.FaultsFired {
			n += v
		}
		return n
	}
	for _, p := range probes {
		before := faultsFired()
		a := p.run(old)
		b := p.run(restored)
		w.sim.Probe("c15.probe")
		if faultsFired() != before {
			// an injected store failure hit the probe's own call on one of the two copies: from here on
			// the two copies differ because of the probe, not because of the coordinator
			w.sim.Probe("c15.probe-hit-fault")
			break
		}
		if a != b && w.storeBehindAfterRefusedWrite(p.name) {
			// a group write was refused and no request of that group has succeeded since: the request
			// that needed the write was answered with an error and its retry is still to come
			w.sim.Probe("c15.store-behind-after-refused-write")
			continue
		}
		if a != b && w.prop == "C15" {
			w.sim.Fail("C15", "failover-answers-differ", "%s: the running coordinator answers %q, a coordinator restored from the store answers %q", p.name, a, b)
			break
		}
	}
	restored.Stop()
	// 3. the real switch: a new coordinator over the live store
	w.sim.KillNode(w.inc())
	w.cancel()
	w.startCoordinator()
	w.failovers = append(w.failovers, foState{step: w.sim.Step(), t: w.sim.Now()})
	g := w.gate
	w.gate = nil
	g.Set(true)
}

// storeBehindAfterRefusedWrite: the last PutConsumerGroup of the probe's group was refused by an injected
// failure and no join or sync of that group has been answered NONE since (every NONE answer of the
// coordinator follows a successful write, so until then the store may legitimately be one step behind).
func (w *w2) storeBehindAfterRefusedWrite(probeName string) bool {
	i := strings.Index(probeName, "(")
	if i < 0 {
		return false
	}
	group := probeName[i+1:]
	if j := strings.IndexAny(group, ",)"); j >= 0 {
		group = group[:j]
	}
	w.store.Lock()
	refused := append([]kafsim.StoreWrite(nil), w.store.Refused...)
	w.store.Unlock()
	last := -1
	for _, r := range refused {
		if r.Method == "PutConsumerGroup" && r.Key == group && r.Step > last {
			last = r.Step
		}
	}
	if last < 0 {
		return false
	}
	for _, o := range w.answered("") {
		if o.group == group && (o.kind == "join" || o.kind == "sync") && o.code == 0 && o.ret > last {
			return false
		}
	}
	return true
}

func (w *w2) cloneStore() *metadata.InMemoryStore {
	ctx := context.Background()
	meta, _ := w.inner.Metadata(ctx, nil)
	c := metadata.NewInMemoryStore(*meta)
	groups, _ := w.inner.ListConsumerGroups(ctx)
	for _, g := range groups {
		_ = c.PutConsumerGroup(ctx, g)
	}
	offs, _ := w.inner.ListConsumerOffsets(ctx)
	for _, o := range offs {
		_, md, _ := w.inner.FetchConsumerOffset(ctx, o.Group, o.Topic, o.Partition)
		_ = c.CommitConsumerOffset(ctx, o.Group, o.Topic, o.Partition, o.Offset, md)
	}
	return c
}

// judgeFailoverContinuity: a member of a settled generation keeps working
// against the new coordinator without rejoining.
func (w *w2) judgeFailoverContinuity() {
	all := w.answered("")
	for _, fo := range w.failovers {
		for actor := range w.members {
			var before, after []*ev
			for _, e := range all {
				if e.actor != actor || e.deviant != "" || e.kind == "ofetch" {
					continue
				}
				if e.ret <= fo.step {
					before = append(before, e)
				} else if e.invoke >= fo.step {
					after = append(after, e)
				}
			}
			if len(before) < 2 || len(after) == 0 {
				continue
			}
			last := before[len(before)-1]
			first := after[0]
			if last.kind != "hb" || last.code != 0 || first.kind != "hb" || first.reqGen != last.reqGen || first.reqMember != last.reqMember {
				continue
			}
			// the whole group was quiet (only successful heartbeats / commits) around the switch
			quiet := true
			for _, e := range all {
				if e.group == last.group && e.ret > last.invoke-1 && e.ret <= first.ret && e.actor != actor {
					if !((e.kind == "hb" || e.kind == "commit") && e.code == 0) && e.ret <= fo.step {
						quiet = false
					}
					if e.kind == "join" || e.kind == "leave" {
						quiet = false
					}
				}
			}
			S := time.Duration(w.cfg("session_ms", 6000)) * time.Millisecond
			// another member of the group that has been silent for a session timeout may legitimately
			// have been expired (by either coordinator), which ends the generation
			lastOf := map[int]time.Duration{}
			for _, e := range all {
				if e.group == last.group && e.actor != actor && e.tInvoke <= first.tRet && e.kind != "ofetch" {
					if e.tRet > lastOf[e.actor] {
						lastOf[e.actor] = e.tRet
					}
				}
			}
			for _, t := range lastOf {
				// (that ends the generation for everybody - codes 22 / 27 - but never makes THIS member,
				// which kept heartbeating, unknown: code 25 is not excused)
				if first.tRet-t >= S-S/10 && first.code != 25 {
					quiet = false
				}
			}
			// whatever the others did, a member that kept heartbeating is never "unknown" (25) to the new
			// coordinator; the other error codes (22, 27) can be the others' doing and need a quiet group
			if (!quiet && first.code != 25) || first.tInvoke-last.tRet > S/2 {
				continue
			}
			if first.code == -1 && w.sim.Stats.FaultsFired["store.err"]+w.sim.Stats.FaultsFired["store.timeout"] > 0 {
				// UNKNOWN_SERVER_ERROR after an injected store failure (the new coordinator could not read or
				// write the group for this request): the member retries, it is not told to rejoin
				w.sim.Probe("c15.continuity-unjudged-store-error")
				continue
			}
			w.sim.Probe("c15.continuity-judged")
			if first.code != 0 {
				w.sim.Fail("C15", "member-must-rejoin-after-failover", "member %q of group %q heartbeated successfully at generation %d before the failover; its next heartbeat against the new coordinator got code %d", first.reqMember, first.group, first.reqGen, first.code)
				return
			}
		}
	}
}
