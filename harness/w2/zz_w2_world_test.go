package broker

// W2: the real GroupCoordinator (plus a replacement for failover) over a
// decorated metadata store, driven by simulated group members, some of them
// deviant. Oracles are black-box: requests, replies, virtual time, and the
// store's applied-write log. See DESIGN.md section 5 (C12-C16, C43) and
// appendix B.

import (
	"context"
	"encoding/binary"
	"fmt"
	"math/rand"
	"sort"
	"strings"
	"testing"
	"time"

	"github.com/KafScale/platform/pkg/metadata"
	"github.com/KafScale/platform/pkg/protocol"
	"github.com/twmb/franz-go/pkg/kmsg"

	"verif/sim/driver"
	"verif/sim/kafsim"
	"verif/sim/simrt"
)

func TestSim(t *testing.T) { driver.Main(t, w2World) }

var w2World = driver.World{
	Name: "w2-coordinator",
	Gen:  w2Gen,
	Run:  w2Run,
	Real: []string{"pkg/broker GroupCoordinator (join/sync/heartbeat/leave/commit/fetch/describe, cleanup loop, restore from store)", "pkg/metadata InMemoryStore", "pkg/metadata codec via the store"},
	Stub: []string{"metadata.Store decorator (latency, faults, write attribution)", "group members (protocol-faithful and deviant client tasks)", "scheduler, clock, math/rand seed (simulator)"},
}

var w2Groups = []string{"g", "g:a", "g:a:1", "h"}
var w2Topics = []string{"a", "a:1", "1", "t"}

// ev is one request/response pair as the member saw it.
type ev struct {
	kind        string
	actor       int
	group       string
	reqMember   string
	reqGen      int32
	invoke, ret int
	tInvoke     time.Duration
	tRet        time.Duration
	answered    bool
	code        int16
	// join
	respMember string
	respGen    int32
	leader     string
	members    []string
	subs       []string
	session    time.Duration
	rebalance  time.Duration
	// sync
	assign map[string][]int32
	// commit / fetch
	topic    string
	part     int32
	offset   int64
	meta     string
	deviant  string
	storeIdx int // length of the store write log when the reply was produced
	coord    string
}

type w2member struct {
	id       int
	group    string
	memberID string
	gen      int32
	subs     []string
	session  time.Duration
	rebal    time.Duration
	lastLeft string // the member id this client last left the group with
	needJoin bool
	needSync bool
	waitHB   int
	syncWaits int
	lastJoinRebalancing bool
}

type w2 struct {
	sim      *simrt.Sim
	c        *simrt.Case
	prop     string
	inner    *metadata.InMemoryStore
	store    *kafsim.Store
	coord    *GroupCoordinator
	coordInc int
	coordCtx context.Context
	cancel   context.CancelFunc
	members  map[int]*w2member
	hist     []*ev
	reqSeq   int
	nextOff  int64
	cleanup  time.Duration
	maxQ     time.Duration
	left     int
	done     *simrt.Future
	issued   map[string]int // member id -> actor that was told it
	gate     *simrt.Future  // set while a failover holds the members back
	inflight int
	failovers []foState
	grew     bool
	diligent map[int]bool // actors whose program never lets a session lapse
}

func (w *w2) cfg(n string, d int64) int64 { return w.c.Cfg(n, d) }

func w2Run(t *testing.T, c *simrt.Case, prop string, keepTrace bool) simrt.Result {
	w := &w2{c: c, prop: prop, members: map[int]*w2member{}, issued: map[string]int{}, nextOff: 1000, diligent: map[int]bool{}}
	for _, op := range c.Program {
		if op.Kind == "cycle" && strings.HasPrefix(op.S, "diligent") {
			w.diligent[op.Actor] = true
		}
	}
	for _, op := range c.Program {
		if op.Kind != "cycle" || !strings.HasPrefix(op.S, "diligent") {
			if op.Actor < 100 && op.Kind != "ofetch" {
				delete(w.diligent, op.Actor)
			}
		}
	}
	rand.Seed(int64(c.Seed)) // member ids come from the global math/rand source
	res := simrt.Run(t, c, keepTrace, func(s *simrt.Sim) {
		w.sim = s
		w.setup()
	}, func(s *simrt.Sim) {
		w.finish()
	})
	if res.Violation != nil && res.Violation.Property != prop {
		res.Stats.Probes["foreign:"+res.Violation.Property+"/"+res.Violation.Clause]++
		res.Violation = nil
	}
	return res
}

func (w *w2) inc() string { return fmt.Sprintf("co#%d", w.coordInc) }

func (w *w2) startCoordinator() {
	w.coordInc++
	w.sim.SetupNode = w.inc()
	info := protocol.MetadataBroker{NodeID: int32(w.coordInc), Host: "co", Port: 9092}
	w.coord = NewGroupCoordinator(w.store, info, &CoordinatorConfig{CleanupInterval: w.cleanup})
	w.coordCtx, w.cancel = context.WithCancel(context.Background())
}

func (w *w2) setup() {
	s := w.sim
	info := protocol.MetadataBroker{NodeID: 0, Host: "co", Port: 9092}
	meta := metadata.ClusterMetadata{ControllerID: 0, ClusterID: kmsg.StringPtr("sim"), Brokers: []protocol.MetadataBroker{info}}
	for i, name := range w2Topics {
		mt := protocol.MetadataTopic{Topic: kmsg.StringPtr(name), TopicID: metadata.TopicIDForName(name)}
		np := int32(w.cfg(fmt.Sprintf("parts%d", i), 2))
		for p := int32(0); p < np; p++ {
			mt.Partitions = append(mt.Partitions, protocol.MetadataPartition{Partition: p, Leader: 0, Replicas: []int32{0}, ISR: []int32{0}})
		}
		meta.Topics = append(meta.Topics, mt)
	}
	w.inner = metadata.NewInMemoryStore(meta)
	w.store = kafsim.NewStore(w.inner, w.cfg("store_lat_us", 300))
	w.cleanup = time.Duration(w.cfg("cleanup_ms", 5000)) * time.Millisecond
	w.startCoordinator()
	s.OnStop(func() {
		if w.coord != nil {
			w.coord.Stop()
		}
		if w.cancel != nil {
			w.cancel()
		}
	})
	actors := map[int][]simrt.Op{}
	var ids []int
	for _, op := range w.c.Program {
		if _, ok := actors[op.Actor]; !ok {
			ids = append(ids, op.Actor)
		}
		actors[op.Actor] = append(actors[op.Actor], op)
	}
	sort.Ints(ids)
	w.done = s.NewFuture("")
	for _, id := range ids {
		if id < 100 {
			w.left++
		}
	}
	if w.left == 0 {
		w.done.Set(true)
	}
	for _, id := range ids {
		id, ops := id, actors[id]
		w.members[id] = &w2member{id: id, needJoin: true}
		s.Spawn(fmt.Sprintf("member%03d", id), "", true, func() {
			if id >= 100 && id < 200 {
				w.done.Wait(nil, "barrier")
			}
			for _, op := range ops {
				w.memberOp(w.members[id], op)
				if s.Failed() {
					break
				}
			}
			if id < 100 {
				w.left--
				if w.left == 0 {
					w.done.Set(true)
				}
			}
		})
	}
}

// rpc runs fn against the current coordinator on a coordinator-side task.
func (w *w2) rpc(fn func(c *GroupCoordinator, ctx context.Context) any) (any, bool) {
	for w.gate != nil {
		w.gate.Wait(nil, "failover-gate")
	}
	c, inc, ctx := w.coord, w.inc(), w.coordCtx
	if c == nil {
		simrt.Sleep(time.Millisecond)
		return nil, false
	}
	fut := w.sim.NewFuture(inc)
	w.reqSeq++
	w.inflight++
	w.sim.Spawn(fmt.Sprintf("%s/req%05d", inc, w.reqSeq), inc, false, func() {
		v := fn(c, ctx)
		if simrt.Dying() {
			return
		}
		fut.Set(v)
	})
	v, ok := fut.Wait(nil, "rpc")
	w.inflight--
	return v, ok
}

func (w *w2) record(e *ev) *ev {
	e.invoke, e.tInvoke = w.sim.Step(), w.sim.Now()
	e.coord = w.inc()
	w.hist = append(w.hist, e)
	return e
}

func (w *w2) reply(e *ev) {
	e.answered, e.ret, e.tRet = true, w.sim.Step(), w.sim.Now()
	e.storeIdx = len(w.store.Writes())
	w.sim.Note("reply %s actor=%d group=%s member=%s gen=%d %s -> code=%d member=%s gen=%d leader=%s members=%v subs=%v assign=%v off=%d", e.kind, e.actor, e.group, e.reqMember, e.reqGen, e.deviant, e.code, e.respMember, e.respGen, e.leader, e.members, e.subs, e.assign, e.offset)
}

func encodeSubscription(topics []string) []byte {
	b := []byte{0, 0}
	b = binary.BigEndian.AppendUint32(b, uint32(len(topics)))
	for _, t := range topics {
		b = binary.BigEndian.AppendUint16(b, uint16(len(t)))
		b = append(b, t...)
	}
	return binary.BigEndian.AppendUint32(b, 0)
}

func decodeSubscription(b []byte) []string {
	if len(b) < 6 {
		return nil
	}
	n := int(binary.BigEndian.Uint32(b[2:6]))
	p := 6
	var out []string
	for i := 0; i < n && p+2 <= len(b); i++ {
		l := int(binary.BigEndian.Uint16(b[p : p+2]))
		p += 2
		if p+l > len(b) {
			break
		}
		out = append(out, string(b[p:p+l]))
		p += l
	}
	return out
}

func decodeAssignment(b []byte) map[string][]int32 {
	out := map[string][]int32{}
	if len(b) < 6 {
		return out
	}
	n := int(binary.BigEndian.Uint32(b[2:6]))
	p := 6
	for i := 0; i < n && p+2 <= len(b); i++ {
		l := int(binary.BigEndian.Uint16(b[p : p+2]))
		p += 2
		if p+l+4 > len(b) {
			break
		}
		name := string(b[p : p+l])
		p += l
		np := int(binary.BigEndian.Uint32(b[p : p+4]))
		p += 4
		for j := 0; j < np && p+4 <= len(b); j++ {
			out[name] = append(out[name], int32(binary.BigEndian.Uint32(b[p:p+4])))
			p += 4
		}
		if _, ok := out[name]; !ok {
			out[name] = []int32{}
		}
	}
	return out
}

func maskTopics(mask int64) []string {
	var out []string
	for i, t := range w2Topics {
		if mask&(1<<uint(i)) != 0 {
			out = append(out, t)
		}
	}
	return out
}

// identity returns the member id / generation a request uses, applying the
// deviation named in the op.
func (w *w2) identity(m *w2member, dev string) (string, int32) {
	id, gen := m.memberID, m.gen
	switch dev {
	case "stale":
		gen--
	case "future":
		gen++
	case "alien":
		id = "no-such-member-42"
	case "anon":
		// a "simple consumer" commit: no member id, generation -1 (only legal while the group has no members)
		id, gen = "", -1
	case "other":
		// another member's id (of any group)
		var ids []string
		for k := range w.issued {
			if k != m.memberID {
				ids = append(ids, k)
			}
		}
		sort.Strings(ids)
		if len(ids) > 0 {
			id = ids[int(gen+7)%len(ids)]
		}
	}
	return id, gen
}

func (w *w2) doJoin(m *w2member, group string, subs []string, session, rebal time.Duration) *ev {
	m.group, m.subs, m.session, m.rebal = group, subs, session, rebal
	e := w.record(&ev{kind: "join", actor: m.id, group: group, reqMember: m.memberID, reqGen: m.gen, subs: subs, session: session, rebalance: rebal})
	req := kmsg.NewPtrJoinGroupRequest()
	req.Version, req.Group, req.MemberID, req.ProtocolType = 4, group, m.memberID, "consumer"
	req.SessionTimeoutMillis, req.RebalanceTimeoutMillis = int32(session/time.Millisecond), int32(rebal/time.Millisecond)
	p := kmsg.NewJoinGroupRequestProtocol()
	p.Name, p.Metadata = "range", encodeSubscription(subs)
	req.Protocols = append(req.Protocols, p)
	v, ok := w.rpc(func(c *GroupCoordinator, ctx context.Context) any {
		resp, err := c.JoinGroup(ctx, req)
		if err != nil {
			return err
		}
		e.code, e.respMember, e.respGen, e.leader = resp.ErrorCode, resp.MemberID, resp.Generation, resp.LeaderID
		for _, mm := range resp.Members {
			e.members = append(e.members, mm.MemberID)
		}
		w.reply(e)
		return resp
	})
	if !ok || !e.answered {
		_ = v
		return e
	}
	if e.respMember != "" {
		w.issued[e.respMember] = m.id
		m.memberID = e.respMember
	}
	m.gen = e.respGen
	switch e.code {
	case 0:
		m.needJoin, m.needSync = false, true
	default:
		m.needJoin = true
	}
	return e
}

func (w *w2) doSync(m *w2member, dev string) *ev {
	id, gen := w.identity(m, dev)
	e := w.record(&ev{kind: "sync", actor: m.id, group: m.group, reqMember: id, reqGen: gen, deviant: dev})
	req := kmsg.NewPtrSyncGroupRequest()
	req.Version, req.Group, req.MemberID, req.Generation = 4, m.group, id, gen
	w.rpc(func(c *GroupCoordinator, ctx context.Context) any {
		resp, err := c.SyncGroup(ctx, req)
		if err != nil {
			return err
		}
		e.code = resp.ErrorCode
		if resp.ErrorCode == 0 {
			e.assign = decodeAssignment(resp.MemberAssignment)
		}
		w.reply(e)
		return resp
	})
	if e.answered && dev == "" {
		switch e.code {
		case 0:
			m.needSync = false
		case protocol.REBALANCE_IN_PROGRESS:
		default:
			m.needJoin = true
			if e.code == protocol.UNKNOWN_MEMBER_ID {
				m.memberID = ""
			}
		}
	}
	return e
}

func (w *w2) doHeartbeat(m *w2member, dev string) *ev {
	id, gen := w.identity(m, dev)
	e := w.record(&ev{kind: "hb", actor: m.id, group: m.group, reqMember: id, reqGen: gen, deviant: dev})
	req := kmsg.NewPtrHeartbeatRequest()
	req.Version, req.Group, req.MemberID, req.Generation = 4, m.group, id, gen
	w.rpc(func(c *GroupCoordinator, ctx context.Context) any {
		resp := c.Heartbeat(ctx, req)
		e.code = resp.ErrorCode
		w.reply(e)
		return resp
	})
	if e.answered && dev == "" && e.code != 0 {
		m.needJoin = true
		if e.code == protocol.UNKNOWN_MEMBER_ID {
			m.memberID = ""
		}
	}
	return e
}

func (w *w2) doLeave(m *w2member) *ev {
	e := w.record(&ev{kind: "leave", actor: m.id, group: m.group, reqMember: m.memberID, reqGen: m.gen})
	req := kmsg.NewPtrLeaveGroupRequest()
	req.Version, req.Group, req.MemberID = 2, m.group, m.memberID
	w.rpc(func(c *GroupCoordinator, ctx context.Context) any {
		resp := c.LeaveGroup(ctx, req)
		e.code = resp.ErrorCode
		w.reply(e)
		return resp
	})
	if e.answered && e.code == 0 {
		m.lastLeft = m.memberID
		m.needJoin, m.memberID = true, ""
	}
	return e
}

// doStaleLeave re-sends the LeaveGroup of an identity that has already left (a retried or delayed request).
func (w *w2) doStaleLeave(m *w2member) *ev {
	if m.lastLeft == "" {
		return nil
	}
	e := w.record(&ev{kind: "leave", actor: m.id, group: m.group, reqMember: m.lastLeft, reqGen: m.gen, deviant: "stale-leave"})
	req := kmsg.NewPtrLeaveGroupRequest()
	req.Version, req.Group, req.MemberID = 2, m.group, m.lastLeft
	w.rpc(func(c *GroupCoordinator, ctx context.Context) any {
		resp := c.LeaveGroup(ctx, req)
		e.code = resp.ErrorCode
		w.reply(e)
		return resp
	})
	w.sim.Probe("w2.stale-leave")
	return e
}

func (w *w2) doCommit(m *w2member, topic string, part int32, dev string) *ev {
	id, gen := w.identity(m, dev)
	w.nextOff++
	off := w.nextOff
	md := fmt.Sprintf("md%d", off)
	e := w.record(&ev{kind: "commit", actor: m.id, group: m.group, reqMember: id, reqGen: gen, topic: topic, part: part, offset: off, meta: md, deviant: dev})
	req := kmsg.NewPtrOffsetCommitRequest()
	req.Version, req.Group, req.MemberID, req.Generation = 3, m.group, id, gen
	t := kmsg.NewOffsetCommitRequestTopic()
	t.Topic = topic
	p := kmsg.NewOffsetCommitRequestTopicPartition()
	p.Partition, p.Offset, p.Metadata = part, off, kmsg.StringPtr(md)
	t.Partitions = append(t.Partitions, p)
	req.Topics = append(req.Topics, t)
	w.rpc(func(c *GroupCoordinator, ctx context.Context) any {
		resp, err := c.OffsetCommit(ctx, req)
		if err != nil {
			return err
		}
		if len(resp.Topics) == 1 && len(resp.Topics[0].Partitions) == 1 {
			e.code = resp.Topics[0].Partitions[0].ErrorCode
			w.reply(e)
		}
		return resp
	})
	return e
}

// doMultiCommit commits several partitions (of up to two topics) in ONE request; nullMask says which of
// them carry a null metadata string.
func (w *w2) doMultiCommit(m *w2member, topicIdx, n int, nullMask int64) {
	id, gen := w.identity(m, "")
	req := kmsg.NewPtrOffsetCommitRequest()
	req.Version, req.Group, req.MemberID, req.Generation = 3, m.group, id, gen
	var evs []*ev
	for i := 0; i < n; i++ {
		topic := w2Topics[(topicIdx+i/2)%len(w2Topics)]
		part := int32(i % 2)
		w.nextOff++
		off := w.nextOff
		md := fmt.Sprintf("md%d", off)
		var mdp *string = kmsg.StringPtr(md)
		if nullMask&(1<<uint(i)) != 0 {
			md, mdp = "", nil
		}
		e := w.record(&ev{kind: "commit", actor: m.id, group: m.group, reqMember: id, reqGen: gen, topic: topic, part: part, offset: off, meta: md})
		evs = append(evs, e)
		var t *kmsg.OffsetCommitRequestTopic
		for j := range req.Topics {
			if req.Topics[j].Topic == topic {
				t = &req.Topics[j]
			}
		}
		if t == nil {
			nt := kmsg.NewOffsetCommitRequestTopic()
			nt.Topic = topic
			req.Topics = append(req.Topics, nt)
			t = &req.Topics[len(req.Topics)-1]
		}
		p := kmsg.NewOffsetCommitRequestTopicPartition()
		p.Partition, p.Offset, p.Metadata = part, off, mdp
		t.Partitions = append(t.Partitions, p)
	}
	w.sim.Probe("c16.multi-partition-commit")
	w.rpc(func(c *GroupCoordinator, ctx context.Context) any {
		resp, err := c.OffsetCommit(ctx, req)
		if err != nil {
			return err
		}
		for _, rt := range resp.Topics {
			for _, rp := range rt.Partitions {
				for _, e := range evs {
					if e.topic == rt.Topic && e.part == rp.Partition {
						e.code = rp.ErrorCode
						w.reply(e)
					}
				}
			}
		}
		return resp
	})
}

func (w *w2) doOffsetFetch(m *w2member, group, topic string, part int32, extra int64) *ev {
	e := w.record(&ev{kind: "ofetch", actor: m.id, group: group, topic: topic, part: part})
	req := kmsg.NewPtrOffsetFetchRequest()
	req.Version, req.Group = 5, group
	t := kmsg.NewOffsetFetchRequestTopic()
	t.Topic, t.Partitions = topic, []int32{part}
	if extra > 0 {
		// the judged partition travels with others in one request (the other partitions of its topic behind
		// it, and for extra > 1 another topic as well): each entry of the reply must be its own partition's
		for p := int32(0); p < 3; p++ {
			if p != part {
				t.Partitions = append(t.Partitions, p)
			}
		}
		w.sim.Probe("c16.fetch-with-companions")
	}
	req.Topics = append(req.Topics, t)
	if extra > 1 {
		for _, other := range w2Topics {
			if other != topic {
				t2 := kmsg.NewOffsetFetchRequestTopic()
				t2.Topic, t2.Partitions = other, []int32{0, 1}
				req.Topics = append(req.Topics, t2)
				break
			}
		}
	}
	w.rpc(func(c *GroupCoordinator, ctx context.Context) any {
		resp, err := c.OffsetFetch(ctx, req)
		if err != nil {
			return err
		}
		for _, rt := range resp.Topics {
			if rt.Topic != topic {
				continue
			}
			for _, p := range rt.Partitions {
				if p.Partition != part {
					continue
				}
				e.code, e.offset = p.ErrorCode, p.Offset
				if resp.ErrorCode != 0 {
					e.code = resp.ErrorCode
				}
				if p.Metadata != nil {
					e.meta = *p.Metadata
				}
				w.reply(e)
				return resp
			}
		}
		return resp
	})
	return e
}

func (w *w2) memberOp(m *w2member, op simrt.Op) {
	group := w2Groups[int(op.A)%len(w2Groups)]
	switch op.Kind {
	case "join":
		subs := maskTopics(op.B)
		w.doJoin(m, group, subs, time.Duration(op.C)*time.Millisecond, time.Duration(op.D)*time.Millisecond)
	case "sync":
		w.doSync(m, op.S)
	case "hb":
		w.doHeartbeat(m, op.S)
	case "leave":
		w.doLeave(m)
	case "stale-leave":
		w.doStaleLeave(m)
	case "commit":
		w.doCommit(m, w2Topics[int(op.B)%len(w2Topics)], int32(op.C%3), op.S)
	case "mcommit":
		w.doMultiCommit(m, int(op.B), int(2+op.C%3), op.D)
	case "ofetch":
		w.doOffsetFetch(m, group, w2Topics[int(op.B)%len(w2Topics)], int32(op.C%3), op.D)
	case "sleep":
		simrt.Sleep(time.Duration(op.A) * time.Millisecond)
	case "cycle":
		w.cycle(m, op)
	case "failover":
		w.failover(op)
	case "grow":
		w.grew = true
		_ = w.store.CreatePartitions(context.Background(), w2Topics[int(op.A)%len(w2Topics)], int32(3+op.B%3))
	}
}

// cycle is a protocol-faithful consumer: (re)join until success, sync until
// success, then heartbeat / commit, reacting to error codes like a real client.
// op: A=group, B=subscription mask, C=iterations, D=think time ms; S="fast-hb"
// keeps every gap between requests well below the session timeout.
func (w *w2) cycle(m *w2member, op simrt.Op) {
	group := w2Groups[int(op.A)%len(w2Groups)]
	subs := maskTopics(op.B)
	if len(subs) == 0 {
		subs = []string{w2Topics[0]}
	}
	session := time.Duration(w.cfg("session_ms", 6000)) * time.Millisecond
	rebal := time.Duration(w.cfg("rebalance_ms", 3000)) * time.Millisecond
	think := time.Duration(op.D) * time.Millisecond
	if m.group != group {
		m.memberID, m.needJoin = "", true
	}
	for i := int64(0); i < op.C && !w.sim.Failed(); i++ {
		switch {
		case op.S == "diligent-hbwait" && m.memberID != "" && m.needJoin && m.waitHB < 2 && m.lastJoinRebalancing:
			// wait for the others with (valid) heartbeats instead of re-sending the join at once
			m.waitHB++
			w.doHeartbeat(m, "")
		case m.needJoin || m.memberID == "":
			m.waitHB = 0
			e := w.doJoin(m, group, subs, session, rebal)
			m.lastJoinRebalancing = e.answered && e.code == codeRebalance
		case m.needSync && strings.HasPrefix(op.S, "diligent") && m.syncWaits%2 == 1:
			// a diligent client heartbeats (background thread) while it waits for the leader's sync
			m.syncWaits++
			if e := w.doHeartbeat(m, ""); e.answered && e.code == codeRebalance {
				m.needJoin = false // like the Java client: ignored while waiting for the sync to complete
			}
		case m.needSync:
			m.syncWaits++
			w.doSync(m, "")
		default:
			if i%3 == 2 {
				w.doCommit(m, subs[int(i)%len(subs)], int32(i%2), "")
			} else {
				w.doHeartbeat(m, "")
			}
		}
		simrt.Sleep(think)
	}
}
