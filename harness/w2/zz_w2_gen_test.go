package broker

import (
	"math/rand/v2"

	"verif/sim/simrt"
)

func pk[T any](r *rand.Rand, xs ...T) T { return xs[r.IntN(len(xs))] }

// w2Gen: every knob, the members' programs and the fault plan are drawn here.
func w2Gen(r *rand.Rand, prop, tier string) *simrt.Case {
	c := &simrt.Case{Config: map[string]int64{}}
	cfg := c.Config
	cfg["store_lat_us"] = pk[int64](r, 50, 300, 3000)
	cfg["cleanup_ms"] = pk[int64](r, 500, 1000, 5000)
	cfg["session_ms"] = pk[int64](r, 3000, 6000, 10000)
	cfg["rebalance_ms"] = pk[int64](r, 1000, 3000, 8000, 20000)
	cfg["map_seed"] = int64(r.Uint32())
	cfg["max_steps"] = 6000
	for i := 0; i < 4; i++ {
		cfg["parts"+string(rune('0'+i))] = int64(1 + r.IntN(4))
	}
	iters := int64(6 + r.IntN(14))
	if tier == "thorough" {
		iters = int64(10 + r.IntN(40))
		cfg["max_steps"] = 20000
	}
	session := cfg["session_ms"]
	nm := 2 + r.IntN(3)
	mask := func() int64 { return int64(1 + r.IntN(15)) }
	switch prop {
	case "C16":
		// members of groups whose names collide under naive key joins; commit and read back
		for m := 0; m < nm; m++ {
			g := int64(r.IntN(len(w2Groups)))
			c.Program = append(c.Program, simrt.Op{Actor: m, Kind: "cycle", A: g, B: 15, C: 3, D: 1})
			for i := 0; i < 3+r.IntN(10); i++ {
				switch r.IntN(6) {
				case 5:
					// several partitions in one request, some with a null metadata string
					c.Program = append(c.Program, simrt.Op{Actor: m, Kind: "mcommit", B: int64(r.IntN(4)), C: int64(r.IntN(3)), D: int64(r.IntN(16))})
				case 0, 1:
					c.Program = append(c.Program, simrt.Op{Actor: m, Kind: "commit", B: int64(r.IntN(4)), C: int64(r.IntN(3))})
				case 2, 3:
					c.Program = append(c.Program, simrt.Op{Actor: m, Kind: "ofetch", A: int64(r.IntN(len(w2Groups))), B: int64(r.IntN(4)), C: int64(r.IntN(3)), D: int64(r.IntN(3))})
				default:
					c.Program = append(c.Program, simrt.Op{Actor: m, Kind: "hb"})
				}
			}
			if r.IntN(2) == 0 {
				// the member leaves for good (a group that empties keeps its committed offsets)
				c.Program = append(c.Program, simrt.Op{Actor: m, Kind: "leave"})
			}
		}
		// a reader after everything settled (sequential: exact last-commit semantics)
		for i := 0; i < 6+r.IntN(8); i++ {
			c.Program = append(c.Program, simrt.Op{Actor: 100, Kind: "ofetch", A: int64(r.IntN(len(w2Groups))), B: int64(r.IntN(4)), C: int64(r.IntN(3)), D: int64(r.IntN(3))})
		}
	case "C13":
		g := int64(r.IntN(2))
		for m := 0; m < nm; m++ {
			grp := g
			if r.IntN(4) == 0 {
				grp = int64(3) // someone in another group: its member id is foreign to group g
			}
			c.Program = append(c.Program, simrt.Op{Actor: m, Kind: "cycle", A: grp, B: mask(), C: int64(3 + r.IntN(6)), D: pk[int64](r, 1, 20, 200)})
			for i := 0; i < 2+r.IntN(8); i++ {
				dev := pk(r, "", "", "stale", "stale", "alien", "other", "future", "anon")
				switch r.IntN(4) {
				case 0, 1:
					c.Program = append(c.Program, simrt.Op{Actor: m, Kind: "commit", B: int64(r.IntN(4)), C: int64(r.IntN(2)), S: dev})
				case 2:
					c.Program = append(c.Program, simrt.Op{Actor: m, Kind: "hb", S: dev})
				default:
					c.Program = append(c.Program, simrt.Op{Actor: m, Kind: "sync", S: dev})
				}
				if r.IntN(3) == 0 {
					c.Program = append(c.Program, simrt.Op{Actor: m, Kind: "ofetch", A: grp, B: int64(r.IntN(4)), C: int64(r.IntN(2))})
				}
				if r.IntN(5) == 0 {
					c.Program = append(c.Program, simrt.Op{Actor: m, Kind: "cycle", A: grp, B: mask(), C: int64(2 + r.IntN(4)), D: pk[int64](r, 1, 20)})
				}
			}
			if r.IntN(3) == 0 {
				c.Program = append(c.Program, simrt.Op{Actor: m, Kind: "leave"})
			}
		}
		for i := 0; i < 8; i++ {
			c.Program = append(c.Program, simrt.Op{Actor: 100, Kind: "ofetch", A: g, B: int64(r.IntN(4)), C: int64(r.IntN(2))})
		}
		if r.IntN(3) == 0 {
			c.Faults = append(c.Faults, simrt.Fault{Kind: "store.slow", Op: "store.CommitConsumerOffset", Nth: r.IntN(4), Arg: int64(20+r.IntN(2000)) * 1e6})
		}
		if r.IntN(4) == 0 {
			// the coordinator is replaced while the group exists (possibly in the middle of a join round); the new
			// one may fail to read the group from the store at its first attempt
			for i := 0; i < 1+r.IntN(2); i++ {
				c.Program = append(c.Program, simrt.Op{Actor: 201, Kind: "sleep", A: int64(1 + r.IntN(600))}, simrt.Op{Actor: 201, Kind: "failover", B: int64(r.IntN(2))})
			}
			if r.IntN(2) == 0 {
				c.Faults = append(c.Faults, simrt.Fault{Kind: pk(r, "store.err", "store.timeout"), Op: "store.FetchConsumerGroup", Nth: r.IntN(5), Count: 1 + r.IntN(3)})
			}
		}
	case "C43":
		g := int64(r.IntN(2))
		for m := 0; m < nm; m++ {
			switch kind := r.IntN(6); kind {
			case 0, 1: // diligent: gaps far below the session timeout and the rebalance timeout
				c.Program = append(c.Program, simrt.Op{Actor: m, Kind: "cycle", A: g, B: mask(), C: iters * 2, D: min(pk[int64](r, 50, 300, session/4), cfg["rebalance_ms"]/5), S: "diligent"})
			case 2: // diligent, but waits for a rebalance with heartbeats instead of re-sending the join at once
				c.Program = append(c.Program, simrt.Op{Actor: m, Kind: "cycle", A: g, B: mask(), C: iters * 2, D: min(pk[int64](r, 50, 300, session/5), cfg["rebalance_ms"]/12), S: "diligent-hbwait"})
			case 3: // goes silent for longer than the session, then carries on with its old identity
				c.Program = append(c.Program, simrt.Op{Actor: m, Kind: "cycle", A: g, B: mask(), C: int64(3 + r.IntN(5)), D: pk[int64](r, 50, 300)})
				c.Program = append(c.Program, simrt.Op{Actor: m, Kind: "sleep", A: session + cfg["cleanup_ms"] + pk[int64](r, 1600, 4000, 20000)})
				c.Program = append(c.Program, simrt.Op{Actor: m, Kind: pk(r, "hb", "commit", "sync", "join"), A: g, B: mask(), C: session, D: cfg["rebalance_ms"]})
				c.Program = append(c.Program, simrt.Op{Actor: m, Kind: "cycle", A: g, B: mask(), C: 4, D: 100})
			case 4: // rejoins announcing a much shorter session timeout, then goes silent for longer than that (but not longer than the old one)
				short := max(session/4, 800)
				c.Program = append(c.Program, simrt.Op{Actor: m, Kind: "cycle", A: g, B: mask(), C: int64(3 + r.IntN(4)), D: 100})
				c.Program = append(c.Program, simrt.Op{Actor: m, Kind: "join", A: g, B: mask(), C: short, D: cfg["rebalance_ms"]}, simrt.Op{Actor: m, Kind: "sync"}, simrt.Op{Actor: m, Kind: "hb"})
				c.Program = append(c.Program, simrt.Op{Actor: m, Kind: "sleep", A: short + cfg["cleanup_ms"] + 1700})
				c.Program = append(c.Program, simrt.Op{Actor: m, Kind: pk(r, "hb", "commit"), A: g, B: mask()})
			default: // slow: think time around the session timeout
				c.Program = append(c.Program, simrt.Op{Actor: m, Kind: "cycle", A: g, B: mask(), C: iters, D: pk[int64](r, session-200, session+200, session*2)})
			}
		}
		if r.IntN(4) == 0 {
			// the metadata store refuses group writes for a while (possibly longer than a session timeout):
			// members that keep heartbeating stay members
			c.Faults = append(c.Faults, simrt.Fault{Kind: "store.err", Op: "store.PutConsumerGroup", Nth: 2 + r.IntN(12), Count: pk(r, 3, 20, 120, 400)})
		}
	case "C15":
		g := int64(r.IntN(2))
		longLived := r.IntN(3) == 0 // everybody stays for several session timeouts, heartbeating well within them
		for m := 0; m < nm; m++ {
			if longLived {
				// (the expiry sweep runs more often than these members heartbeat: a new coordinator judges
				// each member by what the store says about it before the member's next request arrives)
				cfg["cleanup_ms"] = 500
				c.Program = append(c.Program, simrt.Op{Actor: m, Kind: "cycle", A: g, B: mask(), C: 24, D: session / 4, S: "diligent"})
				continue
			}
			c.Program = append(c.Program, simrt.Op{Actor: m, Kind: "cycle", A: g, B: mask(), C: iters * 2, D: pk[int64](r, 20, 100, 400)})
			if r.IntN(4) == 0 {
				c.Program = append(c.Program, simrt.Op{Actor: m, Kind: "leave"})
			}
		}
		nfo := 1 + r.IntN(2)
		for i := 0; i < nfo; i++ {
			wait := int64(5 + r.IntN(3000))
			if r.IntN(3) == 0 {
				// a switch after the group has been stable for longer than a session timeout: what the
				// store holds about each member's liveness is then older than the timeout unless it is kept fresh
				wait = session + int64(r.IntN(3000))
			}
			c.Program = append(c.Program, simrt.Op{Actor: 200, Kind: "sleep", A: wait}, simrt.Op{Actor: 200, Kind: "failover", B: int64(r.IntN(2))})
		}
		if r.IntN(4) == 0 {
			// a group write fails once: the request that needed it is answered with an error, the client
			// retries, and the retry must leave the store as the coordinator has it
			c.Faults = append(c.Faults, simrt.Fault{Kind: "store.err", Op: "store.PutConsumerGroup", Nth: r.IntN(8)})
		} else if r.IntN(2) == 0 {
			// a read of the group fails once (typically the new coordinator's first): the request is answered
			// with an error and retried; the stored group must not be replaced by a fresh one
			c.Faults = append(c.Faults, simrt.Fault{Kind: pk(r, "store.err", "store.timeout"), Op: "store.FetchConsumerGroup", Nth: r.IntN(5), Count: 1 + r.IntN(3)})
		}
	default: // C12, C14
		g := int64(r.IntN(2))
		for m := 0; m < nm; m++ {
			think := pk[int64](r, 1, 30, 200, 1000)
			c.Program = append(c.Program, simrt.Op{Actor: m, Kind: "sleep", A: int64(r.IntN(400))})
			c.Program = append(c.Program, simrt.Op{Actor: m, Kind: "cycle", A: g, B: mask(), C: iters, D: think})
			switch r.IntN(5) {
			case 0:
				c.Program = append(c.Program, simrt.Op{Actor: m, Kind: "leave"}, simrt.Op{Actor: m, Kind: "cycle", A: g, B: mask(), C: iters / 2, D: think})
				if r.IntN(2) == 0 {
					// the LeaveGroup of the identity it left with arrives once more (a retry that was
					// delayed), while the group is working in a later generation
					c.Program = append(c.Program, simrt.Op{Actor: m, Kind: "stale-leave"}, simrt.Op{Actor: m, Kind: "cycle", A: g, B: mask(), C: iters / 2, D: think})
				}
			case 1: // change subscription while staying in the group
				c.Program = append(c.Program, simrt.Op{Actor: m, Kind: "join", A: g, B: mask(), C: session, D: cfg["rebalance_ms"]}, simrt.Op{Actor: m, Kind: "sync"}, simrt.Op{Actor: m, Kind: "cycle", A: g, B: mask(), C: iters / 2, D: think})
			case 2:
				c.Program = append(c.Program, simrt.Op{Actor: m, Kind: "sleep", A: session + cfg["cleanup_ms"] + 2000}, simrt.Op{Actor: m, Kind: "cycle", A: g, B: mask(), C: iters / 2, D: think})
			}
		}
		if prop == "C12" && r.IntN(4) == 0 {
			c.Program = append(c.Program, simrt.Op{Actor: 200, Kind: "sleep", A: int64(r.IntN(2000))}, simrt.Op{Actor: 200, Kind: "grow", A: int64(r.IntN(4)), B: int64(r.IntN(3))})
		}
		if prop == "C14" && r.IntN(3) == 0 {
			c.Program = append(c.Program, simrt.Op{Actor: 200, Kind: "sleep", A: int64(5 + r.IntN(2000))}, simrt.Op{Actor: 200, Kind: "failover", B: 1})
		}
		if prop == "C12" && r.IntN(3) == 0 {
			// the coordinator is replaced while a generation's members are still collecting their
			// assignments: those who sync after the switch get what the store holds
			for i := 0; i < 1+r.IntN(2); i++ {
				c.Program = append(c.Program, simrt.Op{Actor: 201, Kind: "sleep", A: int64(5 + r.IntN(1500))}, simrt.Op{Actor: 201, Kind: "failover", B: int64(r.IntN(2))})
			}
		}
		if r.IntN(4) == 0 {
			c.Faults = append(c.Faults, simrt.Fault{Kind: "store.err", Op: "store.PutConsumerGroup", Nth: r.IntN(10)})
		} else if r.IntN(4) == 0 {
			c.Faults = append(c.Faults, simrt.Fault{Kind: pk(r, "store.err", "store.timeout"), Op: "store.FetchConsumerGroup", Nth: r.IntN(5), Count: 1 + r.IntN(3)})
		}
	}
	return c
}
