package broker

// W11: the real Server.handleConnection loop and ReadProxyProtocol on
// simulated connections that fragment, end and reset at arbitrary bytes.
//
// C10: "For any bytes a client sends, frame reading and request-header/body
// parsing return either a request or an error, never a crash. Every supported
// request encoded by a standard Kafka client codec parses back to the same API
// key, version, correlation id, client id and body."
//
// C26: "When a connection starts with a valid PROXY v1 or v2 header, the broker
// reports exactly the source and destination addresses it encodes. The bytes
// after the header reach the Kafka reader unchanged. A connection without such
// a header passes through unchanged, and no input makes the parser crash."

import (
	"bytes"
	"context"
	"encoding/binary"
	"fmt"
	"io"
	"log"
	"math/rand/v2"
	"net"
	"sort"
	"strings"
	"testing"

	"github.com/KafScale/platform/pkg/protocol"
	"github.com/twmb/franz-go/pkg/kmsg"

	"verif/sim/driver"
	"verif/sim/kclient"
	"verif/sim/simnet"
	"verif/sim/simrt"
)

func TestSim(t *testing.T) { driver.Main(t, w11World) }

var w11World = driver.World{
	Name: "w11-conn",
	Gen:  w11Gen,
	Run:  w11Run,
	Real: []string{"pkg/broker Server.handleConnection, ReadProxyProtocol", "pkg/protocol ReadFrame, ParseRequest (header + body), WriteFrame", "kmsg codecs"},
	Stub: []string{"TCP connections (simnet.ScriptConn: fragmentation, EOF, reset)", "the broker's request handler (a recorder)", "scheduler (simulator)"},
}

func w11Gen(r *rand.Rand, prop, tier string) *simrt.Case {
	c := &simrt.Case{Config: map[string]int64{}}
	nconn := 1 + r.IntN(4)
	if prop == "C26" {
		for cn := 0; cn < nconn; cn++ {
			c.Program = append(c.Program, simrt.Op{Actor: cn, Kind: "proxy", A: int64(r.IntN(16)), B: int64(r.Uint32()), C: int64(r.IntN(120)) - 40, D: int64([]int{0, 1, 2, 7, 64}[r.IntN(5)])})
		}
		return c
	}
	for cn := 0; cn < nconn; cn++ {
		nf := 1 + r.IntN(6)
		for i := 0; i < nf; i++ {
			op := simrt.Op{Actor: cn, Kind: "valid", A: int64(r.IntN(200)), B: int64(r.IntN(30)), C: int64(r.Uint32())}
			if r.IntN(3) == 0 {
				op.Kind = "mutant"
				op.S = []string{"truncate", "clientid-neg", "clientid-huge", "tag-count-huge", "tag-size-huge", "tag-size-2e63", "tag-varint-overlong", "len-zero", "len-short", "len-more-than-sent", "len-big", "garbage", "neg-len", "tag-size-maxint64"}[r.IntN(14)]
				op.D = int64(r.IntN(64))
			}
			c.Program = append(c.Program, op)
		}
		c.Program = append(c.Program, simrt.Op{Actor: cn, Kind: "conn", D: int64([]int{0, 1, 3, 16, 1000}[r.IntN(5)]), A: int64(r.IntN(4)), B: int64(r.Uint32())})
	}
	return c
}

// ---------------------------------------------------------------- request frames

type sentFrame struct {
	valid   bool
	key     int16
	version int16
	corr    int32
	client  *string
	body    []byte
	payload []byte
}

var w11Keys []int16

func init() {
	for k := int16(0); k < 80; k++ {
		if kmsg.RequestForKey(k) != nil {
			w11Keys = append(w11Keys, k)
		}
	}
}

func w11Fill(req kmsg.Request, r *rand.Rand) {
	s := func() string { return fmt.Sprintf("n%d", r.IntN(1000)) }
	switch q := req.(type) {
	case *kmsg.ProduceRequest:
		q.Acks, q.TimeoutMillis = int16(r.IntN(3)-1), int32(r.IntN(5000))
		for i := 0; i < r.IntN(3); i++ {
			t := kmsg.NewProduceRequestTopic()
			t.Topic = s()
			for j := 0; j < 1+r.IntN(2); j++ {
				p := kmsg.NewProduceRequestTopicPartition()
				p.Partition = int32(r.IntN(8))
				p.Records = make([]byte, r.IntN(90))
				for x := range p.Records {
					p.Records[x] = byte(r.IntN(256))
				}
				t.Partitions = append(t.Partitions, p)
			}
			q.Topics = append(q.Topics, t)
		}
	case *kmsg.FetchRequest:
		q.ReplicaID, q.MaxWaitMillis, q.MinBytes, q.MaxBytes = -1, int32(r.IntN(500)), int32(r.IntN(10)), int32(r.IntN(1<<20))
		for i := 0; i < r.IntN(3); i++ {
			t := kmsg.NewFetchRequestTopic()
			t.Topic = s()
			if q.Version >= 13 {
				t.Topic = ""
				for x := range t.TopicID {
					t.TopicID[x] = byte(r.IntN(256))
				}
			}
			p := kmsg.NewFetchRequestTopicPartition()
			p.Partition, p.FetchOffset, p.PartitionMaxBytes = int32(r.IntN(8)), int64(r.IntN(1000)), int32(r.IntN(1<<20))
			t.Partitions = append(t.Partitions, p)
			q.Topics = append(q.Topics, t)
		}
	case *kmsg.MetadataRequest:
		for i := 0; i < r.IntN(3); i++ {
			t := kmsg.NewMetadataRequestTopic()
			t.Topic = kmsg.StringPtr(s())
			q.Topics = append(q.Topics, t)
		}
	case *kmsg.JoinGroupRequest:
		q.Group, q.MemberID, q.ProtocolType, q.SessionTimeoutMillis = s(), s(), "consumer", int32(r.IntN(30000))
		p := kmsg.NewJoinGroupRequestProtocol()
		p.Name, p.Metadata = "range", []byte{0, 0, 0, 0, 0, 0}
		q.Protocols = append(q.Protocols, p)
	case *kmsg.OffsetCommitRequest:
		q.Group, q.MemberID, q.Generation = s(), s(), int32(r.IntN(10))
		t := kmsg.NewOffsetCommitRequestTopic()
		t.Topic = s()
		p := kmsg.NewOffsetCommitRequestTopicPartition()
		p.Offset, p.Metadata = int64(r.IntN(1000)), kmsg.StringPtr(s())
		t.Partitions = append(t.Partitions, p)
		q.Topics = append(q.Topics, t)
	case *kmsg.ApiVersionsRequest:
		q.ClientSoftwareName, q.ClientSoftwareVersion = "sim", "1.0"
	case *kmsg.CreateTopicsRequest:
		t := kmsg.NewCreateTopicsRequestTopic()
		t.Topic, t.NumPartitions, t.ReplicationFactor = s(), int32(1+r.IntN(4)), 1
		q.Topics = append(q.Topics, t)
	case *kmsg.FindCoordinatorRequest:
		q.CoordinatorKey = s()
	case *kmsg.HeartbeatRequest:
		q.Group, q.MemberID, q.Generation = s(), s(), int32(r.IntN(5))
	}
}

func w11Frame(op simrt.Op) *sentFrame {
	r := rand.New(rand.NewPCG(uint64(op.C), uint64(op.A)*31+uint64(op.B)))
	key := w11Keys[int(op.A)%len(w11Keys)]
	req := kmsg.RequestForKey(key)
	v := int16(int(op.B) % (int(req.MaxVersion()) + 1))
	req.SetVersion(v)
	w11Fill(req, r)
	f := &sentFrame{valid: true, key: key, version: v, corr: int32(r.Uint32())}
	switch r.IntN(3) {
	case 0:
		f.client = nil
	case 1:
		f.client = kmsg.StringPtr("")
	default:
		f.client = kmsg.StringPtr(fmt.Sprintf("client-%d", r.IntN(100)))
	}
	f.body = req.AppendTo(nil)
	f.payload = kclient.EncodeRequest(req, f.corr, f.client)
	if op.Kind == "valid" {
		return f
	}
	f.valid = false
	p := append([]byte(nil), f.payload...)
	flexible := req.IsFlexible()
	switch op.S {
	case "truncate":
		p = p[:int(op.D)%(len(p)+1)]
	case "clientid-neg":
		binary.BigEndian.PutUint16(p[8:10], uint16(0x10000-2-int(op.D)%200))
	case "clientid-huge":
		binary.BigEndian.PutUint16(p[8:10], 0x7fff)
	case "tag-count-huge", "tag-size-huge", "tag-size-2e63", "tag-varint-overlong", "tag-size-maxint64":
		// rebuild with a hostile tagged-field section after the client id
		idLen := int(int16(binary.BigEndian.Uint16(p[8:10])))
		if idLen < 0 {
			idLen = 0
		}
		head := append([]byte(nil), p[:10+idLen]...)
		rest := p[10+idLen:]
		if flexible && len(rest) > 0 {
			rest = rest[1:] // drop the empty tag section
		}
		var tags []byte
		switch op.S {
		case "tag-count-huge":
			tags = binary.AppendUvarint(nil, 1<<40)
		case "tag-varint-overlong":
			// more continuation bytes than a 64-bit value can have (binary.Uvarint reports an overflow, n < 0)
			tags = append(bytes.Repeat([]byte{0xff}, 10+int(op.D)%3), 0x02)
		case "tag-size-huge":
			tags = append(binary.AppendUvarint(binary.AppendUvarint(nil, 1), 7), binary.AppendUvarint(nil, 1<<31-1+uint64(op.D))...)
		case "tag-size-maxint64":
			// the largest sizes a signed 64-bit length can hold: position + size overflows
			tags = append(binary.AppendUvarint(binary.AppendUvarint(nil, 1), 7), binary.AppendUvarint(nil, 1<<63-1-uint64(op.D)%24)...)
		default:
			tags = append(binary.AppendUvarint(binary.AppendUvarint(nil, 1), 7), binary.AppendUvarint(nil, 1<<63+uint64(op.D))...)
		}
		p = append(append(head, tags...), rest...)
	case "garbage":
		p = make([]byte, int(op.D))
		for i := range p {
			p[i] = byte(r.IntN(256))
		}
	}
	f.payload = p
	return f
}

// wire returns the bytes that go on the connection for this frame.
func (f *sentFrame) wire(op simrt.Op) []byte {
	n := uint32(len(f.payload))
	switch op.S {
	case "len-zero":
		n = 0
	case "len-short":
		n = uint32(int(op.D) % 8)
	case "len-more-than-sent":
		n = uint32(len(f.payload) + 1 + int(op.D)*1000)
	case "len-big":
		n = 16 << 20
	case "neg-len":
		n = 0x80000000 + uint32(op.D)
	}
	return append(binary.BigEndian.AppendUint32(nil, n), f.payload...)
}

type recorder struct {
	got []recorded
}

type recorded struct {
	header *protocol.RequestHeader
	body   []byte
}

func (h *recorder) Handle(ctx context.Context, header *protocol.RequestHeader, req kmsg.Request) ([]byte, error) {
	h.got = append(h.got, recorded{header: header, body: req.AppendTo(nil)})
	if header.CorrelationID%5 == 0 {
		return nil, nil
	}
	if header.CorrelationID%7 == 0 {
		return nil, fmt.Errorf("handler error")
	}
	return []byte{0, 0, 0, 1, 0, 0}, nil
}

// ---------------------------------------------------------------- PROXY headers

type proxyCase struct {
	stream   []byte
	payload  []byte
	hasHdr   bool
	wantInfo *ProxyInfo // nil = no address expectation
	local    bool
	hdrLen   int
	what     string
}

func w11Proxy(op simrt.Op) *proxyCase {
	r := rand.New(rand.NewPCG(uint64(op.B), uint64(op.A)))
	pc := &proxyCase{}
	pc.payload = make([]byte, r.IntN(60))
	for i := range pc.payload {
		pc.payload[i] = byte(r.IntN(256))
	}
	ip4 := func() net.IP { return net.IPv4(byte(1+r.IntN(250)), byte(r.IntN(256)), byte(r.IntN(256)), byte(1+r.IntN(250))).To4() }
	ip6 := func() net.IP {
		b := make(net.IP, 16)
		for i := range b {
			b[i] = byte(r.IntN(256))
		}
		b[0] = 0x20
		return b
	}
	sp, dp := 1+r.IntN(65535), 1+r.IntN(65535)
	var hdr []byte
	v2 := func(cmd, fam byte, addrs []byte, extra int) []byte {
		h := append([]byte(nil), proxyV2Signature...)
		h = append(h, 0x20|cmd, fam)
		tlv := make([]byte, extra)
		h = binary.BigEndian.AppendUint16(h, uint16(len(addrs)+extra))
		return append(append(h, addrs...), tlv...)
	}
	ports := func() []byte {
		return binary.BigEndian.AppendUint16(binary.BigEndian.AppendUint16(nil, uint16(sp)), uint16(dp))
	}
	mk := func(src, dst net.IP) *ProxyInfo {
		return &ProxyInfo{SourceIP: src.String(), DestIP: dst.String(), SourcePort: sp, DestPort: dp,
			SourceAddr: net.JoinHostPort(src.String(), fmt.Sprint(sp)), DestAddr: net.JoinHostPort(dst.String(), fmt.Sprint(dp))}
	}
	switch op.A % 16 {
	case 0:
		s, d := ip4(), ip4()
		hdr, pc.wantInfo, pc.what = []byte(fmt.Sprintf("PROXY TCP4 %s %s %d %d\r\n", s, d, sp, dp)), mk(s, d), "v1 TCP4"
	case 1:
		s, d := ip6(), ip6()
		hdr, pc.wantInfo, pc.what = []byte(fmt.Sprintf("PROXY TCP6 %s %s %d %d\r\n", s, d, sp, dp)), mk(s, d), "v1 TCP6"
	case 2:
		hdr, pc.local, pc.what = []byte("PROXY UNKNOWN\r\n"), true, "v1 UNKNOWN"
	case 3:
		hdr, pc.local, pc.what = []byte("PROXY UNKNOWN ffff:f...f:ffff ffff:f...f:ffff 65535 65535\r\n"), true, "v1 UNKNOWN long"
	case 4:
		s, d := ip4(), ip4()
		hdr, pc.wantInfo, pc.what = v2(1, 0x11, append(append(append([]byte(nil), s...), d...), ports()...), 0), mk(s, d), "v2 PROXY TCP/IPv4"
	case 5:
		s, d := ip6(), ip6()
		hdr, pc.wantInfo, pc.what = v2(1, 0x21, append(append(append([]byte(nil), s...), d...), ports()...), 0), mk(s, d), "v2 PROXY TCP/IPv6"
	case 6:
		s, d := ip4(), ip4()
		hdr, pc.wantInfo, pc.what = v2(1, 0x12, append(append(append([]byte(nil), s...), d...), ports()...), 0), mk(s, d), "v2 PROXY UDP/IPv4"
	case 7:
		s, d := ip6(), ip6()
		hdr, pc.wantInfo, pc.what = v2(1, 0x22, append(append(append([]byte(nil), s...), d...), ports()...), 0), mk(s, d), "v2 PROXY UDP/IPv6"
	case 8:
		hdr, pc.local, pc.what = v2(0, 0x00, nil, r.IntN(20)), true, "v2 LOCAL"
	case 9:
		s, d := ip4(), ip4()
		hdr, pc.wantInfo, pc.what = v2(1, 0x11, append(append(append([]byte(nil), s...), d...), ports()...), 1+r.IntN(30)), mk(s, d), "v2 PROXY TCP/IPv4 with TLVs"
	case 10:
		hdr, pc.what = v2(1, 0x31, make([]byte, 216), 0), "v2 PROXY UNIX stream"
	case 11:
		hdr, pc.what = v2(1, 0x00, nil, r.IntN(10)), "v2 PROXY UNSPEC"
	case 12: // no header: a Kafka frame
		pc.what = "no header"
	case 13: // no header, starts like v1
		pc.payload = append([]byte("PROXX "), pc.payload...)
		pc.what = "no header, PROX.. lookalike"
	case 14: // no header, starts like the v2 signature but is not
		pc.payload = append([]byte{'\r', '\n', '\r', '\n', 0x00, '\r', '\n', 'Q', 'U', 'I', 'T', 'X'}, pc.payload...)
		pc.what = "no header, v2 signature lookalike"
	default:
		pc.payload = append([]byte{0, 0, 0, byte(len(pc.payload))}, pc.payload...)
		pc.what = "no header, framed"
	}
	pc.hasHdr = hdr != nil
	pc.hdrLen = len(hdr)
	pc.stream = append(append([]byte(nil), hdr...), pc.payload...)
	return pc
}

// ---------------------------------------------------------------- run

func w11Run(t *testing.T, c *simrt.Case, prop string, keepTrace bool) simrt.Result {
	log.SetOutput(io.Discard)
	var s *simrt.Sim
	res := simrt.Run(t, c, keepTrace, func(sim *simrt.Sim) {
		s = sim
		actors := map[int][]simrt.Op{}
		var ids []int
		for _, op := range c.Program {
			if _, ok := actors[op.Actor]; !ok {
				ids = append(ids, op.Actor)
			}
			actors[op.Actor] = append(actors[op.Actor], op)
		}
		sort.Ints(ids)
		for _, id := range ids {
			id, ops := id, actors[id]
			s.Spawn(fmt.Sprintf("conn%02d", id), fmt.Sprintf("srv-conn%02d", id), true, func() {
				if prop == "C26" {
					for _, op := range ops {
						if op.Kind == "proxy" {
							w11DoProxy(s, id, op)
						}
					}
					return
				}
				w11DoConn(s, id, ops)
			})
		}
	}, nil)
	if len(res.Stats.TaskPanics) > 0 && res.Violation == nil && simrt.PanicInHarness(res.Stats.TaskPanics[0]) {
		res.Stats.Probes["HARNESS-PANIC"]++
	} else if len(res.Stats.TaskPanics) > 0 && res.Violation == nil {
		clause, p := "server-task-panicked", "C10"
		if prop == "C26" {
			p, clause = "C26", "proxy-parser-panicked"
		}
		msg := res.Stats.TaskPanics[0]
		if i := strings.Index(msg, "\n"); i > 0 {
			// keep the panic value and the innermost repo frames
			lines := strings.Split(msg, "\n")
			var keep []string
			for _, l := range lines {
				if strings.Contains(l, "platform/pkg/") && !strings.Contains(l, "zz_w11") {
					keep = append(keep, strings.TrimSpace(l))
				}
			}
			if len(keep) > 3 {
				keep = keep[:3]
			}
			msg = lines[0] + " @ " + strings.Join(keep, " <- ")
		}
		res.Violation = &simrt.Violation{Property: p, Clause: clause, Detail: msg}
	}
	if res.Violation != nil && res.Violation.Property != prop {
		res.Violation = nil
	}
	return res
}

func w11DoConn(s *simrt.Sim, id int, ops []simrt.Op) {
	var frames []*sentFrame
	var stream []byte
	maxFrag, endMode := 0, int64(0)
	for _, op := range ops {
		switch op.Kind {
		case "valid", "mutant":
			f := w11Frame(op)
			frames = append(frames, f)
			stream = append(stream, f.wire(op)...)
			if op.Kind == "mutant" && (strings.HasPrefix(op.S, "len-") || op.S == "neg-len") {
				f.valid = false
			}
		case "conn":
			maxFrag, endMode = int(op.D), op.A
		}
	}
	conn := simnet.NewScriptConn(fmt.Sprintf("conn%02d", id), stream)
	conn.MaxFrag = maxFrag
	if endMode == 1 && len(stream) > 0 {
		conn.RSTAt = int(uint(id*7919+len(stream)) % uint(len(stream)+1))
	}
	rec := &recorder{}
	srv := &Server{Handler: rec}
	if endMode == 2 {
		srv.ConnContextFunc = func(c net.Conn) (net.Conn, *ConnContext, error) {
			wrapped, info, err := ReadProxyProtocol(c)
			if err != nil {
				return nil, nil, err
			}
			_ = info
			return wrapped, &ConnContext{}, nil
		}
	}
	s.Probe("c10.connection")
	srv.handleConnection(conn)
	// every request the handler saw is the next frame of the stream, parsed back exactly
	for i, g := range rec.got {
		if i >= len(frames) || !frames[i].valid {
			if i < len(frames) {
				// a mutated frame was accepted: fine as long as nothing crashed
				s.Probe("c10.mutant-accepted")
				return
			}
			s.Fail("C10", "phantom-request", "connection %d: the handler saw %d requests but only %d frames were sent", id, len(rec.got), len(frames))
			return
		}
		f := frames[i]
		s.Probe("c10.roundtrip-judged")
		same := g.header.APIKey == f.key && g.header.APIVersion == f.version && g.header.CorrelationID == f.corr
		if (g.header.ClientID == nil) != (f.client == nil) || (f.client != nil && *g.header.ClientID != *f.client) {
			same = false
		}
		if !same {
			s.Fail("C10", "header-roundtrip", "connection %d frame %d: sent key=%d v=%d corr=%d client=%v, parsed key=%d v=%d corr=%d client=%v", id, i, f.key, f.version, f.corr, strp(f.client), g.header.APIKey, g.header.APIVersion, g.header.CorrelationID, strp(g.header.ClientID))
			return
		}
		if !bytes.Equal(g.body, f.body) {
			s.Fail("C10", "body-roundtrip", "connection %d frame %d (%s v%d): the parsed request re-encodes to %d bytes that differ from the %d bytes sent", id, i, kmsg.NameForKey(f.key), f.version, len(g.body), len(f.body))
			return
		}
	}
	// every valid frame before the first bad one must have reached the handler (unless the stream was cut)
	if endMode != 1 {
		want := 0
		for _, f := range frames {
			if !f.valid {
				break
			}
			want++
		}
		if len(rec.got) < want {
			s.Fail("C10", "valid-request-dropped", "connection %d: %d well-formed frames were sent before any malformed one, the handler saw %d", id, want, len(rec.got))
		}
	}
}

func strp(p *string) string {
	if p == nil {
		return "<nil>"
	}
	return fmt.Sprintf("%q", *p)
}

func w11DoProxy(s *simrt.Sim, id int, op simrt.Op) {
	pc := w11Proxy(op)
	stream := pc.stream
	cut := -1
	if op.C >= 0 && int(op.C) < len(stream) {
		cut = int(op.C)
		stream = stream[:cut]
	}
	conn := simnet.NewScriptConn(fmt.Sprintf("pconn%02d", id), stream)
	conn.MaxFrag = int(op.D)
	s.Probe("c26.case")
	wrapped, info, err := ReadProxyProtocol(conn)
	var rest []byte
	if wrapped != nil {
		buf := make([]byte, 17)
		for {
			n, rerr := wrapped.Read(buf)
			rest = append(rest, buf[:n]...)
			if rerr != nil {
				break
			}
		}
	}
	truncatedInHeader := cut >= 0 && cut < pc.hdrLen
	switch {
	case pc.hasHdr && !truncatedInHeader:
		s.Probe("c26.complete-header")
		if err != nil {
			s.Fail("C26", "valid-header-rejected", "%s: ReadProxyProtocol returned %v", pc.what, err)
			return
		}
		want := pc.payload
		if cut >= 0 {
			want = pc.stream[pc.hdrLen:cut]
		}
		if !bytes.Equal(rest, want) {
			s.Fail("C26", "stream-not-preserved", "%s: %d bytes follow the header, the reader got %d different bytes", pc.what, len(want), len(rest))
			return
		}
		if pc.local {
			if info == nil || !info.Local {
				s.Fail("C26", "local-not-reported", "%s: expected a LOCAL/UNKNOWN report, got %+v", pc.what, info)
			}
			return
		}
		if pc.wantInfo != nil {
			if info == nil || info.SourceAddr != pc.wantInfo.SourceAddr || info.DestAddr != pc.wantInfo.DestAddr || info.SourcePort != pc.wantInfo.SourcePort || info.DestPort != pc.wantInfo.DestPort || info.SourceIP != pc.wantInfo.SourceIP || info.DestIP != pc.wantInfo.DestIP {
				got := "<nil>"
				if info != nil {
					got = fmt.Sprintf("%s -> %s", info.SourceAddr, info.DestAddr)
				}
				s.Fail("C26", "wrong-addresses", "%s encodes %s -> %s, reported %s", pc.what, pc.wantInfo.SourceAddr, pc.wantInfo.DestAddr, got)
			}
		}
	case !pc.hasHdr:
		s.Probe("c26.headerless")
		if err != nil {
			// an error is tolerable only when the stream ended inside something that still looked like a header
			looksLike := bytes.HasPrefix(stream, []byte("PROXY")) || (len(stream) >= 5 && bytes.HasPrefix(stream, proxyV2Signature[:5]) && len(stream) < len(proxyV2Signature))
			if !looksLike {
				s.Fail("C26", "headerless-rejected", "%s (%d bytes): ReadProxyProtocol returned %v", pc.what, len(stream), err)
			}
			return
		}
		if info != nil {
			s.Fail("C26", "phantom-header", "%s: a header was reported (%+v) although the stream has none", pc.what, info)
			return
		}
		if !bytes.Equal(rest, stream) {
			s.Fail("C26", "stream-not-preserved", "%s: the %d-byte stream reached the reader as %d different bytes", pc.what, len(stream), len(rest))
		}
	default: // header cut short by EOF
		s.Probe("c26.truncated-header")
		if err == nil && info != nil && (pc.wantInfo != nil || pc.local) {
			s.Fail("C26", "truncated-header-accepted", "%s cut after %d of %d header bytes was accepted: %+v", pc.what, cut, pc.hdrLen, info)
			return
		}
		if err == nil && !bytes.Equal(rest, stream) {
			s.Fail("C26", "partial-consumption", "%s cut after %d of %d header bytes: no error, but only %d of the %d bytes reached the reader", pc.what, cut, pc.hdrLen, len(rest), len(stream))
		}
	}
}
