package storage_test

// W7: point-in-time restore (storage.RecoverTopicToTimestamp) over a simulated
// S3 holding generated source histories; every S3 call of the restore can fail
// (before or after taking effect), including the rollback's deletes.
//
// C08: "A successful restore of a topic to time T produces, per partition,
// records that are an offset-contiguous prefix of the source partition, cut at
// the final segment's first record later than T. Each restored record matches
// the source record at the same offset byte for byte, and each rewritten batch
// has a valid length, count and CRC. A failed restore leaves no objects under the
// target topic unless deleting them also fails."

import (
	"bytes"
	"context"
	"fmt"
	"math/rand/v2"
	"sort"
	"strings"
	"testing"
	"time"

	"github.com/KafScale/platform/pkg/storage"

	"verif/sim/driver"
	"verif/sim/kafsim"
	"verif/sim/kbatch"
	"verif/sim/kseg"
	"verif/sim/simrt"
	"verif/sim/sims3"
)

func TestSim(t *testing.T) { driver.Main(t, w7World) }

var w7World = driver.World{
	Name: "w7-restore",
	Gen:  w7Gen,
	Run:  w7Run,
	Real: []string{"pkg/storage RecoverTopicToTimestamp (candidate selection, copy, rollback), buildRestorePlan / collectRecoverableBatches / truncateRecordBatchToTimestamp / scanRecord", "pkg/storage BuildSegment + IndexBuilder (they write the source segments and the rewritten final segment)"},
	Stub: []string{"S3 (SimS3: every call is a fault point; fail-before and fail-after-applied)", "the producers of the source history (generated batches)", "scheduler, clock"},
}

func pick[T any](r *rand.Rand, xs ...T) T { return xs[r.IntN(len(xs))] }

func w7Gen(r *rand.Rand, prop, tier string) *simrt.Case {
	c := &simrt.Case{Config: map[string]int64{}}
	cfg := c.Config
	cfg["seed"] = int64(r.Uint32())
	cfg["partitions"] = int64(1 + r.IntN(3))
	cfg["segments"] = int64(1 + r.IntN(4))
	cfg["batches"] = int64(1 + r.IntN(3))
	cfg["records"] = int64(1 + r.IntN(4))
	cfg["index_interval"] = pick[int64](r, 1, 2, 100)
	cfg["skew"] = pick[int64](r, 0, 0, 1)           // segment creation times may precede their records
	cfg["disorder"] = pick[int64](r, 0, 0, 1)       // record timestamps may go backwards
	cfg["compressed"] = pick[int64](r, 0, 0, 0, 1)  // some batches carry a compression codec
	cfg["first_base"] = pick[int64](r, 0, 0, 7)     // partitions need not start at offset 0
	cfg["subset"] = pick[int64](r, 0, 0, 1)         // restore only some partitions
	cfg["cut"] = int64(r.IntN(1000))                // where T falls (per mille of the history's time span; >=950: after everything)
	cfg["cut_exact"] = pick[int64](r, 0, 0, 1)      // T equals a record timestamp / a creation time exactly
	cfg["orphan"] = pick[int64](r, 0, 0, 0, 1)      // one source segment has no index object
	cfg["stray_target"] = pick[int64](r, 0, 0, 1)   // the target prefix already holds a non-segment object
	cfg["s3_lat_us"] = pick[int64](r, 100, 2000)
	c.Program = []simrt.Op{{Actor: 0, Kind: "restore"}}
	for i := 0; i < pick(r, 0, 0, 1, 1, 2, 3); i++ {
		switch r.IntN(6) {
		case 0:
			c.Faults = append(c.Faults, simrt.Fault{Kind: "s3.fail_before", Op: "s3.put", Nth: r.IntN(8)})
		case 1:
			c.Faults = append(c.Faults, simrt.Fault{Kind: "s3.fail_after", Op: "s3.put", Nth: r.IntN(8)})
		case 2:
			c.Faults = append(c.Faults, simrt.Fault{Kind: "s3.fail_before", Op: "s3.get", Nth: r.IntN(12)})
		case 3:
			c.Faults = append(c.Faults, simrt.Fault{Kind: "s3.fail_before", Op: "s3.list", Nth: r.IntN(2)})
		case 4:
			c.Faults = append(c.Faults, simrt.Fault{Kind: pick(r, "s3.del.fail_before", "s3.del.fail_after"), Op: "s3.del", Nth: r.IntN(4)})
		default:
			c.Faults = append(c.Faults, simrt.Fault{Kind: "s3.fail_after", Op: pick(r, "s3.get", "s3.put", "s3.list"), Nth: r.IntN(20)})
		}
	}
	return c
}

type w7rec struct {
	off   int64
	ts    int64
	bytes []byte // the record's encoding inside its batch
	seg   int
}

type w7seg struct {
	base    int64
	created int64
	nrec    int
	anyComp bool
}

type w7 struct {
	sim  *simrt.Sim
	c    *simrt.Case
	s3   *sims3.Store
	recs map[int32][]w7rec
	segs map[int32][]w7seg
	tmin int64
	tmax int64
	all  []int64 // every record timestamp and creation time
}

func (w *w7) cfg(n string, d int64) int64 { return w.c.Cfg(n, d) }

const (
	w7NS  = "ns"
	w7Src = "src"
	w7Dst = "dst"
)

func w7Run(t *testing.T, c *simrt.Case, prop string, keepTrace bool) simrt.Result {
	w := &w7{c: c, recs: map[int32][]w7rec{}, segs: map[int32][]w7seg{}}
	res := simrt.Run(t, c, keepTrace, func(s *simrt.Sim) {
		w.sim = s
		w.setup()
	}, nil)
	if res.Violation != nil && res.Violation.Property != prop {
		res.Stats.Probes["foreign:"+res.Violation.Property+"/"+res.Violation.Clause]++
		res.Violation = nil
	}
	return res
}

func (w *w7) buildSource() {
	r := rand.New(rand.NewPCG(uint64(w.cfg("seed", 1)), 99))
	t0 := int64(1_700_000_000_000)
	w.tmin, w.tmax = t0, t0
	np := int32(w.cfg("partitions", 1))
	for p := int32(0); p < np; p++ {
		next := w.cfg("first_base", 0)
		tcur := t0 + int64(r.IntN(500))
		nseg := 1 + r.IntN(int(w.cfg("segments", 1)))
		for s := 0; s < nseg; s++ {
			var batches []storage.RecordBatch
			sg := w7seg{base: next}
			segMax := tcur
			nb := 1 + r.IntN(int(w.cfg("batches", 1)))
			for b := 0; b < nb; b++ {
				n := 1 + r.IntN(int(w.cfg("records", 1)))
				var recs []kbatch.Record
				first := int64(0)
				maxTs := int64(0)
				for i := 0; i < n; i++ {
					step := int64(r.IntN(1500))
					if w.cfg("disorder", 0) == 1 && r.IntN(4) == 0 {
						step = -int64(r.IntN(700))
					}
					tcur += step
					if i == 0 {
						first, maxTs = tcur, tcur
					}
					if tcur > maxTs {
						maxTs = tcur
					}
					rec := kbatch.Record{OffsetDelta: int32(i), TsDelta: tcur - first, Key: []byte(fmt.Sprintf("k%d-%d", p, next+int64(i))), Value: []byte(fmt.Sprintf("v-%d-%d-%d", p, next+int64(i), r.IntN(1000)))}
					if r.IntN(3) == 0 {
						rec.Headers = []kbatch.Header{{Key: "h", Value: []byte{byte(i)}}}
					}
					if r.IntN(9) == 0 {
						rec.Key = nil
					}
					recs = append(recs, rec)
					w.recs[p] = append(w.recs[p], w7rec{off: next + int64(i), ts: tcur, bytes: kbatch.EncodeRecord(rec), seg: s})
					w.all = append(w.all, tcur)
					if tcur > w.tmax {
						w.tmax = tcur
					}
					if tcur < w.tmin {
						w.tmin = tcur
					}
				}
				attrs := int16(0)
				if w.cfg("compressed", 0) == 1 && r.IntN(3) == 0 {
					attrs = 1 + int16(r.IntN(4)) // the restore never decompresses: the payload stays as is
					sg.anyComp = true
				}
				raw := kbatch.BuildRaw(next, int32(n-1), int32(n), first, maxTs, attrs, kbatch.EncodeRecords(recs))
				rb, err := storage.NewRecordBatchFromBytes(raw)
				if err != nil {
					w.sim.Fail("HARNESS", "setup", "NewRecordBatchFromBytes: %v", err)
					return
				}
				batches = append(batches, rb)
				next += int64(n)
				sg.nrec += n
				if maxTs > segMax {
					segMax = maxTs
				}
			}
			sg.created = segMax + int64(r.IntN(3000))
			if w.cfg("skew", 0) == 1 && r.IntN(2) == 0 {
				sg.created = segMax - int64(r.IntN(4000))
			}
			w.all = append(w.all, sg.created)
			art, err := storage.BuildSegment(storage.SegmentWriterConfig{IndexIntervalMessages: int32(w.cfg("index_interval", 1))}, batches, time.UnixMilli(sg.created))
			if err != nil {
				w.sim.Fail("HARNESS", "setup", "BuildSegment: %v", err)
				return
			}
			w.s3.Poke(fmt.Sprintf("%s/%s/%d/segment-%020d.kfs", w7NS, w7Src, p, sg.base), art.SegmentBytes)
			if !(w.cfg("orphan", 0) == 1 && p == 0 && s == nseg-1) {
				w.s3.Poke(fmt.Sprintf("%s/%s/%d/segment-%020d.index", w7NS, w7Src, p, sg.base), art.IndexBytes)
			}
			w.segs[p] = append(w.segs[p], sg)
			tcur += int64(r.IntN(5000))
		}
	}
}

func (w *w7) setup() {
	s := w.sim
	w.s3 = sims3.New("s3", w.cfg("s3_lat_us", 100))
	w.buildSource()
	if s.Failed() {
		return
	}
	if w.cfg("stray_target", 0) == 1 {
		w.s3.Poke(fmt.Sprintf("%s/%s/README", w7NS, w7Dst), []byte("not a segment"))
	}
	// T
	span := w.tmax - w.tmin + 4000
	T := w.tmin - 1000 + span*w.cfg("cut", 500)/950
	if w.cfg("cut", 500) >= 950 {
		T = w.tmax + 10_000
	}
	if w.cfg("cut_exact", 0) == 1 && len(w.all) > 0 {
		sort.Slice(w.all, func(i, j int) bool { return w.all[i] < w.all[j] })
		T = w.all[int(w.cfg("cut", 0))%len(w.all)]
	}
	var parts []int32
	if w.cfg("subset", 0) == 1 {
		parts = []int32{0}
		if w.cfg("partitions", 1) > 2 {
			parts = append(parts, 2)
		}
	}
	s.Spawn("restore", "cli", true, func() {
		before := w.s3.Keys(w7NS + "/" + w7Dst + "/")
		res, err := storage.RecoverTopicToTimestamp(context.Background(), kafsim.S3{St: w.s3}, storage.TopicRecoveryConfig{
			SourceNamespace: w7NS, SourceTopic: w7Src, TargetNamespace: w7NS, TargetTopic: w7Dst, RestoreTo: time.UnixMilli(T), Partitions: parts,
		})
		if simrt.Dying() {
			return
		}
		if err != nil {
			w.judgeFailure(err, before)
			return
		}
		w.judgeSuccess(res, T, parts, before)
	})
}

func (w *w7) judgeFailure(err error, before []string) {
	w.sim.Probe("c08.restore-failed")
	// "... unless deleting them also fails": object by object
	deleteFailed := map[string]bool{}
	for _, k := range w.s3.FailedDeletes {
		deleteFailed[k] = true
	}
	had := map[string]bool{}
	for _, k := range before {
		had[k] = true
	}
	leftover := false
	for _, k := range w.s3.Keys(w7NS + "/" + w7Dst + "/") {
		if had[k] {
			continue
		}
		if deleteFailed[k] {
			leftover = true
			continue
		}
		w.sim.Fail("C08", "failed-restore-left-objects", "the restore failed (%v) and deleting %s did not fail (failed deletes: %v), yet it exists under the target topic", err, k, w.s3.FailedDeletes)
		return
	}
	if leftover {
		w.sim.Probe("c08.leftover-with-failed-delete")
		return
	}
	w.sim.Probe("c08.failure-clean")
}

func (w *w7) judgeSuccess(res *storage.TopicRecoveryResult, T int64, parts []int32, before []string) {
	w.sim.Probe("c08.restore-succeeded")
	allowed := map[int32]bool{}
	for _, p := range parts {
		allowed[p] = true
	}
	// collect target segments per partition
	type tseg struct {
		key string
		seg *kseg.Segment
	}
	target := map[int32][]tseg{}
	had := map[string]bool{}
	for _, k := range before {
		had[k] = true
	}
	for _, k := range w.s3.Keys(w7NS + "/" + w7Dst + "/") {
		if had[k] {
			continue
		}
		var p int32
		var base int64
		var ext string
		rest := strings.TrimPrefix(k, w7NS+"/"+w7Dst+"/")
		if n, _ := fmt.Sscanf(rest, "%d/segment-%020d.%s", &p, &base, &ext); n != 3 {
			w.sim.Fail("C08", "unexpected-target-object", "restore wrote %s", k)
			return
		}
		if len(allowed) > 0 && !allowed[p] {
			w.sim.Fail("C08", "unrequested-partition-restored", "partition %d was not requested but %s was written", p, k)
			return
		}
		body, _ := w.s3.Peek(k)
		if ext == "index" {
			continue
		}
		sg, err := kseg.Parse(body)
		if err != nil {
			w.sim.Fail("C08", "target-segment-invalid", "%s does not parse: %v", k, err)
			return
		}
		if why := sg.Check(); why != "" {
			w.sim.Fail("C08", "target-segment-invalid", "%s: %s", k, why)
			return
		}
		if sg.BaseOffset != base {
			w.sim.Fail("C08", "target-segment-invalid", "%s starts at offset %d", k, sg.BaseOffset)
			return
		}
		ib, ok := w.s3.Peek(strings.TrimSuffix(k, ".kfs") + ".index")
		if !ok {
			w.sim.Fail("C08", "target-segment-invalid", "%s has no index object", k)
			return
		}
		ix, err := kseg.ParseIndex(ib)
		if err != nil {
			w.sim.Fail("C08", "target-segment-invalid", "index of %s: %v", k, err)
			return
		}
		if why := ix.CheckAgainst(sg); why != "" {
			w.sim.Fail("C08", "target-segment-invalid", "index of %s: %s", k, why)
			return
		}
		target[p] = append(target[p], tseg{k, sg})
	}
	var ps []int32
	for p := range w.recs {
		ps = append(ps, p)
	}
	sort.Slice(ps, func(i, j int) bool { return ps[i] < ps[j] })
	for _, p := range ps {
		if len(allowed) > 0 && !allowed[p] {
			continue
		}
		src := w.recs[p]
		segs := target[p]
		sort.Slice(segs, func(i, j int) bool { return segs[i].seg.BaseOffset < segs[j].seg.BaseOffset })
		// flatten restored records
		n := 0
		for _, ts := range segs {
			for _, b := range ts.seg.Batches {
				if b.Attributes&7 != 0 {
					// compressed batches are copied whole; compare raw payload below by offsets only
				}
				payload := b.Raw[61:]
				pos := 0
				for i := int32(0); i < b.RecordCount; i++ {
					if n >= len(src) {
						w.sim.Fail("C08", "not-a-prefix", "partition %d: target holds more records than the source (%d)", p, len(src))
						return
					}
					want := src[n]
					off := b.BaseOffset + int64(i)
					if off != want.off {
						w.sim.Fail("C08", "not-a-prefix", "partition %d: restored record %d has offset %d, the source's record there has offset %d", p, n, off, want.off)
						return
					}
					if pos+len(want.bytes) > len(payload) || !bytes.Equal(payload[pos:pos+len(want.bytes)], want.bytes) {
						w.sim.Fail("C08", "record-differs", "partition %d offset %d: restored record bytes differ from the source record", p, off)
						return
					}
					pos += len(want.bytes)
					n++
				}
				if pos != len(payload) {
					w.sim.Fail("C08", "target-segment-invalid", "partition %d: batch at %d carries %d bytes after its %d records", p, b.BaseOffset, len(payload)-pos, b.RecordCount)
					return
				}
			}
		}
		w.sim.Probe("c08.partition-judged")
		// the cut: whole segments, then the final one up to its first record later than T
		if n > 0 && n < len(src) {
			w.sim.Probe("c08.partial-restore")
		}
		finalSeg := -1
		if n > 0 {
			finalSeg = src[n-1].seg
		}
		// a segment created at or before T that is followed by another one is copied whole even if (clock
		// skew) some of its records are later than T: the cut then lies in the segment after it
		whole := n == len(src) || src[n].seg != finalSeg
		if whole && finalSeg >= 0 && w.segs[p][finalSeg].created <= T && finalSeg < len(w.segs[p])-1 {
			finalSeg = -2
		}
		for i := 0; i < n; i++ {
			if src[i].seg == finalSeg && src[i].ts > T {
				w.sim.Fail("C08", "cut-too-late", "partition %d: offset %d (timestamp %d) in the final restored segment is later than T=%d but was restored (a record before it in that segment already was later than T, or it is itself the first)", p, src[i].off, src[i].ts, T)
				return
			}
		}
		if n < len(src) && n > 0 && src[n].seg == finalSeg && src[n].ts <= T {
			w.sim.Fail("C08", "cut-too-early", "partition %d: the final restored segment was cut before offset %d, whose timestamp %d is not later than T=%d", p, src[n].off, src[n].ts, T)
			return
		}
		if n == 0 && len(src) > 0 && src[0].ts <= T && w.segs[p][0].created <= T {
			w.sim.Fail("C08", "cut-too-early", "partition %d: nothing was restored although its first record (timestamp %d) and first segment (created %d) are not later than T=%d", p, src[0].ts, w.segs[p][0].created, T)
			return
		}
		// lower bound: a leading run of segments that are older than T by both their creation time and
		// all of their records is restored in full
		need := 0
		for si, sg := range w.segs[p] {
			old := sg.created <= T
			for _, r := range src {
				if r.seg == si && r.ts > T {
					old = false
				}
			}
			if !old {
				break
			}
			need += sg.nrec
		}
		if n < need {
			w.sim.Fail("C08", "old-segment-not-restored", "partition %d: only %d records restored; the first %d belong to segments created before T=%d whose records are all older than T", p, n, need, T)
			return
		}
	}
	// the result describes what was written
	total := 0
	for _, rp := range res.Partitions {
		total += rp.SegmentsCopied
	}
	written := 0
	for _, v := range target {
		written += len(v)
	}
	if total != written || res.SegmentsCopied != written {
		w.sim.Fail("C08", "result-disagrees", "the result reports %d/%d copied segments, %d were written", res.SegmentsCopied, total, written)
	}
}
