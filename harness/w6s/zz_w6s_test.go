package proxy

// W6s: the real SQL proxy connection loop (startup relay, per-query
// authorization with its decision cache, forwarding) between scripted
// PostgreSQL-protocol clients and a fake upstream that records every query
// text it is asked to execute.
//
// C37: "Every query the SQL proxy forwards reads only topics its ACL allows.
// The topics are the ones the upstream server would read when executing exactly
// the forwarded text. A query is never authorized on a different or truncated
// text from the one forwarded."

import (
	"context"
	"encoding/binary"
	"fmt"
	"io"
	"log"
	"math/rand/v2"
	"net"
	"path"
	"strings"
	"testing"
	"time"

	"github.com/jackc/pgproto3/v2"

	"github.com/kafscale/platform/addons/processors/sql-processor/internal/config"
	kafsql "github.com/kafscale/platform/addons/processors/sql-processor/internal/sql"

	"verif/sim/driver"
	"verif/sim/simnet"
	"verif/sim/simrt"
)

func TestSim(t *testing.T) { driver.Main(t, w6sWorld) }

var w6sWorld = driver.World{
	Name: "w6s-sql-proxy",
	Gen:  w6sGen,
	Run:  w6sRun,
	Real: []string{"sql-processor internal/proxy Server.handleConn (startup relay, authorizeQuery, trimQuery, query cache, forwarding), ACL matching", "internal/sql Parse (it also defines which topics the upstream would read for a text)", "pgproto3 codecs"},
	Stub: []string{"PostgreSQL clients (scripted byte streams, fragmented)", "the upstream kafsql server (records each query text, answers CommandComplete/ReadyForQuery; may close mid-session)", "TCP, scheduler, clock"},
}

func pk[T any](r *rand.Rand, xs ...T) T { return xs[r.IntN(len(xs))] }

var w6sTopics = []string{"orders", "orders_eu", "secret", "secret_keys", "audit", "pay", "public.orders", "public.audit", "top_secret_x"}

func w6sGen(r *rand.Rand, prop, tier string) *simrt.Case {
	c := &simrt.Case{Config: map[string]int64{}}
	c.Config["acl"] = int64(r.IntN(10))
	c.Config["cache_ttl_s"] = pk[int64](r, 0, 1, 30)
	c.Config["cache_max"] = pk[int64](r, 0, 2, 100)
	c.Config["max_frag"] = pk[int64](r, 0, 0, 1, 9, 200)
	nconn := 1 + r.IntN(3)
	for cn := 0; cn < nconn; cn++ {
		for i := 0; i < 1+r.IntN(6); i++ {
			c.Program = append(c.Program, simrt.Op{Actor: cn, Kind: "query", A: int64(r.IntN(10)), B: int64(r.Uint32()), C: int64(r.IntN(len(w6sTopics))), D: int64(r.IntN(len(w6sTopics)))})
			if r.IntN(5) == 0 {
				c.Program = append(c.Program, simrt.Op{Actor: cn, Kind: "sleep", A: pk[int64](r, 10, 1500, 40000)})
			}
		}
	}
	if r.IntN(4) == 0 {
		c.Faults = append(c.Faults, simrt.Fault{Kind: "upstream.close", Op: "upstream.query", Nth: r.IntN(5)})
	}
	return c
}

func w6sACL(n int64) ([]string, []string) {
	switch n {
	case 0:
		return nil, nil
	case 1:
		return []string{"orders*", "pay"}, nil
	case 2:
		return nil, []string{"secret*"}
	case 3:
		return []string{"*"}, []string{"secret", "audit"}
	case 4:
		return []string{"orders"}, []string{"orders_eu"}
	case 6:
		// a deny entry inside an allowed pattern
		return []string{"orders*", "secret*"}, []string{"orders_eu", "secret_keys"}
	case 7:
		// glob patterns with more than a trailing star
		return nil, []string{"*secret*", "aud?t*"}
	case 8:
		return []string{"ord?rs*", "pay", "audit"}, []string{"*_keys", "*_eu"}
	case 9:
		// bare names: a schema-qualified spelling is a different name
		return []string{"orders", "audit", "pay"}, nil
	default:
		return []string{"orders", "audit"}, []string{"secret*", "pay"}
	}
}

// buildQuery makes one query text from op fields: statement shape A, topics C/D, padding from B.
func buildQuery(op simrt.Op) string {
	r := rand.New(rand.NewPCG(uint64(op.B), 3))
	t1 := w6sTopics[int(op.C)%len(w6sTopics)]
	t2 := w6sTopics[int(op.D)%len(w6sTopics)]
	pad := func() string {
		switch r.IntN(5) {
		case 0:
			return " "
		case 1:
			return strings.Repeat(" ", 1+r.IntN(40))
		case 2:
			return strings.Repeat(" ", 480+r.IntN(120)) // pushes what follows beyond the 512th byte
		case 3:
			return " \n\t "
		default:
			return strings.Repeat(" \n", 250+r.IntN(60))
		}
	}
	kw := func(s string) string {
		if r.IntN(3) == 0 {
			return strings.ToUpper(s)
		}
		return s
	}
	cols := "*"
	if r.IntN(3) == 0 {
		var cs []string
		for i := 0; i < 1+r.IntN(60); i++ {
			cs = append(cs, pk(r, "_key", "_value", "_offset", "_partition", "_ts"))
		}
		cols = strings.Join(cs, ", ")
	}
	sel := func() string {
		q := kw("select") + " " + cols + " " + kw("from") + " " + t1
		if r.IntN(8) == 0 {
			// a stray statement separator in the middle of the text (one message, forwarded as it is);
			// the upstream's token-based parser reads on behind it
			q += " a ;" + pad() + kw("join") + " " + t2 + " b " + kw("on") + " a._key = b._key " + kw("within") + " 10m " + kw("last") + " 1h"
			return q
		}
		if r.IntN(2) == 0 {
			q += pad() + kw(pk(r, "join", "left join")) + " " + t2 + " " + kw("on") + " " + t1 + "._key = " + t2 + "._key"
		}
		if r.IntN(2) == 0 {
			q += pad() + kw("where") + " _partition = " + fmt.Sprint(r.IntN(3))
		}
		if r.IntN(2) == 0 {
			q += pad() + kw("limit") + " " + fmt.Sprint(1+r.IntN(100))
		}
		return q
	}
	switch op.A {
	case 0:
		return kw("show topics")
	case 1:
		return kw("show partitions from") + pad() + t1
	case 2:
		return kw("describe") + pad() + t1
	case 3:
		return kw("explain") + pad() + sel()
	case 4:
		return "set application_name = 'x'"
	case 5:
		return "  " + sel() + pk(r, " ;", ";", ";;", " ; ;")
	default:
		return sel()
	}
}

type w6s struct {
	sim      *simrt.Sim
	c        *simrt.Case
	srv      *Server
	acl      ACL
	upstream []string // every query text the fake upstream was asked to execute
}

func w6sRun(t *testing.T, c *simrt.Case, prop string, keepTrace bool) simrt.Result {
	w := &w6s{c: c}
	res := simrt.Run(t, c, keepTrace, func(s *simrt.Sim) {
		w.sim = s
		w.setup()
	}, func(s *simrt.Sim) { w.finish() })
	if res.Violation != nil && res.Violation.Property != prop {
		res.Stats.Probes["foreign:"+res.Violation.Property+"/"+res.Violation.Clause]++
		res.Violation = nil
	}
	return res
}

func pgFramer(c *simnet.ServerConn, buf []byte) int {
	if c.Frames == 0 {
		// startup message: int32 length (inclusive), no type byte
		if len(buf) < 4 {
			return 0
		}
		return int(binary.BigEndian.Uint32(buf[:4]))
	}
	if len(buf) < 5 {
		return 0
	}
	return 1 + int(binary.BigEndian.Uint32(buf[1:5]))
}

func enc(msgs ...pgproto3.BackendMessage) []byte {
	var out []byte
	for _, m := range msgs {
		b, err := m.Encode(nil)
		if err != nil {
			panic(err)
		}
		out = append(out, b...)
	}
	return out
}

func (w *w6s) serveUpstream(c *simnet.ServerConn, frame []byte) simnet.Reply {
	if c.Frames == 1 {
		return simnet.Reply{Data: enc(&pgproto3.AuthenticationOk{}, &pgproto3.ParameterStatus{Name: "server_version", Value: "sim"}, &pgproto3.ReadyForQuery{TxStatus: 'I'})}
	}
	switch frame[0] {
	case 'Q':
		text := string(frame[5 : len(frame)-1])
		if f, _ := w.sim.PeekFault("upstream.query", c.Name); f != "" {
			w.sim.Probe("c37.upstream-closed")
			return simnet.Reply{Close: true}
		}
		w.upstream = append(w.upstream, text)
		w.sim.Probe("c37.query-forwarded")
		return simnet.Reply{Data: enc(&pgproto3.CommandComplete{CommandTag: []byte("SELECT 0")}, &pgproto3.ReadyForQuery{TxStatus: 'I'})}
	case 'X':
		return simnet.Reply{Close: true}
	}
	return simnet.Reply{Data: enc(&pgproto3.ErrorResponse{Severity: "ERROR", Message: "unsupported"}, &pgproto3.ReadyForQuery{TxStatus: 'I'})}
}

func (w *w6s) setup() {
	s := w.sim
	allow, deny := w6sACL(w.c.Cfg("acl", 0))
	w.acl = ACL{Allow: allow, Deny: deny}
	cfg := config.ProxyConfig{Listen: ":5432", Upstreams: []string{"kafsql-0:5432", "kafsql-1:5432"}, CacheTTLSeconds: int(w.c.Cfg("cache_ttl_s", 0)), CacheMaxEntries: int(w.c.Cfg("cache_max", 0))}
	cfg.ACL.Allow, cfg.ACL.Deny = allow, deny
	w.srv = New(cfg, log.New(io.Discard, "", 0))
	nconn := 0
	w.srv.dialer = func(ctx context.Context, addr string) (net.Conn, error) {
		nconn++
		uc := simnet.NewServerConn(fmt.Sprintf("%s#%d", addr, nconn), addr, w.serveUpstream)
		uc.Framer = pgFramer
		uc.MaxFrag = int(w.c.Cfg("max_frag", 0))
		return uc, nil
	}
	actors := map[int][]simrt.Op{}
	var ids []int
	for _, op := range w.c.Program {
		if _, ok := actors[op.Actor]; !ok {
			ids = append(ids, op.Actor)
		}
		actors[op.Actor] = append(actors[op.Actor], op)
	}
	for _, id := range ids {
		id, ops := id, actors[id]
		s.Spawn(fmt.Sprintf("client%02d", id), "proxy", true, func() { w.client(id, ops) })
	}
}

func (w *w6s) client(id int, ops []simrt.Op) {
	// one connection; requests are written ahead (the proxy answers each before it reads the next)
	startup := &pgproto3.StartupMessage{ProtocolVersion: pgproto3.ProtocolVersionNumber, Parameters: map[string]string{"user": "u"}}
	stream, _ := startup.Encode(nil)
	for _, op := range ops {
		switch op.Kind {
		case "query":
			q, _ := (&pgproto3.Query{String: buildQuery(op)}).Encode(nil)
			stream = append(stream, q...)
		case "sleep":
			// (no client-side waits on a scripted stream: the cache's TTL is exercised through virtual
			// time spent in the simulated network instead)
		}
	}
	t, _ := (&pgproto3.Terminate{}).Encode(nil)
	stream = append(stream, t...)
	conn := simnet.NewScriptConn(fmt.Sprintf("pg%02d", id), stream)
	conn.MaxFrag = int(w.c.Cfg("max_frag", 0))
	conn.LatUs = 2000
	w.sim.Probe("c37.connection")
	_ = w.srv.handleConn(context.Background(), conn)
	_ = time.Second
}

// topicsRead: the topics the upstream would read when executing text (it parses the full text with the
// same parser; SET/RESET and unparsable texts read nothing).
func topicsRead(text string) []string {
	trimmed := strings.TrimSpace(strings.TrimSuffix(strings.TrimSpace(text), ";"))
	lower := strings.ToLower(trimmed)
	if trimmed == "" || strings.HasPrefix(lower, "set ") || strings.HasPrefix(lower, "reset ") {
		return nil
	}
	parsed, err := kafsql.Parse(text)
	if err != nil {
		return nil
	}
	var walk func(q kafsql.Query) []string
	walk = func(q kafsql.Query) []string {
		switch q.Type {
		case kafsql.QueryShowPartitions, kafsql.QueryDescribe:
			return []string{q.Topic}
		case kafsql.QueryExplain:
			if q.Explain != nil {
				return walk(*q.Explain)
			}
		case kafsql.QuerySelect:
			out := []string{q.Topic}
			if q.JoinTopic != "" {
				out = append(out, q.JoinTopic)
			}
			return out
		}
		return nil
	}
	return walk(parsed)
}

// w6sAllowed is the ACL as documented, written independently of the proxy's own matcher: a deny pattern
// that matches wins; with no allow patterns everything else is allowed; otherwise an allow pattern must
// match. Patterns: "*" matches everything, "x*" matches names starting with x, anything else is exact.
func w6sAllowed(allow, deny []string, topic string) bool {
	match := func(pats []string) bool {
		for _, p := range pats {
			p = strings.TrimSpace(p)
			switch {
			case p == "*":
				return true
			case strings.HasSuffix(p, "*") && strings.HasPrefix(topic, strings.TrimSuffix(p, "*")):
				return true
			case p == topic:
				return true
			}
			if ok, err := path.Match(p, topic); err == nil && ok {
				return true // the ACL's documented pattern language is shell globbing (stdlib path.Match)
			}
		}
		return false
	}
	if match(deny) {
		return false
	}
	if len(allow) == 0 {
		return true
	}
	return match(allow)
}

func (w *w6s) finish() {
	for _, text := range w.upstream {
		w.sim.Probe("c37.forwarded-judged")
		for _, topic := range topicsRead(text) {
			if !w6sAllowed(w.acl.Allow, w.acl.Deny, topic) {
				short := text
				if len(short) > 90 {
					short = short[:60] + fmt.Sprintf(" …(%d bytes)… ", len(text)) + short[len(short)-30:]
				}
				w.sim.Fail("C37", "forwarded-query-reads-denied-topic", "the proxy forwarded %q; executing that text reads topic %q, which the ACL (allow %v, deny %v) does not permit", strings.Join(strings.Fields(short), " "), topic, w.acl.Allow, w.acl.Deny)
				return
			}
			w.sim.Probe("c37.topic-allowed")
		}
		if strings.HasPrefix(strings.ToLower(strings.TrimSpace(text)), "show topics") && !w.acl.AllowShowTopics() {
			w.sim.Fail("C37", "forwarded-show-topics", "SHOW TOPICS was forwarded although the ACL restricts topics")
			return
		}
	}
}
