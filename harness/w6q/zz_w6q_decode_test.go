package server

// C07 / C34 in the SQL-processor world (second world of both properties; the
// first one, w6i, runs the broker's writer, the iceberg decoder and the restore
// scanner). The SQL module cannot import the broker's writer, so segments come
// from the independent builder that follows the documented layout (the layout
// C07's first world checks the real writer against, byte for byte per batch).
//
// C07 (SQL half): "The record decoders used by the Iceberg, SQL and skeleton
// processors ... all recover exactly the records the producers sent: offsets,
// timestamps, keys, values and headers."
// C34 (SQL half): "The processors' segment decoders ... return records or an
// error for any segment bytes, never a crash or an unbounded allocation."

import (
	"bytes"
	"context"
	"encoding/binary"
	"fmt"
	"hash/crc32"
	"math/rand/v2"
	"runtime"
	"strings"

	"github.com/kafscale/platform/addons/processors/sql-processor/internal/decoder"

	"verif/sim/kbatch"
	"verif/sim/kseg"
	"verif/sim/simrt"
	"verif/sim/sims3"
	"verif/sim/sims3http"
)

func w6qGenDecode(r *rand.Rand, prop string) *simrt.Case {
	c := &simrt.Case{Config: map[string]int64{}}
	c.Config["decode_mode"] = 1
	n := 1 + r.IntN(4)
	for i := 0; i < n; i++ {
		variant := int64(0)
		if prop == "C34" {
			variant = int64(1 + r.IntN(8))
		}
		c.Program = append(c.Program, simrt.Op{Actor: i % 2, Kind: "decode", A: variant, B: int64(r.Uint32())})
	}
	if r.IntN(3) == 0 {
		c.Faults = append(c.Faults, simrt.Fault{Kind: "s3.fail_before", Op: "s3.h.get", Nth: r.IntN(6)})
	}
	return c
}

type dqrec struct {
	off, ts int64
	key     []byte
	value   []byte
	headers []kbatch.Header
}

type dqseg struct {
	seg  []byte
	recs []dqrec
}

// buildDecodeSegment: generated well-formed batches (null/empty keys and values, arbitrary headers,
// negative and more-than-32-bit timestamp deltas, offset gaps).
func buildDecodeSegment(r *rand.Rand) (*dqseg, error) {
	g := &dqseg{}
	var raws [][]byte
	next := int64(r.IntN(3)) * 1000
	tcur := int64(1_700_000_000_000)
	for b := 0; b < 1+r.IntN(4); b++ {
		n := 1 + r.IntN(4)
		var krecs []kbatch.Record
		first, maxTs := int64(0), int64(0)
		for i := 0; i < n; i++ {
			tcur += int64(r.IntN(2000)) - 600
			if i > 0 && r.IntN(8) == 0 {
				jump := int64(1)<<uint(29+r.IntN(12)) + int64(r.IntN(1000))
				if r.IntN(2) == 0 && tcur > jump {
					jump = -jump
				}
				tcur += jump
			}
			if i == 0 {
				first, maxTs = tcur, tcur
			}
			if tcur > maxTs {
				maxTs = tcur
			}
			rec := kbatch.Record{OffsetDelta: int32(i), TsDelta: tcur - first}
			switch r.IntN(5) {
			case 0:
				rec.Key = nil
			case 1:
				rec.Key = []byte{}
			default:
				rec.Key = []byte(fmt.Sprintf("key-%d", next+int64(i)))
			}
			switch r.IntN(6) {
			case 0:
				rec.Value = nil
			case 1:
				rec.Value = []byte{}
			default:
				rec.Value = make([]byte, 1+r.IntN(60))
				for x := range rec.Value {
					rec.Value[x] = byte(r.IntN(256))
				}
			}
			for h := 0; h < r.IntN(4); h++ {
				hv := []byte(fmt.Sprintf("hv%d", r.IntN(99)))
				switch r.IntN(5) {
				case 0:
					hv = nil
				case 1:
					hv = []byte{}
				}
				rec.Headers = append(rec.Headers, kbatch.Header{Key: fmt.Sprintf("h%d", r.IntN(3)), Value: hv})
			}
			krecs = append(krecs, rec)
			g.recs = append(g.recs, dqrec{off: next + int64(i), ts: tcur, key: rec.Key, value: rec.Value, headers: rec.Headers})
		}
		raws = append(raws, kbatch.BuildRaw(next, int32(n-1), int32(n), first, maxTs, 0, kbatch.EncodeRecords(krecs)))
		next += int64(n)
		if r.IntN(4) == 0 {
			next += int64(r.IntN(3))
		}
	}
	seg, _, err := kseg.Build(raws, tcur+50, int32(1+r.IntN(4)))
	g.seg = seg
	return g, err
}

var dqCastagnoli = crc32.MakeTable(crc32.Castagnoli)

// dqDamage applies one C34 mutation to a copy of a valid segment (the same variants as in the first world).
func dqDamage(seg []byte, variant int64, r *rand.Rand) ([]byte, string) {
	out := append([]byte(nil), seg...)
	body := 32
	fixCRCs := func() {
		pos := body
		for pos+61 <= len(out)-16 {
			n := int(binary.BigEndian.Uint32(out[pos+8 : pos+12]))
			if n < 49 || pos+12+n > len(out)-16 {
				break // (the length field itself may be among the overwritten bytes)
			}
			binary.BigEndian.PutUint32(out[pos+17:pos+21], crc32.Checksum(out[pos+21:pos+12+n], dqCastagnoli))
			pos += 12 + n
		}
		binary.BigEndian.PutUint32(out[len(out)-16:len(out)-12], crc32.Checksum(out[32:len(out)-16], dqCastagnoli))
	}
	switch variant {
	case 1:
		g := make([]byte, r.IntN(400))
		for i := range g {
			g[i] = byte(r.IntN(256))
		}
		if r.IntN(2) == 0 && len(g) >= 4 {
			copy(g, "KAFS") // gets past the magic check
		}
		return g, "random bytes"
	case 2:
		if len(out) > 32+61+16+2 {
			a := 32 + 61 + r.IntN(len(out)-32-61-16)
			for i := a; i < len(out)-16 && i < a+1+r.IntN(12); i++ {
				out[i] = byte(r.IntN(256))
			}
			fixCRCs()
		}
		return out, "record bytes overwritten with arbitrary client bytes"
	case 3:
		huge := []byte{0x80, 0x80, 0x80, 0x80, 0x08}
		out = append(append(append([]byte(nil), out[:32+61]...), huge...), out[32+61:]...)
		binary.BigEndian.PutUint32(out[32+8:32+12], binary.BigEndian.Uint32(out[32+8:32+12])+uint32(len(huge)))
		fixCRCs()
		return out, "record length varint of 2^30"
	case 4:
		cnt := []byte{0xfe, 0xff, 0xff, 0xff, 0x0f}
		if r.IntN(2) == 0 {
			cnt = []byte{0x01}
		}
		rec := append([]byte{0, 0, 0, 0x02, 'k', 0x02, 'v'}, cnt...)
		rec = append([]byte{byte(len(rec) << 1)}, rec...)
		raw := kbatch.BuildRaw(0, 0, 1, 1, 1, 0, rec)
		seg2, _, err := kseg.Build([][]byte{raw}, 1, 1)
		if err == nil {
			return seg2, "record with header count " + fmt.Sprint(cnt)
		}
		return out, "unchanged"
	case 5:
		n := uint32(1<<18 + r.IntN(1<<22))
		binary.BigEndian.PutUint32(out[32+57:32+61], n)
		binary.BigEndian.PutUint32(out[32+23:32+27], n-1)
		fixCRCs()
		return out, fmt.Sprintf("batch header claims %d records", n)
	case 6:
		return out[:r.IntN(len(out))], "truncated"
	case 7:
		if len(out) > 32+61+6 {
			out[32+61+4] = 0xfe
			out[32+61+5] = 0xff
			fixCRCs()
		}
		return out, "key length beyond the record"
	default:
		if r.IntN(2) == 0 {
			// a frame shorter than a batch header (the broker does not validate this field of a client's batch)
			binary.BigEndian.PutUint32(out[32+8:32+12], uint32(r.IntN(62)))
			return out, "batch length field smaller than a batch header"
		}
		binary.BigEndian.PutUint32(out[32+8:32+12], uint32(r.IntN(1<<31)))
		return out, "batch length field arbitrary"
	}
}

func (w *w6q) runDecodeOps() {
	s := w.sim
	w.store = sims3.New("s3", 200)
	w.httpc = sims3http.New(w.store, w6qBucket)
	actors := map[int][]simrt.Op{}
	for _, op := range w.c.Program {
		actors[op.Actor] = append(actors[op.Actor], op)
	}
	for id := 0; id < 4; id++ {
		ops := actors[id]
		if len(ops) == 0 {
			continue
		}
		id := id
		s.Spawn(fmt.Sprintf("decoder%d", id), "sql", true, func() {
			for i, op := range ops {
				if s.Failed() {
					return
				}
				w.decodeOp(id, i, op)
			}
		})
	}
}

func dqSame(t dqrec, d decoder.Record) bool {
	if t.off != d.Offset || t.ts != d.Timestamp || (t.key == nil) != (d.Key == nil) || !bytes.Equal(t.key, d.Key) || (t.value == nil) != (d.Value == nil) || !bytes.Equal(t.value, d.Value) || len(t.headers) != len(d.Headers) {
		return false
	}
	for i := range t.headers {
		if t.headers[i].Key != d.Headers[i].Key || (t.headers[i].Value == nil) != (d.Headers[i].Value == nil) || !bytes.Equal(t.headers[i].Value, d.Headers[i].Value) {
			return false
		}
	}
	return true
}

func (w *w6q) decodeOp(id, seq int, op simrt.Op) {
	r := rand.New(rand.NewPCG(uint64(op.B), uint64(id*100+seq)))
	g, err := buildDecodeSegment(r)
	if err != nil {
		w.sim.Fail("HARNESS", "setup", "%v", err)
		return
	}
	topic := fmt.Sprintf("t%d-%d", id, seq)
	segKey := fmt.Sprintf("%s/%s/0/segment-%020d.kfs", w6qNS, topic, g.recs[0].off)
	if op.A == 0 {
		// ---- C07: the SQL decoder through its S3 path (real SDK client)
		w.sim.Probe("c07.sql-segment")
		w.store.Poke(segKey, g.seg)
		recs, err := decoder.NewForSim(w.newClient(), w6qBucket).Decode(context.Background(), segKey, "", topic, 0)
		if simrt.Dying() {
			return
		}
		if err != nil {
			if len(w.sim.Stats.FaultsFired) > 0 {
				w.sim.Probe("c07.sql-decode-failed-under-fault")
				return
			}
			w.sim.Fail("C07", "sql-decoder-error", "the SQL decoder rejects a well-formed segment: %v", err)
			return
		}
		if len(recs) != len(g.recs) {
			w.sim.Fail("C07", "sql-decoder-record-count", "the SQL decoder returned %d records, %d were written", len(recs), len(g.recs))
			return
		}
		for i, d := range recs {
			if d.Topic != topic || d.Partition != 0 {
				w.sim.Fail("C07", "sql-decoder-record-differs", "record %d is attributed to %s/%d, it was read from %s/0", i, d.Topic, d.Partition, topic)
				return
			}
			if !dqSame(g.recs[i], d) {
				t := g.recs[i]
				w.sim.Fail("C07", "sql-decoder-record-differs", "record %d: decoded offset=%d ts=%d key=%q(nil=%v) value=%q(nil=%v) %d headers; written offset=%d ts=%d key=%q(nil=%v) value=%q(nil=%v) %d headers", i, d.Offset, d.Timestamp, d.Key, d.Key == nil, d.Value, d.Value == nil, len(d.Headers), t.off, t.ts, t.key, t.key == nil, t.value, t.value == nil, len(t.headers))
				return
			}
		}
		w.sim.Probe("c07.sql-decoder-judged")
		return
	}
	// ---- C34
	bad, what := dqDamage(g.seg, op.A, r)
	w.sim.Probe("c34.sql-input:" + strings.SplitN(what, " ", 2)[0])
	var before, after runtime.MemStats
	runtime.ReadMemStats(&before)
	_, derr := decoder.DecodeSegmentForSim(bad, topic, 0)
	runtime.ReadMemStats(&after)
	w.sim.Probe("c34.sql-decoder-call")
	if derr == nil {
		w.sim.Probe("c34.sql-decoder-accepted")
	}
	if grew := after.TotalAlloc - before.TotalAlloc; grew > 32<<20 {
		w.sim.Fail("C34", "sql-decoder-unbounded-allocation", "decoding a %d-byte segment (%s) allocated %d MiB", len(bad), what, grew>>20)
	}
}
