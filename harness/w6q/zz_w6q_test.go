package server

// W6q: the real SQL server (connection loop, query planning, segment pruning,
// row production, result cache) over the real discovery listers (S3 listing,
// footer probe, time-index enrichment, manifest lister, discovery cache), the
// real segment decoder and the real AWS SDK S3 client, whose HTTP transport is
// the simulated bucket. A simulated broker keeps adding segments, a simulated
// backfill process runs the real time-index and manifest builders, and
// PostgreSQL clients send generated SELECTs while S3 requests fail or stall.
//
// C36: "A single-topic SELECT returns exactly the rows obtained by applying its
// partition, offset and time filters (and limit/tail/ordering) directly to all
// records of the topic's completed segments. Skipping segments based on offset
// and time statistics never drops a matching row."
//
// Oracle: the harness keeps every record it put into a segment (decoded by
// nobody: it is the producer's own copy) and the instant each segment became
// complete (segment + index both stored). For every answered query it computes
// the direct filter over the records of the segments complete at instant T, for
// every T the server may legitimately have listed at (from "query arrival minus
// the configured cache lifetimes / the last manifest build" to "answer sent"),
// and demands that the DataRows equal one of those. An ErrorResponse is not a
// result and is never judged wrong.

import (
	"bytes"
	"context"
	"encoding/hex"
	"fmt"
	"io"
	"log"
	"math/rand/v2"
	"net"
	"sort"
	"strconv"
	"strings"
	"testing"
	"time"

	"github.com/aws/aws-sdk-go-v2/aws"
	"github.com/aws/aws-sdk-go-v2/service/s3"
	"github.com/jackc/pgproto3/v2"

	"github.com/kafscale/platform/addons/processors/sql-processor/internal/config"
	"github.com/kafscale/platform/addons/processors/sql-processor/internal/decoder"
	"github.com/kafscale/platform/addons/processors/sql-processor/internal/discovery"

	"verif/sim/driver"
	"verif/sim/kbatch"
	"verif/sim/kseg"
	"verif/sim/simrt"
	"verif/sim/sims3"
	"verif/sim/sims3http"
)

func TestSim(t *testing.T) { driver.Main(t, w6qWorld) }

var w6qWorld = driver.World{
	Name: "w6q-sql-server",
	Gen:  w6qGen,
	Run:  w6qRun,
	Real: []string{"sql-processor internal/server (connection loop, handleQuery/handleSelect, filterSegments, segmentMatchesOffsets/Timestamps, limit/tail/order, result cache, query limiter)",
		"internal/sql parser", "internal/discovery s3Lister (listing, footer probe, MaxOffset from next base), timeIndexReader, manifestLister, cachedLister, TimeIndexBuilder, ManifestBuilder, build lease",
		"internal/decoder s3Decoder and segment/batch/record decoding", "aws-sdk-go-v2 S3 client (request building, XML, pagination, error mapping)", "pgproto3 codecs"},
	Stub: []string{"S3 endpoint (HTTP-level stand-in over the simulated bucket; one request = one schedulable, failable I/O)", "the broker's segment writer (independent builder following the documented segment layout; C07 checks the real writer against the same layout)",
		"PostgreSQL clients (one query at a time per connection)", "composition of discovery.New / New*Builder (mirrored in an overlay shim because the shipped ones build a socket-backed client)", "TCP, scheduler, clock"},
}

const (
	w6qBucket = "kafscale"
	w6qNS     = "prod"
	w6qGrid   = 10 * time.Minute
)

var w6qTopics = []string{"orders", "orders_eu"}

func pkq[T any](r *rand.Rand, xs ...T) T { return xs[r.IntN(len(xs))] }

func w6qGen(r *rand.Rand, prop, tier string) *simrt.Case {
	if prop == "C07" || prop == "C34" {
		return w6qGenDecode(r, prop)
	}
	c := &simrt.Case{Config: map[string]int64{}}
	c.Config["data_seed"] = int64(r.Uint32())
	c.Config["parts"] = int64(1 + r.IntN(3))
	c.Config["segs"] = int64(1 + r.IntN(4))
	c.Config["time_index"] = int64(r.IntN(2))
	c.Config["manifest"] = pkq[int64](r, 0, 0, 1)
	c.Config["disc_ttl_s"] = pkq[int64](r, 0, 0, 5, 60)
	c.Config["manifest_ttl_s"] = pkq[int64](r, 0, 5, 60)
	c.Config["result_ttl_s"] = pkq[int64](r, 0, 0, 0, 10)
	c.Config["result_max_rows"] = pkq[int64](r, 10000, 10000, 2, 5) // results with more rows are served but must not be cached
	c.Config["default_limit"] = pkq[int64](r, 1000, 1000, 3, 7)
	c.Config["page"] = pkq[int64](r, 0, 0, 0, 2, 3)
	c.Config["big_ts"] = pkq[int64](r, 0, 0, 0, 0, 1)
	c.Config["skew"] = pkq[int64](r, 0, 0, 1)
	c.Config["prebuild"] = int64(r.IntN(4)) // bit 0: time index built before the run, bit 1: manifest built before the run
	c.Config["s3_lat_us"] = pkq[int64](r, 500, 2000, 20000)
	if r.IntN(6) == 0 {
		// cache-lifetime scenario: something is cached, the bucket changes (and the manifest is rebuilt), and
		// the same connection asks again once the lifetime is over
		c.Config["page"] = 0
		switch r.IntN(3) {
		case 0:
			c.Config["manifest"], c.Config["manifest_ttl_s"], c.Config["prebuild"] = 1, 5, 2|int64(r.IntN(2))
		case 1:
			c.Config["disc_ttl_s"] = 5
		default:
			c.Config["result_ttl_s"] = 10
		}
		qb := int64(r.Uint32())
		c.Program = append(c.Program, simrt.Op{Actor: 2, Kind: "query", B: qb, C: 1})
		bs := pkq[int64](r, 50, 500, 3000, 7000)
		c.Program = append(c.Program, simrt.Op{Actor: 0, Kind: "sleep", A: bs})
		for i := 0; i < 1+r.IntN(3); i++ {
			c.Program = append(c.Program, simrt.Op{Actor: 0, Kind: "add", A: int64(r.IntN(3)), B: int64(r.Uint32())})
		}
		c.Program = append(c.Program, simrt.Op{Actor: 1, Kind: "sleep", A: bs + pkq[int64](r, 1000, 3000)})
		c.Program = append(c.Program, simrt.Op{Actor: 1, Kind: pkq(r, "build-manifest", "build-all")})
		for i := 0; i < 2+r.IntN(3); i++ {
			c.Program = append(c.Program, simrt.Op{Actor: 2, Kind: "sleep", A: pkq[int64](r, 2000, 6000, 12000)})
			b := qb
			if r.IntN(2) == 0 {
				b = int64(r.Uint32())
			}
			c.Program = append(c.Program, simrt.Op{Actor: 2, Kind: "query", B: b, C: 1})
		}
		return c
	}
	static := c.Config["page"] > 0
	if !static && r.IntN(3) > 0 {
		for i := 0; i < 1+r.IntN(5); i++ {
			c.Program = append(c.Program, simrt.Op{Actor: 0, Kind: "add", A: int64(r.IntN(3)), B: int64(r.Uint32())})
			if r.IntN(2) == 0 {
				c.Program = append(c.Program, simrt.Op{Actor: 0, Kind: "sleep", A: pkq[int64](r, 1, 50, 2000, 8000)})
			}
		}
	}
	if r.IntN(2) == 0 {
		for i := 0; i < 1+r.IntN(4); i++ {
			c.Program = append(c.Program, simrt.Op{Actor: 1, Kind: pkq(r, "build-ti", "build-manifest", "build-all"), A: int64(r.IntN(3))})
			if r.IntN(2) == 0 {
				c.Program = append(c.Program, simrt.Op{Actor: 1, Kind: "sleep", A: pkq[int64](r, 1, 100, 3000, 12000)})
			}
		}
	}
	for cn := 0; cn < 1+r.IntN(3); cn++ {
		for i := 0; i < 1+r.IntN(6); i++ {
			c.Program = append(c.Program, simrt.Op{Actor: 2 + cn, Kind: "query", B: int64(r.Uint32())})
			if r.IntN(3) == 0 {
				c.Program = append(c.Program, simrt.Op{Actor: 2 + cn, Kind: "sleep", A: pkq[int64](r, 1, 200, 4000, 15000)})
			}
		}
	}
	if r.IntN(3) == 0 {
		for i := 0; i < 1+r.IntN(3); i++ {
			switch r.IntN(5) {
			case 0:
				c.Faults = append(c.Faults, simrt.Fault{Kind: "s3.fail_before", Op: "s3.h.get", Key: pkq(r, ".kfs", ".kfs", ".kfst", "manifest"), Nth: r.IntN(8), Count: 1 + r.IntN(2)})
			case 1:
				c.Faults = append(c.Faults, simrt.Fault{Kind: "s3.fail_before", Op: "s3.h.list", Nth: r.IntN(5), Count: 1 + r.IntN(2)})
			case 2:
				c.Faults = append(c.Faults, simrt.Fault{Kind: pkq(r, "s3.fail_before", "s3.fail_after"), Op: "s3.h.put", Nth: r.IntN(6)})
			case 3:
				c.Faults = append(c.Faults, simrt.Fault{Kind: "h.body.err", Op: "h.body", Key: pkq(r, ".kfs", ".kfst", ""), Nth: r.IntN(10), Arg: int64(r.Uint32())})
			default:
				c.Faults = append(c.Faults, simrt.Fault{Kind: "broker.index_lost", Op: "broker.index", Nth: r.IntN(3)})
			}
		}
	}
	return c
}

type qrec struct {
	part    int32
	off, ts int64
	key     []byte
	value   []byte
}

type qseg struct {
	topic  string
	part   int32
	base   int64
	recs   []qrec
	kfs    string
	idx    string
	doneAt int // event number at which the segment became complete (0 = before the run, -1 = not complete)
}

type qspec struct {
	text           string
	topic          string
	part           *int32
	offMin, offMax *int64
	tsMin, tsMax   *int64
	last           time.Duration
	limit, tail    int
	order          int // 0 none, 1 asc, 2 desc
	scanFull       bool
	count          bool // SELECT COUNT(*)
}

type qrun struct {
	spec       qspec
	ev0, ev1   int
	t0, t1     time.Time
	out        []byte
	conn       string
	faultsSeen int
}

type buildEvt struct {
	kind     string
	evStart  int
	start    time.Time
	end      time.Time
	ok       bool
	manifest bool
}

type w6q struct {
	sim     *simrt.Sim
	c       *simrt.Case
	store   *sims3.Store
	httpc   *sims3http.Client
	srv     *Server
	cfg     config.Config
	t0      time.Time
	ev      int         // event counter: segment completions and query boundaries share it
	evAt    []time.Time // time of each event
	segs    []*qseg
	next    map[string]int64 // next offset per topic/partition
	runs    []*qrun
	builds  []buildEvt
	backTI  *discovery.TimeIndexBuilder
	backMF  *discovery.ManifestBuilder
	dataRng *rand.Rand
}

func w6qRun(t *testing.T, c *simrt.Case, prop string, keepTrace bool) simrt.Result {
	w := &w6q{c: c}
	res := simrt.Run(t, c, keepTrace, func(s *simrt.Sim) {
		w.sim = s
		if c.Cfg("decode_mode", 0) == 1 {
			w.runDecodeOps()
			return
		}
		w.setup()
	}, func(s *simrt.Sim) {
		if c.Cfg("decode_mode", 0) != 1 {
			w.finish()
		}
	})
	if len(res.Stats.TaskPanics) > 0 && res.Violation == nil && prop == "C34" && simrt.PanicInHarness(res.Stats.TaskPanics[0]) {
		res.Stats.Probes["HARNESS-PANIC"]++
	} else if len(res.Stats.TaskPanics) > 0 && res.Violation == nil && prop == "C34" {
		lines := strings.Split(res.Stats.TaskPanics[0], "\n")
		var keep []string
		for _, l := range lines {
			if strings.Contains(l, "sql-processor/internal/") && !strings.Contains(l, "zz_w6q") {
				keep = append(keep, strings.TrimSpace(l))
			}
		}
		if len(keep) > 3 {
			keep = keep[:3]
		}
		res.Violation = &simrt.Violation{Property: "C34", Clause: "sql-decoder-panicked", Detail: lines[0] + " @ " + strings.Join(keep, " <- ")}
	}
	if res.Violation != nil && res.Violation.Property != prop {
		res.Stats.Probes["foreign:"+res.Violation.Property+"/"+res.Violation.Clause]++
		res.Violation = nil
	}
	return res
}

func (w *w6q) event() int {
	w.ev++
	w.evAt = append(w.evAt, time.Now())
	return w.ev
}

func (w *w6q) newClient() *s3.Client {
	return s3.New(s3.Options{Region: "us-east-1", BaseEndpoint: aws.String("http://s3.sim"), UsePathStyle: true, HTTPClient: w.httpc,
		Credentials: aws.AnonymousCredentials{}, Retryer: aws.NopRetryer{}})
}

// gridTS returns a record timestamp k grid cells before the start of the run, half a cell off the grid
// (+-30 s): LAST windows are whole cells, so whether a record is inside a window does not depend on the
// instant within the run at which the server reads its clock.
func (w *w6q) gridTS(r *rand.Rand, k int64) int64 {
	j := int64(r.IntN(60001)) - 30000
	return w.t0.UnixMilli() - k*w6qGrid.Milliseconds() - w6qGrid.Milliseconds()/2 + j
}

// makeSegment builds the next segment of a partition. live: the records carry the current time (a producer
// writing now) unless the segment is clock-skewed.
func (w *w6q) makeSegment(r *rand.Rand, topic string, part int32, live bool) (*qseg, []byte, []byte) {
	pk := fmt.Sprintf("%s/%d", topic, part)
	next := w.next[pk]
	if r.IntN(4) == 0 {
		next += int64(r.IntN(4)) // offset gap between segments (compaction, aborted data)
	}
	sg := &qseg{topic: topic, part: part, base: next, doneAt: -1}
	sg.kfs = fmt.Sprintf("%s/%s/%d/segment-%020d.kfs", w6qNS, topic, part, next)
	sg.idx = fmt.Sprintf("%s/%s/%d/segment-%020d.index", w6qNS, topic, part, next)
	skewed := w.c.Cfg("skew", 0) == 1 && r.IntN(3) == 0
	// base age of this segment in grid cells: older segments first, roughly
	age := int64(r.IntN(12))
	if !live {
		age = int64(r.IntN(300))
		if r.IntN(3) == 0 {
			age = int64(r.IntN(8))
		}
	}
	if skewed {
		age = pkq[int64](r, -3, -40, 500, 3000) // a producer with a wrong clock: future or far past
	}
	var raws [][]byte
	for b := 0; b < 1+r.IntN(4); b++ {
		n := 1 + r.IntN(4)
		var krecs []kbatch.Record
		var first, maxTs int64
		for i := 0; i < n; i++ {
			var ts int64
			switch {
			case live && !skewed:
				ts = time.Now().UnixMilli() - int64(r.IntN(2000))
			default:
				k := age + int64(r.IntN(3)) - 1
				if w.c.Cfg("big_ts", 0) == 1 && i > 0 && r.IntN(3) == 0 {
					k += pkq[int64](r, 1800, 2500, 5000, -1800, -2600) // > 2^30 ms away from the batch's first record
				}
				ts = w.gridTS(r, k)
			}
			if i == 0 {
				first, maxTs = ts, ts
			}
			if ts > maxTs {
				maxTs = ts
			}
			off := next + int64(i)
			rec := kbatch.Record{OffsetDelta: int32(i), TsDelta: ts - first, Key: []byte(fmt.Sprintf("k%d", off))}
			switch r.IntN(6) {
			case 0:
				rec.Key = nil
			case 1:
				rec.Value = nil
			}
			if rec.Value == nil && r.IntN(6) != 0 {
				rec.Value = []byte(fmt.Sprintf(`{"id":%d,"p":%d}`, off, part))
			}
			krecs = append(krecs, rec)
			sg.recs = append(sg.recs, qrec{part: part, off: off, ts: ts, key: rec.Key, value: rec.Value})
		}
		raws = append(raws, kbatch.BuildRaw(next, int32(n-1), int32(n), first, maxTs, 0, kbatch.EncodeRecords(krecs)))
		next += int64(n)
		if r.IntN(5) == 0 {
			next += int64(r.IntN(3))
		}
	}
	w.next[pk] = next
	seg, idx, err := kseg.Build(raws, time.Now().UnixMilli(), int32(1+r.IntN(4)))
	if err != nil {
		w.sim.Fail("HARNESS", "setup", "%v", err)
	}
	return sg, seg, idx
}

func (w *w6q) setup() {
	s := w.sim
	w.t0 = time.Now()
	w.next = map[string]int64{}
	w.store = sims3.New("s3", w.c.Cfg("s3_lat_us", 2000))
	w.httpc = sims3http.New(w.store, w6qBucket)
	w.httpc.PageSize = int(w.c.Cfg("page", 0))
	w.dataRng = rand.New(rand.NewPCG(uint64(w.c.Cfg("data_seed", 1)), 77))
	r := w.dataRng

	cfg := config.Config{}
	cfg.S3 = config.S3Config{Bucket: w6qBucket, Namespace: w6qNS, Region: "us-east-1", PathStyle: true}
	cfg.Query = config.QueryConfig{DefaultLimit: int(w.c.Cfg("default_limit", 1000)), MaxUnbounded: 1000, MaxScanBytes: 10 << 30, MaxScanSegments: 10000, MaxRows: 100000,
		TimeoutSeconds: 30, MaxConcurrent: 20, QueueSize: 50, QueueTimeoutSec: 10}
	cfg.DiscoveryCache = config.DiscoveryCacheConfig{TTLSeconds: int(w.c.Cfg("disc_ttl_s", 0)), MaxEntries: 10000}
	cfg.Manifest = config.ManifestConfig{Enabled: w.c.Cfg("manifest", 0) == 1, Key: "manifest.json", TTLSeconds: int(w.c.Cfg("manifest_ttl_s", 0)), BuildLeaseTTLSeconds: 120}
	cfg.TimeIndex = config.TimeIndexConfig{Enabled: w.c.Cfg("time_index", 0) == 1, KeySuffix: ".kfst", BuildLeaseTTLSeconds: 120}
	cfg.ResultCache = config.ResultCacheConfig{TTLSeconds: int(w.c.Cfg("result_ttl_s", 0)), MaxEntries: 100, MaxRows: int(w.c.Cfg("result_max_rows", 10000))}
	w.cfg = cfg

	// initial contents of the bucket
	nparts := int(w.c.Cfg("parts", 1))
	for ti, topic := range w6qTopics {
		for p := 0; p < nparts; p++ {
			if ti == 1 && p > 0 {
				continue
			}
			if r.IntN(4) == 0 {
				w.next[fmt.Sprintf("%s/%d", topic, p)] = int64(r.IntN(3)) * 100
			}
			for k := 0; k < int(w.c.Cfg("segs", 1)); k++ {
				sg, seg, idx := w.makeSegment(r, topic, int32(p), false)
				w.store.Poke(sg.kfs, seg)
				w.store.Poke(sg.idx, idx)
				sg.doneAt = 0
				w.segs = append(w.segs, sg)
			}
		}
	}
	w.store.Poke(w6qNS+"/orders/0/notes.txt", []byte("not a segment"))

	w.store.OnWrite = func(wr sims3.Write, body []byte) {
		for _, sg := range w.segs {
			if sg.doneAt < 0 && (wr.Key == sg.idx || wr.Key == sg.kfs) {
				_, a := w.store.Peek(sg.kfs)
				_, b := w.store.Peek(sg.idx)
				if a && b {
					sg.doneAt = w.event()
				}
			}
		}
	}

	// the server under test
	w.srv = New(cfg, log.New(io.Discard, "", 0))
	srvClient := w.newClient()
	w.srv.lister, w.srv.listerInit = discovery.NewForSim(srvClient, cfg), true
	w.srv.decoder, w.srv.decoderInit = decoder.NewForSim(srvClient, w6qBucket), true

	// the backfill process (cmd/backfill): its own client, a lister without manifest and time index
	rawCfg := cfg
	rawCfg.Manifest.Enabled = false
	rawCfg.TimeIndex.Enabled = false
	backClient := w.newClient()
	backLister := discovery.NewForSim(backClient, rawCfg)
	w.backMF = discovery.NewManifestBuilderForSim(backClient, cfg, backLister)
	w.backTI = discovery.NewTimeIndexBuilderForSim(backClient, cfg, backLister, decoder.NewForSim(backClient, w6qBucket))

	actors := map[int][]simrt.Op{}
	var ids []int
	for _, op := range w.c.Program {
		if _, ok := actors[op.Actor]; !ok {
			ids = append(ids, op.Actor)
		}
		actors[op.Actor] = append(actors[op.Actor], op)
	}
	sort.Ints(ids)
	pre := w.c.Cfg("prebuild", 0)
	s.Spawn("prebuild", "backfill", true, func() {
		if pre&1 != 0 {
			w.build("build-ti")
		}
		if pre&2 != 0 {
			w.build("build-manifest")
		}
		for _, id := range ids {
			id, ops := id, actors[id]
			switch {
			case id == 0:
				s.Spawn("broker", "broker", true, func() { w.broker(ops) })
			case id == 1:
				s.Spawn("backfill", "backfill", true, func() { w.backfill(ops) })
			default:
				s.Spawn(fmt.Sprintf("client%02d", id), "sql", true, func() { w.client(id, ops) })
			}
		}
	})
}

func (w *w6q) build(kind string) {
	ev := buildEvt{kind: kind, evStart: w.ev, start: time.Now()}
	var err error
	switch kind {
	case "build-ti":
		err = w.backTI.Build(context.Background())
	case "build-manifest":
		ev.manifest = true
		err = w.backMF.Build(context.Background())
	default:
		// cmd/backfill runOnce: manifest first, then the time index
		ev.manifest = true
		err = w.backMF.Build(context.Background())
		if err == nil {
			w.builds = append(w.builds, buildEvt{kind: "build-manifest", evStart: ev.evStart, start: ev.start, end: time.Now(), ok: true, manifest: true})
			ev = buildEvt{kind: "build-ti", evStart: w.ev, start: time.Now()}
			err = w.backTI.Build(context.Background())
		}
	}
	ev.end = time.Now()
	ev.ok = err == nil
	w.builds = append(w.builds, ev)
	if err != nil {
		w.sim.Probe("c36.build-failed")
		w.sim.Note("build %s failed: %v", kind, err)
	} else {
		w.sim.Probe("c36." + ev.kind)
	}
}

func (w *w6q) backfill(ops []simrt.Op) {
	for _, op := range ops {
		if op.Kind == "sleep" {
			simrt.Sleep(time.Duration(op.A) * time.Millisecond)
			continue
		}
		w.build(op.Kind)
	}
}

func (w *w6q) broker(ops []simrt.Op) {
	ctx := context.Background()
	for _, op := range ops {
		if op.Kind == "sleep" {
			simrt.Sleep(time.Duration(op.A) * time.Millisecond)
			continue
		}
		r := rand.New(rand.NewPCG(uint64(op.B), 5))
		part := int32(int(op.A) % int(w.c.Cfg("parts", 1)))
		sg, seg, idx := w.makeSegment(r, "orders", part, true)
		w.segs = append(w.segs, sg)
		if err := w.store.Put(ctx, "h.put", sg.kfs, seg); err != nil {
			// an upload that failed for the broker may still have been stored (fail_after): the segment then
			// stays without index, i.e. not complete, like after a broker crash between the two uploads
			w.sim.Probe("c36.broker-upload-failed")
			continue
		}
		if f, _ := w.sim.PeekFault("broker.index", sg.idx); f != "" {
			w.sim.Probe("c36.segment-left-without-index")
			continue
		}
		if err := w.store.Put(ctx, "h.put", sg.idx, idx); err != nil {
			w.sim.Probe("c36.broker-upload-failed")
			continue
		}
		w.sim.Probe("c36.segment-added")
	}
}

// ---- client side

type qconn struct {
	name   string
	next   func() ([]byte, bool)
	in     []byte
	out    []byte
	closed bool
}

func (c *qconn) Read(p []byte) (int, error) {
	if c.closed {
		return 0, net.ErrClosed
	}
	if len(c.in) == 0 {
		b, ok := c.next()
		if !ok {
			return 0, io.EOF
		}
		c.in = b
	}
	simrt.IO(nil, "net.read", c.name, 50*time.Microsecond, nil)
	n := len(c.in)
	if n > len(p) {
		n = len(p)
	}
	if n > 1 {
		if s := simrt.Current(); s != nil && s.Aux(4) == 0 {
			n = 1 + s.Aux(n)
		}
	}
	copy(p, c.in[:n])
	c.in = c.in[n:]
	return n, nil
}

func (c *qconn) Write(p []byte) (int, error) {
	if c.closed {
		return 0, net.ErrClosed
	}
	simrt.Yield("net.write")
	c.out = append(c.out, p...)
	return len(p), nil
}
func (c *qconn) Close() error                       { c.closed = true; return nil }
func (c *qconn) LocalAddr() net.Addr                { return qaddr("sql:5432") }
func (c *qconn) RemoteAddr() net.Addr               { return qaddr("client:1") }
func (c *qconn) SetDeadline(t time.Time) error      { return nil }
func (c *qconn) SetReadDeadline(t time.Time) error  { return nil }
func (c *qconn) SetWriteDeadline(t time.Time) error { return nil }

type qaddr string

func (a qaddr) Network() string { return "sim" }
func (a qaddr) String() string  { return string(a) }

func (w *w6q) faultsFired() int {
	n := 0
	for _, v := range w.sim.Stats.FaultsFired {
		n += v
	}
	return n
}

func (w *w6q) client(id int, ops []simrt.Op) {
	conn := &qconn{name: fmt.Sprintf("pg%02d", id)}
	startup, _ := (&pgproto3.StartupMessage{ProtocolVersion: pgproto3.ProtocolVersionNumber, Parameters: map[string]string{"user": "u"}}).Encode(nil)
	i := -1
	var cur *qrun
	mark := 0
	conn.next = func() ([]byte, bool) {
		if i == -1 {
			i = 0
			return startup, true
		}
		if cur != nil {
			cur.ev1, cur.t1 = w.ev, time.Now()
			cur.out = append([]byte(nil), conn.out[mark:]...)
			cur.faultsSeen = w.faultsFired() - cur.faultsSeen
			cur = nil
		}
		for i < len(ops) {
			op := ops[i]
			i++
			if op.Kind == "sleep" {
				simrt.Sleep(time.Duration(op.A) * time.Millisecond)
				continue
			}
			spec := w.buildQuery(op)
			cur = &qrun{spec: spec, conn: conn.name, ev0: w.ev, t0: time.Now(), faultsSeen: w.faultsFired()}
			w.runs = append(w.runs, cur)
			mark = len(conn.out)
			if op.B%5 == 0 {
				// extended protocol: Parse / Bind / Describe / Execute / Sync in one flight
				w.sim.Probe("c36.extended-protocol")
				var msg []byte
				for _, m := range []pgproto3.FrontendMessage{&pgproto3.Parse{Query: spec.text}, &pgproto3.Bind{}, &pgproto3.Describe{ObjectType: 'P'}, &pgproto3.Execute{}, &pgproto3.Sync{}} {
					b, _ := m.Encode(nil)
					msg = append(msg, b...)
				}
				return msg, true
			}
			msg, _ := (&pgproto3.Query{String: spec.text}).Encode(nil)
			return msg, true
		}
		return nil, false
	}
	w.srv.handleConnection(context.Background(), conn)
}

// buildQuery draws one SELECT; bounds are taken from the segments that exist so that they fall on and next
// to segment boundaries.
func (w *w6q) buildQuery(op simrt.Op) qspec {
	r := rand.New(rand.NewPCG(uint64(op.B), 9))
	q := qspec{topic: "orders"}
	if op.C == 1 && r.IntN(2) == 0 {
		// a wide query: every change of the bucket shows in its answer
		q.text = "select _partition, _offset, _ts from orders"
		if r.IntN(2) == 0 {
			q.last = 50 * time.Hour
			q.text += " last 50h"
		}
		return q
	}
	if r.IntN(6) == 0 {
		q.topic = "orders_eu"
	}
	var offs, tss []int64
	for _, sg := range w.segs {
		if sg.topic != q.topic || len(sg.recs) == 0 {
			continue
		}
		first, lastr := sg.recs[0], sg.recs[len(sg.recs)-1]
		offs = append(offs, sg.base, sg.base-1, first.off, lastr.off, lastr.off+1, sg.recs[r.IntN(len(sg.recs))].off)
		tss = append(tss, first.ts, lastr.ts, sg.recs[r.IntN(len(sg.recs))].ts)
	}
	if len(offs) == 0 {
		offs, tss = []int64{0}, []int64{w.t0.UnixMilli()}
	}
	kw := func(s string) string {
		if r.IntN(3) == 0 {
			return strings.ToUpper(s)
		}
		return s
	}
	cols := pkq(r, "*", "_partition, _offset, _ts", "_offset, _partition, _key, _ts, _value", "_ts, _offset, _partition")
	if r.IntN(8) == 0 {
		// an aggregate over the same filters: one row, the number of matching records
		q.count = true
		cols = kw("count") + "(*)"
	}
	text := kw("select") + " " + cols + " " + kw("from") + " " + q.topic
	var conds []string
	if r.IntN(2) == 0 {
		p := int32(r.IntN(int(w.c.Cfg("parts", 1)) + 1))
		q.part = &p
		conds = append(conds, fmt.Sprintf("_partition = %d", p))
	}
	if r.IntN(2) == 0 {
		v := offs[r.IntN(len(offs))] + int64(r.IntN(3)) - 1
		if v < 0 {
			v = 0
		}
		q.offMin = &v
		conds = append(conds, fmt.Sprintf("_offset >= %d", v))
	}
	if r.IntN(3) == 0 {
		v := offs[r.IntN(len(offs))] + int64(r.IntN(3)) - 1
		if v < 0 {
			v = 0
		}
		q.offMax = &v
		conds = append(conds, fmt.Sprintf("_offset <= %d", v))
	}
	if len(conds) > 0 {
		r.Shuffle(len(conds), func(i, j int) { conds[i], conds[j] = conds[j], conds[i] })
		text += " " + kw("where") + " " + strings.Join(conds, " "+kw("and")+" ")
	}
	bounded := false
	if r.IntN(3) == 0 {
		d := pkq(r, "10m", "30m", "1h", "3h", "24h", "2d", "50h")
		q.last, _ = parseDuration(d)
		text += " " + kw("last") + " " + d
		bounded = true
	}
	shape := r.IntN(4)
	if q.count {
		shape = 3 // limit, tail and ordering do not go with an aggregate
	}
	switch shape {
	case 0:
		q.limit = pkq(r, 1, 2, 3, 5, 8, 50)
		text += " " + kw("limit") + " " + strconv.Itoa(q.limit)
		bounded = true
	case 1:
		q.tail = pkq(r, 1, 2, 3, 5, 8, 50)
		text += " " + kw("tail") + " " + strconv.Itoa(q.tail)
		bounded = true
	}
	if r.IntN(5) == 0 {
		q.scanFull = true
		text += " " + kw("scan full")
		bounded = true
	}
	if r.IntN(8) == 0 && bounded {
		// the parser also takes _ts comparisons after the clause keywords (it rejects them inside WHERE)
		v := tss[r.IntN(len(tss))] + int64(r.IntN(3)) - 1
		if r.IntN(2) == 0 {
			q.tsMin = &v
			text += fmt.Sprintf(" _ts >= %d", v)
		} else {
			q.tsMax = &v
			text += fmt.Sprintf(" _ts <= %d", v)
		}
	}
	if r.IntN(4) == 0 && !q.count && (bounded || len(conds) == 0) && (q.tail == 0 || r.IntN(8) == 0) {
		q.order = 1
		text += " " + kw("order by") + " _ts"
		if r.IntN(2) == 0 {
			q.order = 2
			text += " " + kw("desc")
		}
	}
	if r.IntN(4) == 0 {
		text += ";"
	}
	q.text = text
	return q
}

// ---- oracle

type qrow struct {
	first   []byte // the row's first value as sent
	part    int32
	off, ts int64
	hasTS   bool
	key     []byte
	hasKey  bool
	value   []byte
	hasVal  bool
	topic   string
}

func unbytea(b []byte) ([]byte, bool) {
	if b == nil {
		return nil, true
	}
	s := string(b)
	if strings.HasPrefix(s, "\\x") {
		d, err := hex.DecodeString(s[2:])
		return d, err == nil
	}
	return b, true
}

func parseTSValue(b []byte) (int64, bool) {
	s := string(b)
	if n, err := strconv.ParseInt(s, 10, 64); err == nil {
		return n, true
	}
	for _, layout := range []string{"2006-01-02 15:04:05.000", "2006-01-02 15:04:05.999999999", time.RFC3339Nano} {
		if t, err := time.ParseInLocation(layout, s, time.UTC); err == nil {
			return t.UnixMilli(), true
		}
	}
	return 0, false
}

// parseAnswer splits what the server wrote for one query.
func parseAnswer(out []byte) (rows []qrow, complete bool, errMsg string, problem string) {
	fe := pgproto3.NewFrontend(pgproto3.NewChunkReader(bytes.NewReader(out)), io.Discard)
	var fields []string
	for {
		msg, err := fe.Receive()
		if err != nil {
			return rows, complete, errMsg, ""
		}
		switch m := msg.(type) {
		case *pgproto3.RowDescription:
			fields = nil
			for _, f := range m.Fields {
				fields = append(fields, string(f.Name))
			}
		case *pgproto3.DataRow:
			if len(m.Values) != len(fields) {
				return rows, complete, errMsg, fmt.Sprintf("a DataRow has %d values for %d described columns", len(m.Values), len(fields))
			}
			row := qrow{part: -1, off: -1}
			if len(m.Values) > 0 {
				row.first = append([]byte(nil), m.Values[0]...)
			}
			for i, f := range fields {
				v := m.Values[i]
				switch f {
				case "_topic":
					row.topic = string(v)
				case "_partition":
					n, err := strconv.ParseInt(string(v), 10, 32)
					if err != nil {
						return rows, complete, errMsg, fmt.Sprintf("_partition value %q", v)
					}
					row.part = int32(n)
				case "_offset":
					n, err := strconv.ParseInt(string(v), 10, 64)
					if err != nil {
						return rows, complete, errMsg, fmt.Sprintf("_offset value %q", v)
					}
					row.off = n
				case "_ts":
					n, ok := parseTSValue(v)
					if !ok {
						return rows, complete, errMsg, fmt.Sprintf("_ts value %q", v)
					}
					row.ts, row.hasTS = n, true
				case "_key":
					row.key, row.hasKey = unbytea(append([]byte(nil), v...))
					if v == nil {
						row.key = nil
					}
				case "_value":
					row.value, row.hasVal = unbytea(append([]byte(nil), v...))
					if v == nil {
						row.value = nil
					}
				}
			}
			rows = append(rows, row)
		case *pgproto3.CommandComplete:
			complete = true
		case *pgproto3.ErrorResponse:
			errMsg = m.Message
			if errMsg == "" {
				errMsg = "error"
			}
		}
	}
}

// expected computes the direct filter over the segments complete at event number ev.
func (w *w6q) expected(q qspec, ev int, now time.Time) (rows []qrec) {
	var segs []*qseg
	for _, sg := range w.segs {
		if sg.topic == q.topic && sg.doneAt >= 0 && sg.doneAt <= ev {
			segs = append(segs, sg)
		}
	}
	sort.SliceStable(segs, func(i, j int) bool {
		if segs[i].part != segs[j].part {
			return segs[i].part < segs[j].part
		}
		return segs[i].base < segs[j].base
	})
	var tmin, tmax *int64
	tmin, tmax = q.tsMin, q.tsMax
	if q.last > 0 {
		start := now.UnixMilli() - q.last.Milliseconds()
		if tmin == nil || *tmin < start {
			tmin = &start
		}
		if tmax == nil {
			n := now.UnixMilli()
			tmax = &n
		}
	}
	for _, sg := range segs {
		for _, rc := range sg.recs {
			if q.part != nil && rc.part != *q.part {
				continue
			}
			if q.offMin != nil && rc.off < *q.offMin {
				continue
			}
			if q.offMax != nil && rc.off > *q.offMax {
				continue
			}
			if tmin != nil && rc.ts < *tmin {
				continue
			}
			if tmax != nil && rc.ts > *tmax {
				continue
			}
			rows = append(rows, rc)
		}
	}
	return rows
}

func (w *w6q) limitOf(q qspec) int {
	switch {
	case q.tail > 0:
		return q.tail
	case q.limit > 0:
		return q.limit
	}
	return int(w.c.Cfg("default_limit", 1000))
}

// matches reports "" if got is a correct answer for the filtered rows all (in scan order).
func (w *w6q) matches(q qspec, all []qrec, got []qrow) string {
	if q.count {
		if len(all) == 0 && len(got) == 0 {
			return "" // no matching record, no group
		}
		if len(got) != 1 {
			return fmt.Sprintf("%d rows for COUNT(*), %d records pass the filters", len(got), len(all))
		}
		n, err := strconv.ParseInt(string(got[0].first), 10, 64)
		if err != nil || n != int64(len(all)) {
			return fmt.Sprintf("COUNT(*) = %q, %d records pass the filters", got[0].first, len(all))
		}
		return ""
	}
	limit := w.limitOf(q)
	same := func(a qrec, b qrow) string {
		if a.part != b.part || a.off != b.off {
			return fmt.Sprintf("row %d/%d where %d/%d belongs", b.part, b.off, a.part, a.off)
		}
		if b.hasTS && b.ts != a.ts {
			return fmt.Sprintf("row %d/%d carries _ts %d, the record's timestamp is %d", a.part, a.off, b.ts, a.ts)
		}
		if b.hasKey && !bytes.Equal(a.key, b.key) {
			return fmt.Sprintf("row %d/%d carries key %q, the record's key is %q", a.part, a.off, b.key, a.key)
		}
		if b.hasVal && !bytes.Equal(a.value, b.value) {
			return fmt.Sprintf("row %d/%d carries value %q, the record's value is %q", a.part, a.off, b.value, a.value)
		}
		return ""
	}
	switch {
	case q.order != 0:
		sorted := append([]qrec(nil), all...)
		sort.SliceStable(sorted, func(i, j int) bool {
			if q.order == 2 {
				return sorted[i].ts > sorted[j].ts
			}
			return sorted[i].ts < sorted[j].ts
		})
		want := len(sorted)
		if want > limit {
			want = limit
		}
		if len(got) != want {
			return fmt.Sprintf("%d rows, direct filtering and ordering gives %d", len(got), want)
		}
		// ties in _ts may come in any order, and a tie at the cut may pick any of the tied records
		byID := map[string]qrec{}
		for _, rc := range all {
			byID[fmt.Sprintf("%d/%d", rc.part, rc.off)] = rc
		}
		seen := map[string]bool{}
		for i, g := range got {
			id := fmt.Sprintf("%d/%d", g.part, g.off)
			rc, ok := byID[id]
			if !ok {
				return fmt.Sprintf("row %s is not among the %d rows that pass the filters", id, len(all))
			}
			if seen[id] {
				return fmt.Sprintf("row %s is returned twice", id)
			}
			seen[id] = true
			if d := same(rc, g); d != "" {
				return d
			}
			if rc.ts != sorted[i].ts {
				return fmt.Sprintf("position %d holds row %s with _ts %d, ordering puts a row with _ts %d there", i, id, rc.ts, sorted[i].ts)
			}
		}
		return ""
	case q.tail > 0:
		want := all
		if len(want) > limit {
			want = want[len(want)-limit:]
		}
		if len(got) != len(want) {
			return fmt.Sprintf("%d rows, the tail of the directly filtered rows has %d", len(got), len(want))
		}
		for i := range want {
			if d := same(want[i], got[i]); d != "" {
				return d
			}
		}
		return ""
	}
	want := all
	if len(want) > limit {
		want = want[:limit]
	}
	if len(got) != len(want) {
		first := ""
		for i := range want {
			if i >= len(got) || want[i].part != got[i].part || want[i].off != got[i].off {
				first = fmt.Sprintf(" (first difference at position %d: row %d/%d with _ts %d belongs there)", i, want[i].part, want[i].off, want[i].ts)
				break
			}
		}
		return fmt.Sprintf("%d rows, direct filtering gives %d%s", len(got), len(want), first)
	}
	for i := range want {
		if d := same(want[i], got[i]); d != "" {
			return d
		}
	}
	return ""
}

func (w *w6q) finish() {
	if time.Since(w.t0) > 230*time.Second {
		// the timestamp grid only decouples LAST windows from the clock for runs shorter than this
		w.sim.Probe("c36.run-too-long")
		return
	}
	stale := time.Duration(w.c.Cfg("disc_ttl_s", 0)+w.c.Cfg("result_ttl_s", 0)) * time.Second
	manifest := w.c.Cfg("manifest", 0) == 1
	if manifest {
		stale += time.Duration(w.c.Cfg("manifest_ttl_s", 0)) * time.Second
	}
	backStale := time.Duration(w.c.Cfg("disc_ttl_s", 0)) * time.Second
	for _, qr := range w.runs {
		if qr.ev1 == 0 && qr.t1.IsZero() {
			continue // connection ended before the answer was complete
		}
		rows, complete, errMsg, problem := parseAnswer(qr.out)
		if problem != "" {
			w.sim.Fail("C36", "malformed-answer", "query %q: %s", qr.spec.text, problem)
			return
		}
		if errMsg != "" {
			w.sim.Probe("c36.error-answer")
			if qr.faultsSeen == 0 && len(w.c.Faults) == 0 {
				w.sim.Probe("c36.error-without-fault")
				w.sim.Note("error without fault: %q -> %s", qr.spec.text, errMsg)
			}
			continue
		}
		if !complete {
			w.sim.Probe("c36.incomplete-answer")
			continue
		}
		// the earliest instant the server may have listed at
		must := qr.t0.Add(-stale)
		if manifest {
			// The server reads the manifest at some instant r in [must, t1] and finds the one stored last
			// before r: that is the newest manifest stored before `must`, or any manifest stored since. A
			// manifest shows the bucket as its builder listed it, and the builder's lister has the
			// discovery cache too. (A manifest whose upload failed for the builder may still be stored.)
			lookupFrom := must
			var lastMF *buildEvt
			for i := range w.builds {
				b := &w.builds[i]
				if !b.manifest {
					continue
				}
				listed := b.start.Add(-backStale)
				switch {
				case !b.ok || !b.end.Before(lookupFrom):
					if b.start.Before(qr.t1) && listed.Before(must) {
						must = listed
					}
				case lastMF == nil || b.end.After(lastMF.end):
					lastMF = b
				}
			}
			if lastMF != nil && lastMF.start.Add(-backStale).Before(must) {
				must = lastMF.start.Add(-backStale)
			}
		}
		evMust := 0
		for i, at := range w.evAt {
			if at.Before(must) {
				evMust = i + 1
			}
		}
		if evMust > qr.ev0 {
			evMust = qr.ev0
		}
		verdict := ""
		ok := false
		tried := 0
		lastCount := -1
		for ev := evMust; ev <= qr.ev1 && !ok; ev++ {
			// only instants at which the set of complete segments of the topic differs
			n := 0
			for _, sg := range w.segs {
				if sg.topic == qr.spec.topic && sg.doneAt >= 0 && sg.doneAt <= ev {
					n++
				}
			}
			if n == lastCount {
				continue
			}
			lastCount = n
			tried++
			// the clock value behind LAST: any instant of the query does (grid timestamps), and records
			// produced during the run are older than the listing that shows them, hence than t1
			all := w.expected(qr.spec, ev, qr.t1)
			d := w.matches(qr.spec, all, rows)
			if d == "" {
				ok = true
				if len(all) > 0 {
					w.sim.Probe("c36.judged-nonempty")
				}
				if len(all) > len(rows) {
					w.sim.Probe("c36.judged-cut-by-limit")
				}
			} else if verdict == "" || ev == qr.ev1 {
				verdict = d
			}
		}
		w.sim.Probe("c36.judged")
		if tried > 1 {
			w.sim.Probe("c36.judged-over-several-listing-instants")
		}
		if qr.spec.last > 0 {
			w.sim.Probe("c36.judged-last")
		}
		if qr.spec.count {
			w.sim.Probe("c36.judged-count")
		}
		if qr.spec.offMin != nil || qr.spec.offMax != nil {
			w.sim.Probe("c36.judged-offset-filter")
		}
		if !ok {
			w.sim.Fail("C36", "rows-differ-from-direct-filter", "%q answered %s (checked against the %d possible listing instant(s) of this query; time index %d, manifest %d)", qr.spec.text, verdict, tried, w.c.Cfg("time_index", 0), w.c.Cfg("manifest", 0))
			return
		}
	}
}
