package decoder

// Simulation seam (overlay only, never part of the shipped tree): the real S3
// segment decoder over an injected GetObject API (the real SDK client over the
// simulated S3 endpoint).

import (
	"context"

	"github.com/aws/aws-sdk-go-v2/service/s3"
)

type SimGetObjectAPI interface {
	GetObject(ctx context.Context, params *s3.GetObjectInput, optFns ...func(*s3.Options)) (*s3.GetObjectOutput, error)
}

func NewForSim(api SimGetObjectAPI, bucket string) Decoder {
	return &s3Decoder{client: api, bucket: bucket, metrics: newS3Metrics()}
}

func DecodeSegmentForSim(segment []byte, topic string, partition int32) ([]Record, error) {
	return decodeSegment(segment, topic, partition)
}
