package operator

// C21 in the operator world: brokers' EtcdStores (CreateTopic / CreatePartitions)
// and the operator's snapshot publisher write the one shared metadata snapshot
// concurrently on the simulated etcd.
//
// C21: "Topic and partition changes acknowledged by any broker or published by
// the operator are never lost from the shared metadata snapshot, whichever
// writers run concurrently." (see properties.jsonl for the exact statement)

import (
	"context"
	"encoding/json"
	"fmt"
	"math/rand/v2"
	"sort"
	"time"

	metav1 "k8s.io/apimachinery/pkg/apis/meta/v1"
	"sigs.k8s.io/controller-runtime/pkg/client"

	kafscalev1alpha1 "github.com/KafScale/platform/api/v1alpha1"
	"github.com/KafScale/platform/pkg/metadata"

	"verif/sim/simetcd"
	"verif/sim/simrt"
)

func w9GenSnapshot(r *rand.Rand) *simrt.Case {
	c := &simrt.Case{Config: map[string]int64{}}
	c.Config["c21"] = 1
	c.Config["spec_seed"] = int64(r.Uint32())
	c.Config["brokers"] = int64(1 + r.IntN(2))
	c.Config["cr_topics"] = int64(r.IntN(3))
	c.Config["max_steps"] = 40000
	c.Config["max_virtual_s"] = 2000
	nb := int(c.Config["brokers"])
	c.Config["etcd_lat_us"] = w9pick[int64](r, 300, 3000, 40000)
	storm := r.IntN(3) == 0 // a broker that keeps creating topics: every publisher attempt meets a fresher snapshot
	for b := 0; b < nb; b++ {
		if storm && b == 0 {
			c.Config["etcd_lat_us"] = 40000
			for i := 0; i < 14; i++ {
				c.Program = append(c.Program, simrt.Op{Actor: b, Kind: "create", A: int64(i), B: int64(1 + r.IntN(3))}, simrt.Op{Actor: b, Kind: "sleep", A: int64(r.IntN(120))})
			}
			continue
		}
		for i := 0; i < 1+r.IntN(4); i++ {
			if r.IntN(3) == 0 {
				c.Program = append(c.Program, simrt.Op{Actor: b, Kind: "grow", A: int64(r.IntN(4)), B: int64(2 + r.IntN(4))})
			} else {
				c.Program = append(c.Program, simrt.Op{Actor: b, Kind: "create", A: int64(r.IntN(6)), B: int64(1 + r.IntN(3))})
			}
			if r.IntN(3) == 0 {
				c.Program = append(c.Program, simrt.Op{Actor: b, Kind: "sleep", A: int64(r.IntN(300))})
			}
		}
	}
	npub := 1 + r.IntN(4)
	if storm {
		npub = 5 + r.IntN(4)
	}
	for i := 0; i < npub; i++ {
		c.Program = append(c.Program, simrt.Op{Actor: 10, Kind: "publish"})
		if r.IntN(2) == 0 {
			c.Program = append(c.Program, simrt.Op{Actor: 10, Kind: "sleep", A: int64(r.IntN(400))})
		}
	}
	for i := 0; i < w9pick(r, 0, 0, 1, 2); i++ {
		switch r.IntN(3) {
		case 0:
			c.Faults = append(c.Faults, simrt.Fault{Kind: "etcd.unavail", Op: "etcd.", Nth: r.IntN(12), Count: 1 + r.IntN(2)})
		case 1:
			c.Faults = append(c.Faults, simrt.Fault{Kind: "etcd.timeout_applied", Op: "etcd.txn", Nth: r.IntN(6)})
		default:
			c.Faults = append(c.Faults, simrt.Fault{Kind: "etcd.slow", Op: "etcd.", Nth: r.IntN(12), Arg: int64(100+r.IntN(3000)) * 1e6})
		}
	}
	return c
}

type w9ack struct {
	topic string
	parts int32
	what  string
	step  int
}

func (w *w9) runSnapshot() {
	s := w.sim
	scheme := w9Scheme()
	cluster := w9Cluster(w.c.Cfg("spec_seed", 1))
	cluster.Spec.Etcd.Endpoints = []string{"http://sim-etcd:2379"}
	var objs []client.Object
	objs = append(objs, cluster.DeepCopy())
	var crTopics []string
	for i := 0; i < int(w.c.Cfg("cr_topics", 0)); i++ {
		name := fmt.Sprintf("cr-%d", i)
		crTopics = append(crTopics, name)
		objs = append(objs, &kafscalev1alpha1.KafscaleTopic{ObjectMeta: metav1.ObjectMeta{Name: name, Namespace: cluster.Namespace}, Spec: kafscalev1alpha1.KafscaleTopicSpec{ClusterRef: cluster.Name, Partitions: int32(1 + i)}})
	}
	c := w.api(scheme, objs...)
	pub := NewSnapshotPublisher(c)
	var acks []w9ack
	left := 0
	done := s.NewFuture("")
	actors := map[int][]simrt.Op{}
	var ids []int
	for _, op := range w.c.Program {
		if _, ok := actors[op.Actor]; !ok {
			ids = append(ids, op.Actor)
		}
		actors[op.Actor] = append(actors[op.Actor], op)
	}
	sort.Ints(ids)
	left = len(ids)
	finish := func() {
		left--
		if left == 0 {
			done.Set(true)
		}
	}
	for _, id := range ids {
		id, ops := id, actors[id]
		if id == 10 {
			s.Spawn("operator", "operator", true, func() {
				defer finish()
				for _, op := range ops {
					switch op.Kind {
					case "sleep":
						simrt.Sleep(time.Duration(op.A) * time.Millisecond)
					case "publish":
						err := pub.Publish(context.Background(), cluster, cluster.Spec.Etcd.Endpoints)
						if simrt.Dying() {
							return
						}
						s.Probe("c21.operator-publish")
						if err == nil {
							for i, t := range crTopics {
								acks = append(acks, w9ack{t, int32(1 + i), "operator publish", s.Step()})
							}
						}
					}
				}
			})
			continue
		}
		node := fmt.Sprintf("broker%d", id)
		s.Spawn(node, node, true, func() {
			defer finish()
			simetcd.NextClientName = node
			store, err := metadata.NewEtcdStore(context.Background(), metadata.ClusterMetadata{}, metadata.EtcdStoreConfig{Endpoints: []string{"sim:2379"}})
			simetcd.NextClientName = ""
			if err != nil {
				s.Probe("c21.broker-store-failed")
				return
			}
			defer store.Close()
			for _, op := range ops {
				if s.Failed() || simrt.Dying() {
					return
				}
				switch op.Kind {
				case "sleep":
					simrt.Sleep(time.Duration(op.A) * time.Millisecond)
				case "create":
					name := fmt.Sprintf("b%d-t%d", id, op.A)
					_, err := store.CreateTopic(context.Background(), metadata.TopicSpec{Name: name, NumPartitions: int32(op.B), ReplicationFactor: 1})
					if err == nil {
						s.Probe("c21.create-acked")
						acks = append(acks, w9ack{name, int32(op.B), "CreateTopic by " + node, s.Step()})
					}
				case "grow":
					name := fmt.Sprintf("b%d-t%d", id, op.A)
					if err := store.CreatePartitions(context.Background(), name, int32(op.B)); err == nil {
						s.Probe("c21.grow-acked")
						acks = append(acks, w9ack{name, int32(op.B), "CreatePartitions by " + node, s.Step()})
					}
				}
			}
		})
	}
	s.Spawn("judge", "", true, func() {
		done.Wait(nil, "all-writers")
		simrt.Sleep(2 * time.Second)
		raw, ok := w.etcd.Snapshot("/kafscale/metadata/snapshot")["/kafscale/metadata/snapshot"]
		if !ok {
			if len(acks) > 0 {
				s.Fail("C21", "acknowledged-topic-lost", "%d changes were acknowledged but etcd holds no snapshot", len(acks))
			}
			return
		}
		var snap metadata.ClusterMetadata
		if err := json.Unmarshal([]byte(raw), &snap); err != nil {
			s.Fail("C21", "snapshot-unreadable", "the shared snapshot does not decode: %v", err)
			return
		}
		have := map[string]int{}
		for _, t := range snap.Topics {
			if t.Topic != nil {
				have[*t.Topic] = len(t.Partitions)
			}
		}
		s.Probe("c21.judged")
		for _, a := range acks {
			n, ok := have[a.topic]
			if !ok {
				s.Fail("C21", "acknowledged-topic-lost", "%s (%s, step %d) was acknowledged, but the shared snapshot at the end does not list the topic (it lists %v)", a.topic, a.what, a.step, have)
				return
			}
			if int32(n) < a.parts {
				s.Fail("C21", "partition-count-shrank", "%s (%s, step %d) was acknowledged with %d partitions, the shared snapshot at the end has %d", a.topic, a.what, a.step, a.parts, n)
				return
			}
		}
	})
}
