package operator

// W9: the real ClusterReconciler.Reconcile (etcd resources, broker workload,
// services, LFS proxy resources, HPA, snapshot publish, status) against
// controller-runtime's fake API server wrapped in a fault-injecting
// interceptor, and the simulated etcd for the snapshot publish.
//
// C42: "Reconciling the same cluster resource again without changes leaves every
// generated Kubernetes object unchanged. The rendered objects depend only on the
// cluster resource and the operator's environment."

import (
	"context"
	"encoding/json"
	"fmt"
	"math/rand/v2"
	"os"
	"sort"
	"strings"
	"testing"
	"time"

	appsv1 "k8s.io/api/apps/v1"
	autoscalingv2 "k8s.io/api/autoscaling/v2"
	batchv1 "k8s.io/api/batch/v1"
	corev1 "k8s.io/api/core/v1"
	policyv1 "k8s.io/api/policy/v1"
	apierrors "k8s.io/apimachinery/pkg/api/errors"
	"k8s.io/apimachinery/pkg/api/resource"
	metav1 "k8s.io/apimachinery/pkg/apis/meta/v1"
	"k8s.io/apimachinery/pkg/runtime"
	"k8s.io/apimachinery/pkg/runtime/schema"
	"k8s.io/apimachinery/pkg/types"
	ctrl "sigs.k8s.io/controller-runtime"
	"sigs.k8s.io/controller-runtime/pkg/client"
	"sigs.k8s.io/controller-runtime/pkg/client/fake"
	"sigs.k8s.io/controller-runtime/pkg/client/interceptor"

	kafscalev1alpha1 "github.com/KafScale/platform/api/v1alpha1"

	"verif/sim/driver"
	"verif/sim/simetcd"
	"verif/sim/simrt"
)

func TestSim(t *testing.T) {
	// the snapshot-bucket preflight would talk to a real S3 endpoint
	os.Setenv("KAFSCALE_OPERATOR_ETCD_SNAPSHOT_SKIP_PREFLIGHT", "true")
	driver.Main(t, w9World)
}

var w9World = driver.World{
	Name: "w9-operator",
	Gen:  w9Gen,
	Run:  w9Run,
	Real: []string{"pkg/operator ClusterReconciler.Reconcile and everything it renders (EnsureEtcd resources, broker StatefulSet/Deployment, services, LFS proxy resources, HPA, status), SnapshotPublisher.Publish / PublishMetadataSnapshot", "controller-runtime CreateOrUpdate / SetControllerReference", "etcd clientv3 front half"},
	Stub: []string{"Kubernetes API server (controller-runtime fake client behind a fault-injecting interceptor: conflicts, errors before and after the call took effect)", "etcd server (SimEtcd)", "snapshot bucket preflight (skipped through the operator's own environment switch)", "scheduler, clock"},
}

func w9pick[T any](r *rand.Rand, xs ...T) T { return xs[r.IntN(len(xs))] }

func w9Gen(r *rand.Rand, prop, tier string) *simrt.Case {
	if prop == "C21" {
		return w9GenSnapshot(r)
	}
	c := &simrt.Case{Config: map[string]int64{}}
	c.Config["spec_seed"] = int64(r.Uint32())
	c.Config["map_seed"] = int64(r.Uint32())
	c.Config["map_reshuffle"] = 1
	c.Config["max_steps"] = 60000
	c.Config["max_virtual_s"] = 3000
	c.Config["topics"] = int64(r.IntN(3))
	c.Config["sibling"] = w9pick[int64](r, 0, 0, 0, 1)
	c.Config["drift"] = w9pick[int64](r, 0, 0, 1)
	if c.Config["drift"] == 1 && r.IntN(2) == 0 {
		// one of the writes that put the annotated objects back meets a write conflict
		c.Faults = append(c.Faults, simrt.Fault{Kind: "k8s.conflict.fail_before", Op: "k8s.update", Nth: 2 + r.IntN(10)})
	}
	c.Program = []simrt.Op{{Actor: 0, Kind: "reconcile"}}
	for i := 0; i < w9pick(r, 0, 0, 1, 2, 3); i++ {
		switch r.IntN(5) {
		case 0:
			c.Faults = append(c.Faults, simrt.Fault{Kind: "k8s.conflict.fail_before", Op: w9pick(r, "k8s.update", "k8s.create", "k8s.status"), Nth: r.IntN(8)})
		case 1:
			c.Faults = append(c.Faults, simrt.Fault{Kind: "k8s.fail_before", Op: "k8s.", Nth: r.IntN(25)})
		case 2:
			c.Faults = append(c.Faults, simrt.Fault{Kind: "k8s.fail_after", Op: w9pick(r, "k8s.update", "k8s.create"), Nth: r.IntN(8)})
		case 3:
			c.Faults = append(c.Faults, simrt.Fault{Kind: "etcd.unavail", Op: "etcd.", Nth: r.IntN(4), Count: 1 + r.IntN(3)})
		default:
			c.Faults = append(c.Faults, simrt.Fault{Kind: "etcd.timeout_applied", Op: "etcd.txn", Nth: r.IntN(2)})
		}
	}
	return c
}

func w9Scheme() *runtime.Scheme {
	s := runtime.NewScheme()
	for _, add := range []func(*runtime.Scheme) error{kafscalev1alpha1.AddToScheme, appsv1.AddToScheme, corev1.AddToScheme, policyv1.AddToScheme, batchv1.AddToScheme, autoscalingv2.AddToScheme} {
		if err := add(s); err != nil {
			panic(err)
		}
	}
	return s
}

func w9Cluster(seed int64) *kafscalev1alpha1.KafscaleCluster {
	r := rand.New(rand.NewPCG(uint64(seed), 5))
	i32 := func(v int32) *int32 { return &v }
	i64 := func(v int64) *int64 { return &v }
	b := func(v bool) *bool { return &v }
	cl := &kafscalev1alpha1.KafscaleCluster{
		ObjectMeta: metav1.ObjectMeta{Name: w9pick(r, "demo", "c2"), Namespace: w9pick(r, "default", "kafka"), UID: types.UID("uid-1")},
		Spec: kafscalev1alpha1.KafscaleClusterSpec{
			S3: kafscalev1alpha1.S3Spec{Bucket: w9pick(r, "bucket", "My_Bucket.x"), Region: w9pick(r, "us-east-1", "eu-west-1"), CredentialsSecretRef: w9pick(r, "creds", "")},
		},
	}
	sp := &cl.Spec
	if r.IntN(2) == 0 {
		sp.Etcd.Endpoints = []string{"http://etcd-a:2379", "http://etcd-b:2379"}[:1+r.IntN(2)]
	}
	if r.IntN(2) == 0 {
		sp.Brokers.Replicas = i32(int32(1 + r.IntN(4)))
	}
	if r.IntN(2) == 0 {
		sp.Brokers.Resources.Requests = corev1.ResourceList{corev1.ResourceCPU: resource.MustParse("250m"), corev1.ResourceMemory: resource.MustParse("256Mi")}
		sp.Brokers.Resources.Limits = corev1.ResourceList{corev1.ResourceCPU: resource.MustParse("1"), corev1.ResourceMemory: resource.MustParse("1Gi"), corev1.ResourceEphemeralStorage: resource.MustParse("2Gi")}
	}
	if r.IntN(2) == 0 {
		sp.Brokers.AdvertisedHost = "kafka.example.com"
		sp.Brokers.AdvertisedPort = i32(19092)
	}
	if r.IntN(2) == 0 {
		sp.Brokers.Service = kafscalev1alpha1.BrokerServiceSpec{
			Type:                     w9pick(r, "LoadBalancer", "NodePort", "ClusterIP", ""),
			Annotations:              map[string]string{"a.example.com/one": "1", "a.example.com/two": "2", "b.example.com/three": "3", "c/four": "4"},
			LoadBalancerSourceRanges: []string{"203.0.113.0/24", "198.51.100.0/24"},
			ExternalTrafficPolicy:    w9pick(r, "Local", "Cluster", ""),
		}
		if r.IntN(2) == 0 {
			sp.Brokers.Service.KafkaNodePort = i32(30092)
			sp.Brokers.Service.MetricsNodePort = i32(30093)
		}
	}
	if r.IntN(2) == 0 {
		sp.Config = kafscalev1alpha1.ClusterConfigSpec{SegmentBytes: 1 << 20, FlushIntervalMs: int32(r.IntN(900)), CacheSize: w9pick(r, "", "64Mi")}
	}
	if r.IntN(2) == 0 {
		sp.S3.Endpoint = "http://minio:9000"
		sp.S3.ReadBucket, sp.S3.ReadRegion, sp.S3.ReadEndpoint = "rb", "rr", "http://minio-ro:9000"
		sp.S3.KMSKeyARN = "arn:aws:kms:x"
	}
	if r.IntN(2) == 0 {
		l := &sp.LfsProxy
		l.Enabled = true
		l.Replicas = i32(int32(1 + r.IntN(3)))
		l.Image = w9pick(r, "", "example/lfs:1")
		l.ImagePullPolicy = w9pick(r, "", "Always")
		if r.IntN(2) == 0 {
			l.Backends = []string{"b0:9092", "b1:9092"}
		}
		l.AdvertisedHost = w9pick(r, "", "lfs.example.com")
		if r.IntN(2) == 0 {
			l.AdvertisedPort = i32(29092)
			l.BackendCacheTTLSeconds = i32(30)
		}
		l.Service = kafscalev1alpha1.LfsProxyServiceSpec{Type: w9pick(r, "", "LoadBalancer"), Annotations: map[string]string{"x/a": "1", "x/b": "2", "x/c": "3"}, LoadBalancerSourceRanges: []string{"10.0.0.0/8"}}
		if r.IntN(2) == 0 {
			l.Service.Port = i32(9192)
		}
		l.HTTP = kafscalev1alpha1.LfsProxyHTTPSpec{Enabled: b(r.IntN(2) == 0), Port: i32(8080), APIKeySecretRef: w9pick(r, "", "apikey"), APIKeySecretKey: w9pick(r, "", "key")}
		l.Metrics = kafscalev1alpha1.LfsProxyMetricsSpec{Enabled: b(r.IntN(2) == 0)}
		l.Health = kafscalev1alpha1.LfsProxyHealthSpec{Enabled: b(r.IntN(2) == 0)}
		l.S3 = kafscalev1alpha1.LfsProxyS3Spec{Namespace: w9pick(r, "", "lfsns"), MaxBlobSize: i64(1 << 30), ChunkSize: i64(8 << 20), ForcePathStyle: b(true), EnsureBucket: b(r.IntN(2) == 0)}
	}
	return cl
}

type w9 struct {
	sim  *simrt.Sim
	c    *simrt.Case
	etcd *simetcd.Server
}

func w9Run(t *testing.T, c *simrt.Case, prop string, keepTrace bool) simrt.Result {
	w := &w9{c: c}
	res := simrt.Run(t, c, keepTrace, func(s *simrt.Sim) {
		w.sim = s
		w.etcd = simetcd.NewServer(s, c.Cfg("etcd_lat_us", 300))
		simetcd.Install(w.etcd)
		if c.Cfg("c21", 0) == 1 {
			w.runSnapshot()
			return
		}
		s.Spawn("operator", "operator", true, w.run)
	}, nil)
	simetcd.Install(nil)
	if res.Violation != nil && res.Violation.Property != prop {
		res.Stats.Probes["foreign:"+res.Violation.Property+"/"+res.Violation.Clause]++
		res.Violation = nil
	}
	return res
}

func (w *w9) api(scheme *runtime.Scheme, objs ...client.Object) client.WithWatch {
	gate := func(ctx context.Context, verb string, obj runtime.Object, name string, call func() error) error {
		kind := fmt.Sprintf("%T", obj)
		kind = kind[strings.LastIndex(kind, ".")+1:]
		out := simrt.IO(ctx, "k8s."+verb, kind+"/"+name, 200*time.Microsecond, nil)
		if out.Fault == "" || strings.HasSuffix(out.Fault, "slow") {
			return call()
		}
		w.sim.Probe("c42.api-fault:" + out.Fault)
		gr := schema.GroupResource{Resource: strings.ToLower(kind)}
		switch {
		case strings.HasPrefix(out.Fault, "k8s.conflict"):
			return apierrors.NewConflict(gr, name, fmt.Errorf("the object has been modified (injected)"))
		case strings.HasSuffix(out.Fault, "fail_after"):
			_ = call()
			return apierrors.NewTimeoutError("request timed out after it was applied (injected)", 1)
		}
		return apierrors.NewInternalError(fmt.Errorf("injected api error"))
	}
	funcs := interceptor.Funcs{
		Get: func(ctx context.Context, c client.WithWatch, key client.ObjectKey, obj client.Object, opts ...client.GetOption) error {
			return gate(ctx, "get", obj, key.Name, func() error { return c.Get(ctx, key, obj, opts...) })
		},
		List: func(ctx context.Context, c client.WithWatch, list client.ObjectList, opts ...client.ListOption) error {
			return gate(ctx, "list", list, "", func() error { return c.List(ctx, list, opts...) })
		},
		Create: func(ctx context.Context, c client.WithWatch, obj client.Object, opts ...client.CreateOption) error {
			return gate(ctx, "create", obj, obj.GetName(), func() error { return c.Create(ctx, obj, opts...) })
		},
		Update: func(ctx context.Context, c client.WithWatch, obj client.Object, opts ...client.UpdateOption) error {
			return gate(ctx, "update", obj, obj.GetName(), func() error { return c.Update(ctx, obj, opts...) })
		},
		Delete: func(ctx context.Context, c client.WithWatch, obj client.Object, opts ...client.DeleteOption) error {
			return gate(ctx, "delete", obj, obj.GetName(), func() error { return c.Delete(ctx, obj, opts...) })
		},
		Patch: func(ctx context.Context, c client.WithWatch, obj client.Object, patch client.Patch, opts ...client.PatchOption) error {
			return gate(ctx, "patch", obj, obj.GetName(), func() error { return c.Patch(ctx, obj, patch, opts...) })
		},
		SubResourceUpdate: func(ctx context.Context, c client.Client, sub string, obj client.Object, opts ...client.SubResourceUpdateOption) error {
			return gate(ctx, "status", obj, obj.GetName(), func() error { return c.SubResource(sub).Update(ctx, obj, opts...) })
		},
	}
	return fake.NewClientBuilder().WithScheme(scheme).WithObjects(objs...).WithStatusSubresource(&kafscalev1alpha1.KafscaleCluster{}).WithInterceptorFuncs(funcs).Build()
}

// snapshot lists every generated object as kind/namespace/name -> JSON (cluster resource excluded).
func (w *w9) snapshot(c client.Client, keepVersions bool) (map[string]string, error) {
	out := map[string]string{}
	lists := []client.ObjectList{&appsv1.DeploymentList{}, &appsv1.StatefulSetList{}, &corev1.ServiceList{}, &corev1.ConfigMapList{}, &corev1.SecretList{}, &policyv1.PodDisruptionBudgetList{}, &batchv1.CronJobList{}, &autoscalingv2.HorizontalPodAutoscalerList{}}
	for _, l := range lists {
		if err := c.List(context.Background(), l); err != nil {
			return nil, err
		}
		items, err := apiMetaExtract(l)
		if err != nil {
			return nil, err
		}
		for _, it := range items {
			it.SetManagedFields(nil)
			if !keepVersions {
				it.SetResourceVersion("")
				it.SetUID("")
				it.SetCreationTimestamp(metav1.Time{})
				it.SetGeneration(0)
			}
			js, err := json.Marshal(it)
			if err != nil {
				return nil, err
			}
			kind := fmt.Sprintf("%T", it)
			out[kind[strings.LastIndex(kind, ".")+1:]+"/"+it.GetNamespace()+"/"+it.GetName()] = string(js)
		}
	}
	return out, nil
}

const w9DriftKey = "third-party.example/touched"

// w9StripDrift removes the third party's annotation from every object of a snapshot (and re-encodes all objects
// the same way, so that two stripped snapshots compare).
func w9StripDrift(snap map[string]string) map[string]string {
	out := map[string]string{}
	for k, v := range snap {
		var m map[string]any
		if json.Unmarshal([]byte(v), &m) != nil {
			out[k] = v
			continue
		}
		if md, ok := m["metadata"].(map[string]any); ok {
			delete(md, "resourceVersion") // (the writes that put things back do move it)
			delete(md, "generation")
			if an, ok := md["annotations"].(map[string]any); ok {
				delete(an, w9DriftKey)
				if len(an) == 0 {
					delete(md, "annotations")
				}
			}
		}
		js, _ := json.Marshal(m)
		out[k] = string(js)
	}
	return out
}

func apiMetaExtract(l client.ObjectList) ([]client.Object, error) {
	var out []client.Object
	switch v := l.(type) {
	case *appsv1.DeploymentList:
		for i := range v.Items {
			out = append(out, &v.Items[i])
		}
	case *appsv1.StatefulSetList:
		for i := range v.Items {
			out = append(out, &v.Items[i])
		}
	case *corev1.ServiceList:
		for i := range v.Items {
			out = append(out, &v.Items[i])
		}
	case *corev1.ConfigMapList:
		for i := range v.Items {
			out = append(out, &v.Items[i])
		}
	case *corev1.SecretList:
		for i := range v.Items {
			out = append(out, &v.Items[i])
		}
	case *policyv1.PodDisruptionBudgetList:
		for i := range v.Items {
			out = append(out, &v.Items[i])
		}
	case *batchv1.CronJobList:
		for i := range v.Items {
			out = append(out, &v.Items[i])
		}
	case *autoscalingv2.HorizontalPodAutoscalerList:
		for i := range v.Items {
			out = append(out, &v.Items[i])
		}
	default:
		return nil, fmt.Errorf("unknown list %T", l)
	}
	return out, nil
}

func diffSnap(a, b map[string]string) string {
	var keys []string
	seen := map[string]bool{}
	for k := range a {
		keys = append(keys, k)
		seen[k] = true
	}
	for k := range b {
		if !seen[k] {
			keys = append(keys, k)
		}
	}
	sort.Strings(keys)
	for _, k := range keys {
		x, okx := a[k]
		y, oky := b[k]
		switch {
		case !okx:
			return k + " exists only after"
		case !oky:
			return k + " exists only before"
		case x != y:
			// first differing position, with some context
			i := 0
			for i < len(x) && i < len(y) && x[i] == y[i] {
				i++
			}
			lo := i - 60
			if lo < 0 {
				lo = 0
			}
			hx, hy := i+60, i+60
			if hx > len(x) {
				hx = len(x)
			}
			if hy > len(y) {
				hy = len(y)
			}
			return fmt.Sprintf("%s differs: ...%s... vs ...%s...", k, x[lo:hx], y[lo:hy])
		}
	}
	return ""
}

func (w *w9) faultsFired() int {
	n := 0
	for _, v := range w.sim.Stats.FaultsFired {
		n += v
	}
	return n
}

// settle reconciles until two consecutive reconciles succeed with no injected fault in between,
// and returns the object snapshots after each of the two.
func (w *w9) settle(r *ClusterReconciler, c client.Client, key types.NamespacedName) (s1, s2 map[string]string, ok bool) {
	clean := 0
	var absorbed map[string]string
	for attempt := 0; attempt < 12 && clean < 2; attempt++ {
		before := w.faultsFired()
		res, err := r.Reconcile(context.Background(), ctrl.Request{NamespacedName: key})
		if simrt.Dying() {
			return nil, nil, false
		}
		w.sim.Probe("c42.reconcile")
		if err != nil || res.RequeueAfter > 0 || w.faultsFired() != before {
			w.sim.Probe("c42.reconcile-disturbed")
			clean = 0
			absorbed = nil
			if err == nil && res.RequeueAfter == 0 {
				// a fault was injected and the reconcile absorbed it: it reports success and asks for nothing more,
				// so what it left behind is what it stands by
				absorbed, _ = w.snapshot(c, false)
				w.sim.Probe("c42.reconcile-absorbed-a-fault")
			}
			if res.RequeueAfter > 0 {
				simrt.Sleep(res.RequeueAfter)
			}
			continue
		}
		clean++
		snap, serr := w.snapshot(c, true)
		if serr != nil {
			w.sim.Fail("HARNESS", "snapshot", "%v", serr)
			return nil, nil, false
		}
		if absorbed != nil {
			now, _ := w.snapshot(c, false)
			if d := diffSnap(absorbed, now); d != "" {
				w.sim.Fail("C42", "successful-reconcile-left-objects-unfinished", "a reconcile met an injected fault, reported success and asked for no requeue; the next reconcile of the unchanged cluster changed a generated object: %s", d)
				return nil, nil, false
			}
			absorbed = nil
		}
		if clean == 1 {
			s1 = snap
		} else {
			s2 = snap
		}
	}
	return s1, s2, clean == 2
}

func (w *w9) run() {
	scheme := w9Scheme()
	cluster := w9Cluster(w.c.Cfg("spec_seed", 1))
	if w.c.Cfg("sibling", 0) == 1 {
		// (a name no earlier case of this OS process has used: whatever the operator process remembers about a
		// cluster name, it has it from the sibling reconciled below)
		cluster.Name = fmt.Sprintf("%s-%05x", cluster.Name, w.c.Cfg("spec_seed", 1)&0xfffff)
	}
	var objs []client.Object
	objs = append(objs, cluster.DeepCopy())
	for i := 0; i < int(w.c.Cfg("topics", 0)); i++ {
		objs = append(objs, &kafscalev1alpha1.KafscaleTopic{ObjectMeta: metav1.ObjectMeta{Name: fmt.Sprintf("topic-%d", i), Namespace: cluster.Namespace}, Spec: kafscalev1alpha1.KafscaleTopicSpec{ClusterRef: cluster.Name, Partitions: int32(1 + i)}})
	}
	const siblingNS = "zz-other-ns"
	if w.c.Cfg("sibling", 0) == 1 {
		// the same operator process has reconciled a cluster of the same name and shape in another namespace
		// before: nothing of that one may show in what is rendered for this one
		sib := cluster.DeepCopy()
		sib.Namespace, sib.UID = siblingNS, types.UID("uid-sibling")
		c0 := w.api(scheme, sib)
		r0 := &ClusterReconciler{Client: c0, Scheme: scheme, Publisher: NewSnapshotPublisher(c0)}
		_, _, _ = w.settle(r0, c0, types.NamespacedName{Namespace: siblingNS, Name: sib.Name})
		w.sim.Probe("c42.sibling-cluster-reconciled-first")
	}
	c := w.api(scheme, objs...)
	r := &ClusterReconciler{Client: c, Scheme: scheme, Publisher: NewSnapshotPublisher(c)}
	key := types.NamespacedName{Namespace: cluster.Namespace, Name: cluster.Name}
	s1, s2, ok := w.settle(r, c, key)
	if !ok {
		w.sim.Probe("c42.never-settled")
		return
	}
	w.sim.Probe("c42.idempotence-judged")
	if d := diffSnap(s1, s2); d != "" {
		w.sim.Fail("C42", "second-reconcile-changed-objects", "reconciling the unchanged cluster again changed a generated object: %s", d)
		return
	}
	if len(s1) == 0 {
		w.sim.Fail("HARNESS", "snapshot", "no generated objects found")
		return
	}
	if w.c.Cfg("sibling", 0) == 1 {
		var ks []string
		for k := range s2 {
			ks = append(ks, k)
		}
		sort.Strings(ks)
		for _, k := range ks {
			if v := s2[k]; strings.Contains(v, siblingNS) {
				w.sim.Fail("C42", "rendering-depends-on-another-cluster", "object %s rendered for cluster %s/%s mentions %q, the namespace of another cluster the same operator process reconciled earlier (the cluster resource does not contain it)", k, cluster.Namespace, cluster.Name, siblingNS)
				return
			}
		}
	}
	if w.c.Cfg("drift", 0) == 1 {
		// a third party annotates the Services the operator owns; whatever the next reconciles have to write
		// (possibly meeting a write conflict), the objects come out as they were, the annotation aside
		var svcs corev1.ServiceList
		if err := c.List(context.Background(), &svcs); err == nil {
			for i := range svcs.Items {
				svc := &svcs.Items[i]
				if svc.Annotations == nil {
					svc.Annotations = map[string]string{}
				}
				svc.Annotations[w9DriftKey] = "1"
				_ = c.Update(context.Background(), svc)
			}
		}
		w.sim.Probe("c42.third-party-annotated-services")
		_, s4, ok := w.settle(r, c, key)
		if !ok {
			w.sim.Probe("c42.never-settled-after-drift")
			return
		}
		if d := diffSnap(w9StripDrift(s2), w9StripDrift(s4)); d != "" {
			w.sim.Fail("C42", "objects-changed-after-foreign-annotation", "a third party annotated the operator's Services; after reconciling the unchanged cluster again a generated object differs from what it was: %s", d)
			return
		}
	}
	// the same cluster resource against a fresh API server renders the same objects
	var objs2 []client.Object
	objs2 = append(objs2, cluster.DeepCopy())
	for _, o := range objs[1:] {
		objs2 = append(objs2, o.DeepCopyObject().(client.Object))
	}
	for _, o := range objs2 {
		o.SetResourceVersion("")
	}
	c2 := w.api(scheme, objs2...)
	r2 := &ClusterReconciler{Client: c2, Scheme: scheme, Publisher: NewSnapshotPublisher(c2)}
	if _, _, ok := w.settle(r2, c2, key); !ok {
		return
	}
	a, err1 := w.snapshot(c, false)
	b, err2 := w.snapshot(c2, false)
	if err1 != nil || err2 != nil {
		w.sim.Fail("HARNESS", "snapshot", "%v %v", err1, err2)
		return
	}
	w.sim.Probe("c42.determinism-judged")
	if w.c.Cfg("drift", 0) == 1 {
		a, b = w9StripDrift(a), w9StripDrift(b) // (the third party's annotation is only on the first server)
	}
	if d := diffSnap(a, b); d != "" {
		w.sim.Fail("C42", "rendering-not-a-function-of-the-resource", "the same cluster resource reconciled against a fresh API server rendered different objects: %s", d)
	}
}
