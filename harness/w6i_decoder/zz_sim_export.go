package decoder

// Simulation seam (overlay only, never part of the shipped tree): lets the
// processor world build the real S3 decoder over a simulated GetObject API and
// call the real segment decoder on bytes.

import (
	"context"

	"github.com/aws/aws-sdk-go-v2/service/s3"
)

type SimGetObjectAPI interface {
	GetObject(ctx context.Context, params *s3.GetObjectInput, optFns ...func(*s3.Options)) (*s3.GetObjectOutput, error)
}

func NewForSim(api SimGetObjectAPI, bucket string) Decoder {
	return &s3Decoder{client: api, bucket: bucket}
}

func DecodeSegmentForSim(segment []byte, topic string, partition int32) ([]Record, error) {
	return decodeSegment(segment, topic, partition)
}
