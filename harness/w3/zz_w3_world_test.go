package metadata

// W3: 2-4 "brokers", each with a real EtcdStore, PartitionLeaseManager and
// GroupLeaseManager on its own client of one simulated etcd; optional real
// PartitionRouter / GroupRouter (the proxy's view). See DESIGN.md section 5
// (C17, C18, C20, C21) and appendix C.

import (
	"context"
	"encoding/json"
	"fmt"
	"io"
	"log/slog"
	"math/rand/v2"
	"sort"
	"strings"
	"testing"
	"time"

	"github.com/KafScale/platform/pkg/protocol"
	"github.com/twmb/franz-go/pkg/kmsg"

	"verif/sim/driver"
	"verif/sim/simetcd"
	"verif/sim/simrt"
)

func TestSim(t *testing.T) { driver.Main(t, w3World) }

var w3World = driver.World{
	Name: "w3-metadata",
	Gen:  w3Gen,
	Run:  w3Run,
	Real: []string{"pkg/metadata EtcdStore (incl. snapshot watcher), InMemoryStore, LeaseManager / PartitionLeaseManager / GroupLeaseManager, PartitionRouter, GroupRouter, codec",
		"clientv3 KV wrapper + Txn builder, concurrency.Session (un-woven, real)"},
	Stub: []string{"etcd server: MVCC store, leases on virtual time, ordered watches (simetcd behind pb.KVClient, clientv3.Lease, clientv3.Watcher)", "scheduler, clock (simulator)"},
}

var w3Topics = []string{"orders", "pay", "logs"}
var w3Groups = []string{"g1", "g2"}

type w3node struct {
	idx    int
	inc    int
	name   string // client name = node incarnation, e.g. n1#2
	broker string // broker id
	store  *EtcdStore
	plm    *PartitionLeaseManager
	glm    *GroupLeaseManager
	ctx    context.Context
	cancel context.CancelFunc
	up     bool
}

type w3ack struct {
	kind  string // create / grow / delete
	topic string
	count int32
	step  int
	node  string
}

type w3 struct {
	sim    *simrt.Sim
	c      *simrt.Case
	prop   string
	etcd   *simetcd.Server
	nodes  []*w3node
	prouter *PartitionRouter
	grouter *GroupRouter
	acks   []w3ack
	logIdx int
	left   int
	done   *simrt.Future
	everOwned map[string]map[string]bool // lease key -> brokers that ever held it
}

func quiet() *slog.Logger { return slog.New(slog.NewTextHandler(io.Discard, nil)) }

func (w *w3) cfg(n string, d int64) int64 { return w.c.Cfg(n, d) }

func w3Run(t *testing.T, c *simrt.Case, prop string, keepTrace bool) simrt.Result {
	w := &w3{c: c, prop: prop, everOwned: map[string]map[string]bool{}}
	res := simrt.Run(t, c, keepTrace, func(s *simrt.Sim) {
		w.sim = s
		w.setup()
	}, func(s *simrt.Sim) { w.finish() })
	simetcd.Install(nil)
	if res.Violation != nil && res.Violation.Property != prop {
		res.Stats.Probes["foreign:"+res.Violation.Property+"/"+res.Violation.Clause]++
		res.Violation = nil
	}
	return res
}

func baseMeta() ClusterMetadata {
	meta := ClusterMetadata{ControllerID: 0, ClusterID: kmsg.StringPtr("sim")}
	for i := 0; i < 3; i++ {
		meta.Brokers = append(meta.Brokers, protocol.MetadataBroker{NodeID: int32(i), Host: fmt.Sprintf("b%d", i), Port: 9092})
	}
	return meta
}

func (w *w3) startNode(n *w3node) {
	n.inc++
	n.name = fmt.Sprintf("n%d#%d", n.idx, n.inc)
	n.broker = fmt.Sprint(n.idx)
	w.sim.SetupNode = n.name
	simetcd.NextClientName = n.name
	n.ctx, n.cancel = context.WithCancel(context.Background())
	store, err := NewEtcdStore(n.ctx, baseMeta(), EtcdStoreConfig{Endpoints: []string{"sim:2379"}})
	simetcd.NextClientName = ""
	if err != nil {
		w.sim.Fail("HARNESS", "setup", "NewEtcdStore: %v", err)
		return
	}
	n.store = store
	ttl := int(w.cfg("lease_ttl_s", 10))
	// the broker's acquisition hook reopens the partition log (S3 work of arbitrary duration)
	hookLat := time.Duration(w.cfg("acquire_hook_ms", 0)) * time.Millisecond
	n.plm = NewPartitionLeaseManager(store.EtcdClient(), PartitionLeaseConfig{BrokerID: n.broker, LeaseTTLSeconds: ttl, Logger: quiet(),
		OnAcquire: func(ctx context.Context, topic string, partition int32) {
			simrt.IO(ctx, "hook.acquire", fmt.Sprintf("%s/%d", topic, partition), hookLat, nil)
		}})
	n.glm = NewGroupLeaseManager(store.EtcdClient(), GroupLeaseConfig{BrokerID: n.broker, LeaseTTLSeconds: ttl, Logger: quiet()})
	n.up = true
}

func (w *w3) setup() {
	s := w.sim
	w.etcd = simetcd.NewServer(s, w.cfg("etcd_lat_us", 400))
	simetcd.Install(w.etcd)
	w.etcd.StartExpirer()
	nn := int(w.cfg("nodes", 2))
	for i := 0; i < nn; i++ {
		n := &w3node{idx: i}
		w.nodes = append(w.nodes, n)
		w.startNode(n)
	}
	s.OnStop(func() {
		for _, n := range w.nodes {
			if n.store != nil {
				_ = n.store.Close()
			}
			if n.cancel != nil {
				n.cancel()
			}
		}
		if w.prouter != nil {
			w.prouter.Stop()
		}
		if w.grouter != nil {
			w.grouter.Stop()
		}
	})
	s.OnStep(w.stepInvariant)
	actors := map[int][]simrt.Op{}
	var ids []int
	for _, op := range w.c.Program {
		if _, ok := actors[op.Actor]; !ok {
			ids = append(ids, op.Actor)
		}
		actors[op.Actor] = append(actors[op.Actor], op)
	}
	sort.Ints(ids)
	w.done = s.NewFuture("")
	for _, id := range ids {
		if id < 100 {
			w.left++
		}
	}
	if w.left == 0 {
		w.done.Set(true)
	}
	for _, id := range ids {
		id, ops := id, actors[id]
		s.Spawn(fmt.Sprintf("actor%03d", id), "", true, func() {
			if id >= 100 {
				w.done.Wait(nil, "barrier")
			}
			for _, op := range ops {
				if s.Failed() {
					break
				}
				w.op(id, op)
			}
			if id < 100 {
				w.left--
				if w.left == 0 {
					w.done.Set(true)
				}
			}
		})
	}
}

// run executes fn as a task of the node's current incarnation and waits for it
// (so that a node crash kills the operation, not the driving actor).
func (w *w3) run(n *w3node, what string, fn func()) bool {
	if !n.up {
		simrt.Sleep(time.Millisecond)
		return false
	}
	fut := w.sim.NewFuture(n.name)
	w.sim.Spawn(fmt.Sprintf("%s/%s-%d", n.name, what, w.sim.Step()), n.name, false, func() {
		fn()
		if !simrt.Dying() {
			fut.Set(true)
		}
	})
	_, ok := fut.Wait(nil, "op")
	return ok
}

func (w *w3) op(actor int, op simrt.Op) {
	n := w.nodes[actor%len(w.nodes)]
	topic := w3Topics[int(op.A)%len(w3Topics)]
	part := int32(op.B % 3)
	group := w3Groups[int(op.A)%len(w3Groups)]
	ctx := context.Background()
	switch op.Kind {
	case "sleep":
		simrt.Sleep(time.Duration(op.A) * time.Millisecond)
	case "acquire-p":
		w.run(n, "acq", func() { _ = n.plm.Acquire(n.ctx, topic, part); w.sim.Probe("c18.acquire") })
	case "acquire-all":
		w.run(n, "acqall", func() {
			n.plm.AcquireAll(n.ctx, []PartitionID{{Topic: topic, Partition: 0}, {Topic: topic, Partition: 1}, {Topic: w3Topics[0], Partition: part}})
		})
	case "release-p":
		w.run(n, "rel", func() { n.plm.Release(topic, part); w.sim.Probe("c18.release") })
	case "acquire-g":
		w.run(n, "acqg", func() { _ = n.glm.Acquire(n.ctx, group) })
	case "release-g":
		w.run(n, "relg", func() { n.glm.Release(group) })
	case "release-all":
		w.run(n, "relall", func() { n.plm.ReleaseAll(); n.glm.ReleaseAll() })
		fallthrough
	case "restart":
		// the process goes away; a new one comes up over the same etcd
		if n.up {
			w.sim.KillNode(n.name)
			n.cancel()
			n.up = false
			w.sim.Probe("c18.restart")
		}
		simrt.Sleep(time.Duration(5+op.C%500) * time.Millisecond)
		done := w.sim.NewFuture("")
		next := fmt.Sprintf("n%d#%d", n.idx, n.inc+1)
		w.sim.Spawn(next+"/boot", next, false, func() { w.startNode(n); done.Set(true) })
		done.Wait(nil, "boot")
	case "expire-now":
		// the server ends this node's partition session lease (long GC pause / partition seen from the server)
		if n.plm != nil && n.plm.lm.session != nil {
			w.etcd.ExpireNow(int64(n.plm.lm.session.Lease()))
			w.sim.Probe("c18.expire-now")
		}
	case "create-topic":
		cnt := int32(1 + op.B%3)
		var err error
		if w.run(n, "create", func() { _, err = n.store.CreateTopic(n.ctx, TopicSpec{Name: topic, NumPartitions: cnt, ReplicationFactor: 1}) }) && err == nil {
			w.acks = append(w.acks, w3ack{"create", topic, cnt, w.sim.Step(), n.name})
			w.sim.Probe("c21.create-acked")
		}
	case "grow":
		cnt := int32(2 + op.B%4)
		var err error
		if w.run(n, "grow", func() { err = n.store.CreatePartitions(n.ctx, topic, cnt) }) && err == nil {
			w.acks = append(w.acks, w3ack{"grow", topic, cnt, w.sim.Step(), n.name})
			w.sim.Probe("c21.grow-acked")
		}
	case "delete-topic":
		var err error
		ok := w.run(n, "delete", func() { err = n.store.DeleteTopic(n.ctx, topic) })
		// a delete that was sent may have been applied even if no answer came back
		if !ok || err == nil || !strings.Contains(fmt.Sprint(err), "unknown topic") {
			w.acks = append(w.acks, w3ack{"delete", topic, 0, w.sim.Step(), n.name})
		}
	case "start-routers":
		cli := w.etcd.Client("proxy")
		pr, err := NewPartitionRouter(ctx, cli, quiet())
		if err == nil {
			w.prouter = pr
		}
		gr, err := NewGroupRouter(ctx, cli, quiet())
		if err == nil {
			w.grouter = gr
		}
		w.sim.Probe("c20.routers-started")
	case "check-routes":
		w.checkRoutes()
	case "check-topics":
		w.checkTopics()
	case "differential":
		w.differential(op)
	}
}

// ---------------------------------------------------------------- C18

// stepInvariant runs after every scheduler step.
//
// C18: "At no time do two brokers both believe they own the same partition (or
// consumer-group) lease. This holds for any order of acquire, release, session
// expiry and restart. A broker releasing a lease never removes a lease that
// another broker has since acquired."
func (w *w3) stepInvariant() error {
	log := w.etcd.AppliedLog()
	for ; w.logIdx < len(log); w.logIdx++ {
		a := log[w.logIdx]
		isLease := strings.HasPrefix(a.Key, partitionLeasePrefix+"/") || strings.HasPrefix(a.Key, groupLeasePrefix+"/")
		if !isLease {
			continue
		}
		if a.Op == "put" {
			if w.everOwned[a.Key] == nil {
				w.everOwned[a.Key] = map[string]bool{}
			}
			w.everOwned[a.Key][a.Value] = true
		}
		if w.prop != "C18" {
			continue
		}
		switch a.Op {
		case "delete":
			// who issued it: client "n<idx>#<inc>" is broker "<idx>"
			issuer := strings.TrimPrefix(strings.SplitN(a.Client, "#", 2)[0], "n")
			if a.Prev != issuer {
				return &simrt.Violation{Property: "C18", Clause: "release-deleted-foreign-lease", Detail: fmt.Sprintf("broker %s (client %s) deleted lease key %s while it named broker %s", issuer, a.Client, a.Key, a.Prev)}
			}
			if owner := w.etcd.LeaseOwner(a.Lease); owner != "" && owner != a.Client {
				return &simrt.Violation{Property: "C18", Clause: "release-deleted-foreign-lease", Detail: fmt.Sprintf("client %s deleted lease key %s attached to the live session lease of client %s", a.Client, a.Key, owner)}
			}
		case "put":
			if a.Lease != 0 {
				if owner := w.etcd.LeaseOwner(a.Lease); owner != "" {
					ob := strings.TrimPrefix(strings.SplitN(owner, "#", 2)[0], "n")
					if ob != a.Value {
						return &simrt.Violation{Property: "C18", Clause: "lease-key-names-wrong-broker", Detail: fmt.Sprintf("lease key %s names broker %s but hangs on the session lease of client %s", a.Key, a.Value, owner)}
					}
				}
			}
		}
	}
	if w.prop != "C18" {
		return nil
	}
	// V1: among brokers whose session lease is still alive on the server, at most one believes it owns a resource
	type claim struct{ node string }
	claims := map[string][]string{}
	ghosts := map[string][]string{}
	for _, n := range w.nodes {
		if !n.up || n.plm == nil {
			continue
		}
		for _, lm := range []*LeaseManager{n.plm.lm, n.glm.lm} {
			sess := lm.session
			if sess == nil {
				// the manager has itself let go of its session (shutdown, or it noticed the session's end): it has
				// no excuse of "could not know yet" for anything it still lists as owned
				for r := range lm.owned {
					k := lm.prefix + "/" + r
					ghosts[k] = append(ghosts[k], n.name)
				}
				continue
			}
			if !w.etcd.LeaseAlive(int64(sess.Lease())) {
				continue
			}
			for r := range lm.owned {
				k := lm.prefix + "/" + r
				claims[k] = append(claims[k], n.name)
			}
		}
	}
	for k, who := range claims {
		if len(who) > 1 {
			sort.Strings(who)
			return &simrt.Violation{Property: "C18", Clause: "two-live-owners", Detail: fmt.Sprintf("%s: %v all believe they own it and all their session leases are alive on the server", k, who)}
		}
		if g := ghosts[k]; len(g) > 0 && len(who) > 0 && g[0] != who[0] {
			return &simrt.Violation{Property: "C18", Clause: "owner-without-session", Detail: fmt.Sprintf("%s: %v owns it with a live session lease while %v, which has given up its own session, still believes it owns it", k, who, g)}
		}
	}
	return nil
}

// ---------------------------------------------------------------- C20

// checkRoutes: "once changes stop, the proxy's partition and group routing
// tables match the owners recorded in etcd." Runs after every writer finished
// and a settle period longer than the reconnect delay has passed.
func (w *w3) checkRoutes() {
	if w.prouter == nil || w.grouter == nil {
		return
	}
	// "once changes stop": sessions of restarted brokers still lapse up to one TTL after the
	// last writer finished; wait until etcd has applied nothing for longer than the routers'
	// reconnect delay plus delivery latency
	simrt.Sleep(time.Duration(w.cfg("lease_ttl_s", 10))*time.Second + time.Second)
	for i := 0; i < 50; i++ {
		before := len(w.etcd.AppliedLog())
		simrt.Sleep(time.Duration(w.cfg("settle_ms", 4000)) * time.Millisecond)
		if len(w.etcd.AppliedLog()) == before {
			break
		}
	}
	w.sim.Probe("c20.judged")
	partDiff := func() string {
		want := map[string]string{}
		for k, v := range w.etcd.Snapshot(partitionLeasePrefix + "/") {
			if rk, ok := leaseKeyToRouteKey(k); ok {
				want[rk] = v
			}
		}
		got := map[string]string{}
		for _, r := range w.prouter.AllRoutes() {
			got[fmt.Sprintf("%s:%d", r.Topic, r.Partition)] = r.BrokerID
		}
		return diffMaps(want, got)
	}
	groupDiff := func() string {
		wantG := map[string]string{}
		for k, v := range w.etcd.Snapshot(groupLeasePrefix + "/") {
			if g, ok := groupLeaseKeyToGroupID(k); ok {
				wantG[g] = v
			}
		}
		gotG := map[string]string{}
		for _, r := range w.grouter.AllRoutes() {
			gotG[r.GroupID] = r.BrokerID
		}
		return diffMaps(wantG, gotG)
	}
	// "once changes stop" - and once the injected failures of the routers' own reads stop: every failed reload
	// costs a router one reconnect delay (1 s) before it tries again, and up to nine such failures are injected.
	// Convergence is demanded within a bounded time after the last change, not at one instant.
	waited := 0
	for ; waited < 12 && (partDiff() != "" || groupDiff() != ""); waited++ {
		simrt.Sleep(2 * time.Second)
	}
	if waited > 0 {
		w.sim.Probe("c20.converged-late")
	}
	if d := partDiff(); d != "" {
		w.sim.Fail("C20", "partition-routes-diverged", "changes stopped %dms ago, yet the partition routing table differs from etcd: %s", w.cfg("settle_ms", 4000)+int64(waited)*2000, d)
		return
	}
	if d := groupDiff(); d != "" {
		w.sim.Fail("C20", "group-routes-diverged", "changes stopped %dms ago, yet the group routing table differs from etcd: %s", w.cfg("settle_ms", 4000)+int64(waited)*2000, d)
	}
}

func diffMaps(want, got map[string]string) string {
	var out []string
	for k, v := range want {
		if got[k] != v {
			out = append(out, fmt.Sprintf("%s: etcd=%q table=%q", k, v, got[k]))
		}
	}
	for k, v := range got {
		if _, ok := want[k]; !ok {
			out = append(out, fmt.Sprintf("%s: etcd has no owner, table=%q", k, v))
		}
	}
	sort.Strings(out)
	return strings.Join(out, "; ")
}

// ---------------------------------------------------------------- C21

// checkTopics: "Once a topic creation or partition increase has been
// acknowledged, later operations never make the topic disappear or its
// partition count shrink ... Removal happens only through an explicit topic
// deletion."
func (w *w3) checkTopics() {
	// longer than the longest injected delay (4 s) plus the watchers' reconnect delay
	simrt.Sleep(time.Duration(w.cfg("settle_ms", 4000))*time.Millisecond + 6*time.Second)
	w.sim.Probe("c21.judged")
	want := map[string]int32{}
	deleted := map[string]bool{}
	for _, a := range w.acks {
		switch a.kind {
		case "delete":
			deleted[a.topic] = true // any delete attempt makes the topic's fate ambiguous: not demanded
		default:
			if a.count > want[a.topic] {
				want[a.topic] = a.count
			}
		}
	}
	check := func(where string, meta *ClusterMetadata) bool {
		have := map[string]int{}
		for _, t := range meta.Topics {
			have[*t.Topic] = len(t.Partitions)
			for i, p := range t.Partitions {
				if int(p.Partition) != i {
					w.sim.Fail("C21", "partitions-not-numbered", "%s: topic %q partition index %d has id %d", where, *t.Topic, i, p.Partition)
					return false
				}
			}
		}
		for topic, n := range want {
			if deleted[topic] {
				continue
			}
			got, ok := have[topic]
			if !ok {
				w.sim.Fail("C21", "acknowledged-topic-lost", "%s: topic %q was created (acknowledged) and never deleted, but is absent", where, topic)
				return false
			}
			if int32(got) < n {
				w.sim.Fail("C21", "partition-count-shrank", "%s: topic %q has %d partitions, %d were acknowledged", where, topic, got, n)
				return false
			}
		}
		return true
	}
	if raw, ok := w.etcd.Snapshot(snapshotKey())[snapshotKey()]; ok {
		var snap ClusterMetadata
		if err := json.Unmarshal([]byte(raw), &snap); err == nil {
			if !check("the snapshot in etcd", &snap) {
				return
			}
		}
	} else if len(want) > 0 {
		for t := range want {
			if !deleted[t] {
				w.sim.Fail("C21", "acknowledged-topic-lost", "topic %q was acknowledged but etcd holds no snapshot at all", t)
				return
			}
		}
	}
	for _, n := range w.nodes {
		if !n.up {
			continue
		}
		meta, err := n.store.Metadata(context.Background(), nil)
		if err != nil {
			continue
		}
		if !check("broker "+n.name, meta) {
			return
		}
	}
}

func (w *w3) finish() {}

// ---------------------------------------------------------------- generators

func pk3[T any](r *rand.Rand, xs ...T) T { return xs[r.IntN(len(xs))] }

func w3Gen(r *rand.Rand, prop, tier string) *simrt.Case {
	c := &simrt.Case{Config: map[string]int64{}}
	cfg := c.Config
	cfg["nodes"] = int64(2 + r.IntN(2))
	cfg["etcd_lat_us"] = pk3[int64](r, 100, 400, 3000)
	cfg["lease_ttl_s"] = pk3[int64](r, 2, 5, 10)
	if prop == "C18" {
		cfg["acquire_hook_ms"] = []int64{0, 0, 5, 1500, 6000}[r.IntN(5)]
	}
	cfg["max_steps"] = 8000
	cfg["max_virtual_s"] = 900
	cfg["map_seed"] = int64(r.Uint32())
	nn := int(cfg["nodes"])
	nops := 4 + r.IntN(10)
	if tier == "thorough" {
		nops = 6 + r.IntN(24)
		cfg["max_steps"] = 25000
	}
	faults := func(kinds ...string) {
		for i := 0; i < r.IntN(3); i++ {
			k := kinds[r.IntN(len(kinds))]
			f := simrt.Fault{Kind: k, Nth: r.IntN(12), Count: 1 + r.IntN(3)}
			switch k {
			case "etcd.unavail", "etcd.timeout_applied":
				f.Op = pk3(r, "etcd.txn", "etcd.put", "etcd.delete", "etcd.range", "etcd.lease.grant")
			case "etcd.drop_keepalive.unavail":
				f.Op, f.Count = "etcd.lease.keepalive", 1+r.IntN(8)
				f.Key = fmt.Sprintf("@n%d", r.IntN(nn))
			case "etcd.partition.unavail":
				f.Op, f.Count, f.Key = "etcd.", 5+r.IntN(30), fmt.Sprintf("@n%d", r.IntN(nn))
			case "etcd.watch.close":
				f.Op, f.Count = "etcd.watch.deliver", 1
			case "etcd.slow":
				f.Op, f.Arg = "etcd.", int64(50+r.IntN(4000))*1e6
			}
			c.Faults = append(c.Faults, f)
		}
	}
	switch prop {
	case "C17":
		c.Config["nodes"] = 1
		c.Config["max_steps"] = 30000 // one op and its read-back of both stores is about 450 scheduler steps
		c.Program = append(c.Program, simrt.Op{Actor: 0, Kind: "differential", A: int64(r.Uint32()), B: int64(6 + r.IntN(30))})
		if r.IntN(3) == 0 {
			faults("etcd.unavail", "etcd.timeout_applied")
		}
	case "C20":
		for a := 0; a < nn; a++ {
			for i := 0; i < nops; i++ {
				switch x := r.IntN(12); {
				case x < 5:
					c.Program = append(c.Program, simrt.Op{Actor: a, Kind: "acquire-p", A: int64(r.IntN(2)), B: int64(r.IntN(2))})
				case x < 7:
					c.Program = append(c.Program, simrt.Op{Actor: a, Kind: "release-p", A: int64(r.IntN(2)), B: int64(r.IntN(2))})
				case x < 9:
					c.Program = append(c.Program, simrt.Op{Actor: a, Kind: pk3(r, "acquire-g", "release-g"), A: int64(r.IntN(2))})
				case x < 10:
					c.Program = append(c.Program, simrt.Op{Actor: a, Kind: "restart", C: int64(r.IntN(400))})
				default:
					c.Program = append(c.Program, simrt.Op{Actor: a, Kind: "sleep", A: pk3[int64](r, 1, 30, 800, 2500)})
				}
			}
		}
		c.Program = append(c.Program, simrt.Op{Actor: 60, Kind: "sleep", A: int64(r.IntN(300))}, simrt.Op{Actor: 60, Kind: "start-routers"})
		c.Program = append(c.Program, simrt.Op{Actor: 100, Kind: "check-routes"})
		faults("etcd.watch.close", "etcd.slow", "etcd.unavail")
		if r.IntN(3) == 0 {
			// a router's watch stream breaks and etcd compacts the events it had pending: only a full read gives
			// the table back; that read (the proxy's range requests) may itself fail a few times
			c.Faults = append(c.Faults, simrt.Fault{Kind: "etcd.watch." + pk3(r, "compact", "compact", "close"), Op: "etcd.watch.deliver", Key: "@proxy", Nth: r.IntN(6), Count: 1})
			if r.IntN(2) == 0 {
				c.Faults = append(c.Faults, simrt.Fault{Kind: "etcd.unavail", Op: "etcd.range", Key: "@proxy", Nth: 2 + r.IntN(3), Count: 1 + r.IntN(2)})
			}
		}
		if r.IntN(4) == 0 {
			// a router's watch or reload goroutine gets its lock late
			for k := 0; k < 1+r.IntN(2); k++ {
				c.Faults = append(c.Faults, simrt.Fault{Kind: "sched.stall", Op: "sched.lock", Key: "Router", Nth: r.IntN(40), Count: 1, Arg: int64(10+r.IntN(3000)) * 1e6})
			}
		}
	case "C21":
		for a := 0; a < nn; a++ {
			for i := 0; i < nops; i++ {
				switch x := r.IntN(10); {
				case x < 4:
					c.Program = append(c.Program, simrt.Op{Actor: a, Kind: "create-topic", A: int64(r.IntN(3)), B: int64(r.IntN(3))})
				case x < 7:
					c.Program = append(c.Program, simrt.Op{Actor: a, Kind: "grow", A: int64(r.IntN(3)), B: int64(r.IntN(4))})
				case x < 8:
					c.Program = append(c.Program, simrt.Op{Actor: a, Kind: "delete-topic", A: int64(r.IntN(3))})
				default:
					c.Program = append(c.Program, simrt.Op{Actor: a, Kind: "sleep", A: pk3[int64](r, 1, 20, 300, 1500)})
				}
			}
		}
		c.Program = append(c.Program, simrt.Op{Actor: 100, Kind: "check-topics"})
		faults("etcd.watch.close", "etcd.slow")
		if r.IntN(4) == 0 {
			// a store's watcher or updater goroutine gets its lock late
			for k := 0; k < 1+r.IntN(2); k++ {
				c.Faults = append(c.Faults, simrt.Fault{Kind: "sched.stall", Op: "sched.lock", Key: "EtcdStore", Nth: r.IntN(60), Count: 1, Arg: int64(10+r.IntN(3000)) * 1e6})
			}
		}
	default: // C18
		for a := 0; a < nn; a++ {
			for i := 0; i < nops; i++ {
				switch x := r.IntN(14); {
				case x < 5:
					c.Program = append(c.Program, simrt.Op{Actor: a, Kind: "acquire-p", A: int64(r.IntN(2)), B: int64(r.IntN(2))})
				case x < 7:
					c.Program = append(c.Program, simrt.Op{Actor: a, Kind: "release-p", A: int64(r.IntN(2)), B: int64(r.IntN(2))})
				case x < 8:
					c.Program = append(c.Program, simrt.Op{Actor: a, Kind: "acquire-all", A: int64(r.IntN(2)), B: int64(r.IntN(2))})
				case x < 9:
					c.Program = append(c.Program, simrt.Op{Actor: a, Kind: pk3(r, "acquire-g", "release-g"), A: int64(r.IntN(2))})
				case x < 10:
					c.Program = append(c.Program, simrt.Op{Actor: a, Kind: pk3(r, "restart", "release-all"), C: int64(r.IntN(400))})
				case x < 11:
					c.Program = append(c.Program, simrt.Op{Actor: a, Kind: "expire-now"})
				default:
					c.Program = append(c.Program, simrt.Op{Actor: a, Kind: "sleep", A: pk3[int64](r, 1, 30, 800, 2500, 12000)})
				}
			}
		}
		if r.IntN(5) == 0 {
			// a broker comes back under its own id while the key of its previous life still exists, takes
			// the lease over again, and lives on for longer than the old session's TTL; others keep asking
			p, q := int64(r.IntN(2)), int64(r.IntN(2))
			ttl := cfg["lease_ttl_s"] * 1000
			if r.IntN(2) == 0 {
				// one of the returning broker's etcd round trips takes longer than what is left of the old lease
				c.Faults = append(c.Faults, simrt.Fault{Kind: "etcd.slow", Op: "etcd.", Key: "@n0", Nth: 2 + r.IntN(14), Count: 1, Arg: (ttl/2 + int64(r.IntN(int(ttl)+1000))) * 1e6})
			}
			c.Program = append(c.Program, simrt.Op{Actor: 0, Kind: "acquire-p", A: p, B: q}, simrt.Op{Actor: 0, Kind: "restart", C: int64(r.IntN(300))}, simrt.Op{Actor: 0, Kind: "acquire-p", A: p, B: q})
			c.Program = append(c.Program, simrt.Op{Actor: 0, Kind: "sleep", A: ttl + 1500}, simrt.Op{Actor: 0, Kind: "acquire-p", A: p, B: q}, simrt.Op{Actor: 0, Kind: "sleep", A: 2000})
			for i := 0; i < 6; i++ {
				c.Program = append(c.Program, simrt.Op{Actor: 1, Kind: "sleep", A: ttl/3 + int64(r.IntN(500))}, simrt.Op{Actor: 1, Kind: "acquire-p", A: p, B: q})
			}
		}
		if r.IntN(5) == 0 {
			// the server ends a broker's session while the broker keeps acquiring other partitions: the
			// acquisitions race with the broker's own notice that its session is gone
			p, q := int64(r.IntN(2)), int64(r.IntN(2))
			ttl := cfg["lease_ttl_s"] * 1000
			// ... and the goroutine that takes that notice may itself be slow to get scheduled
			c.Faults = append(c.Faults, simrt.Fault{Kind: "sched.stall", Op: "sched.lock", Key: "monitorSession", Nth: r.IntN(2), Count: 1 + r.IntN(2), Arg: int64(50+r.IntN(3000)) * 1e6})
			c.Program = append(c.Program, simrt.Op{Actor: 0, Kind: "acquire-p", A: p, B: q}, simrt.Op{Actor: 0, Kind: "expire-now"})
			for i := 0; i < 30; i++ {
				c.Program = append(c.Program, simrt.Op{Actor: 0, Kind: "sleep", A: int64(20 + r.IntN(int(ttl/15)+1))}, simrt.Op{Actor: 0, Kind: "acquire-p", A: 1 - p, B: int64(i % 2)})
			}
			for i := 0; i < 8; i++ {
				c.Program = append(c.Program, simrt.Op{Actor: 1, Kind: "sleep", A: ttl/4 + int64(r.IntN(300))}, simrt.Op{Actor: 1, Kind: "acquire-p", A: p, B: q})
			}
		}
		if r.IntN(6) == 0 {
			// a broker shuts down (gives all its leases back) while another one is waiting for one of them; the
			// goroutine doing the shutdown gets its locks late
			p, q := int64(r.IntN(2)), int64(r.IntN(2))
			c.Faults = append(c.Faults, simrt.Fault{Kind: "sched.stall", Op: "sched.lock", Key: "ReleaseAll", Nth: r.IntN(4), Count: 1 + r.IntN(2), Arg: int64(50+r.IntN(3000)) * 1e6})
			c.Program = append(c.Program, simrt.Op{Actor: 0, Kind: "acquire-p", A: p, B: q}, simrt.Op{Actor: 0, Kind: "sleep", A: int64(200 + r.IntN(800))}, simrt.Op{Actor: 0, Kind: "release-all"}, simrt.Op{Actor: 0, Kind: "sleep", A: 4000})
			for i := 0; i < 40; i++ {
				c.Program = append(c.Program, simrt.Op{Actor: 1, Kind: "sleep", A: int64(20 + r.IntN(100))}, simrt.Op{Actor: 1, Kind: "acquire-p", A: p, B: q})
			}
		}
		faults("etcd.unavail", "etcd.timeout_applied", "etcd.drop_keepalive.unavail", "etcd.partition.unavail", "etcd.slow")
		if r.IntN(4) == 0 {
			// any goroutine of the lease managers may get its lock late
			for k := 0; k < 1+r.IntN(2); k++ {
				c.Faults = append(c.Faults, simrt.Fault{Kind: "sched.stall", Op: "sched.lock", Key: "LeaseManager", Nth: r.IntN(60), Count: 1, Arg: int64(10+r.IntN(4000)) * 1e6})
			}
		}
	}
	return c
}
