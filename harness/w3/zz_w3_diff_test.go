package metadata

import (
	"context"
	"errors"
	"fmt"
	"math/rand/v2"
	"sort"
	"strings"

	metadatapb "github.com/KafScale/platform/pkg/gen/metadata"

	"verif/sim/simrt"
)

// ---------------------------------------------------------------- C17
//
// C17: "For any sequence of store operations (topic create/delete, partition
// growth, offset updates, consumer offsets and groups), the in-memory store and
// the etcd-backed store return the same observable results. Committed values
// and groups read back identically from both."

type storeOp struct {
	kind         string
	topic, group string
	part, count  int32
	val          int64
	meta         string
}

func (o storeOp) String() string {
	return fmt.Sprintf("%s(topic=%q group=%q part=%d count=%d val=%d)", o.kind, o.topic, o.group, o.part, o.count, o.val)
}

func errClass(err error) string {
	switch {
	case err == nil:
		return "ok"
	case errors.Is(err, ErrUnknownTopic):
		return "unknown-topic"
	case errors.Is(err, ErrTopicExists):
		return "topic-exists"
	case errors.Is(err, ErrInvalidTopic):
		return "invalid-topic"
	}
	return "other:" + err.Error()
}

func isEtcdFailure(err error) bool {
	if err == nil {
		return false
	}
	c := errClass(err)
	return strings.HasPrefix(c, "other:") && (strings.Contains(c, "etcdserver") || strings.Contains(c, "deadline") || strings.Contains(c, "canceled") || strings.Contains(c, "no leader"))
}

// applyOp runs op against a store and renders everything it returned.
func applyOp(ctx context.Context, s Store, o storeOp) (string, error) {
	switch o.kind {
	case "CreateTopic":
		t, err := s.CreateTopic(ctx, TopicSpec{Name: o.topic, NumPartitions: o.count, ReplicationFactor: 1})
		if err != nil {
			return "", err
		}
		return fmt.Sprintf("%s/%d/%x", *t.Topic, len(t.Partitions), t.TopicID), nil
	case "DeleteTopic":
		return "", s.DeleteTopic(ctx, o.topic)
	case "CreatePartitions":
		return "", s.CreatePartitions(ctx, o.topic, o.count)
	case "UpdateOffsets":
		return "", s.UpdateOffsets(ctx, o.topic, o.part, o.val)
	case "NextOffset":
		v, err := s.NextOffset(ctx, o.topic, o.part)
		return fmt.Sprint(v), err
	case "CommitConsumerOffset":
		return "", s.CommitConsumerOffset(ctx, o.group, o.topic, o.part, o.val, o.meta)
	case "FetchConsumerOffset":
		v, m, err := s.FetchConsumerOffset(ctx, o.group, o.topic, o.part)
		return fmt.Sprintf("%d %q", v, m), err
	case "PutConsumerGroup":
		g := &metadatapb.ConsumerGroup{GroupId: o.group, State: "stable", GenerationId: int32(o.val), Leader: "m1", ProtocolType: "consumer", Protocol: "range",
			RebalanceTimeoutMs: int32(1000 * (1 + o.val%7)),
			Members: map[string]*metadatapb.GroupMember{"m1": {ClientId: "cl-" + o.meta, ClientHost: "10.0.0.1", HeartbeatAt: "2026-01-01T00:00:0" + fmt.Sprint(o.val%10) + "Z", SessionTimeoutMs: int32(500 * (1 + o.val%9)),
				Subscriptions: []string{o.topic}, Assignments: []*metadatapb.Assignment{{Topic: o.topic, Partitions: []int32{o.part}}}}}}
		return "", s.PutConsumerGroup(ctx, g)
	case "FetchConsumerGroup":
		g, err := s.FetchConsumerGroup(ctx, o.group)
		return renderGroup(g), err
	case "DeleteConsumerGroup":
		return "", s.DeleteConsumerGroup(ctx, o.group)
	case "FetchTopicConfig":
		c, err := s.FetchTopicConfig(ctx, o.topic)
		return renderConfig(c), err
	case "UpdateTopicConfig":
		// Partitions is left unset ("use the topic's actual count"), as the admin API path does
		// (it edits a fetched configuration); a caller-invented count is not a meaningful input
		return "", s.UpdateTopicConfig(ctx, &metadatapb.TopicConfig{Name: o.topic, ReplicationFactor: 1, RetentionMs: o.val})
	case "Metadata":
		var names []string
		if o.topic != "" {
			names = []string{o.topic}
		}
		m, err := s.Metadata(ctx, names)
		if err != nil {
			return "", err
		}
		return renderTopics(m), nil
	}
	return "", fmt.Errorf("unknown op")
}

func renderGroup(g *metadatapb.ConsumerGroup) string {
	if g == nil {
		return "<nil>"
	}
	var ms []string
	for id, m := range g.Members {
		ms = append(ms, fmt.Sprintf("%s:%v:%v:client=%s@%s:hb=%s:session=%d", id, m.Subscriptions, m.Assignments, m.ClientId, m.ClientHost, m.HeartbeatAt, m.SessionTimeoutMs))
	}
	sort.Strings(ms)
	return fmt.Sprintf("%s gen=%d state=%s leader=%s type=%s/%s rebalance=%d members=%v", g.GroupId, g.GenerationId, g.State, g.Leader, g.ProtocolType, g.Protocol, g.RebalanceTimeoutMs, ms)
}

func renderConfig(c *metadatapb.TopicConfig) string {
	if c == nil {
		return "<nil>"
	}
	return fmt.Sprintf("%s parts=%d rf=%d retention=%d", c.Name, c.Partitions, c.ReplicationFactor, c.RetentionMs)
}

func renderTopics(m *ClusterMetadata) string {
	var ts []string
	for _, t := range m.Topics {
		ts = append(ts, fmt.Sprintf("%s/%d/err%d", *t.Topic, len(t.Partitions), t.ErrorCode))
	}
	sort.Strings(ts)
	return strings.Join(ts, ",")
}

// observe renders the whole observable state of a store through its API.
func observe(ctx context.Context, s Store, topics, groups []string) string {
	return observeM(ctx, s, topics, groups, false)
}

// observeM with maskSlash leaves groups whose id contains "/" out of the two
// listing results (an open known finding: the etcd store cannot list them).
func observeM(ctx context.Context, s Store, topics, groups []string, maskSlash bool) string {
	var out []string
	m, err := s.Metadata(ctx, nil)
	if err != nil {
		return "metadata-error:" + errClass(err)
	}
	out = append(out, "topics="+renderTopics(m))
	for _, t := range topics {
		for p := int32(0); p < 4; p++ {
			v, err := s.NextOffset(ctx, t, p)
			out = append(out, fmt.Sprintf("next(%s,%d)=%d/%s", t, p, v, errClass(err)))
			for _, g := range groups {
				o, md, err := s.FetchConsumerOffset(ctx, g, t, p)
				if o != 0 || md != "" || err != nil {
					out = append(out, fmt.Sprintf("co(%s,%s,%d)=%d %q %s", g, t, p, o, md, errClass(err)))
				}
			}
		}
		c, err := s.FetchTopicConfig(ctx, t)
		out = append(out, fmt.Sprintf("cfg(%s)=%s/%s", t, renderConfig(c), errClass(err)))
	}
	offs, err := s.ListConsumerOffsets(ctx)
	var os []string
	for _, o := range offs {
		if maskSlash && strings.Contains(o.Group, "/") {
			continue
		}
		os = append(os, fmt.Sprintf("%s|%s|%d=%d", o.Group, o.Topic, o.Partition, o.Offset))
	}
	sort.Strings(os)
	out = append(out, fmt.Sprintf("listoffsets=%v/%s", os, errClass(err)))
	gs, err := s.ListConsumerGroups(ctx)
	var gl []string
	for _, g := range gs {
		if maskSlash && strings.Contains(g.GroupId, "/") {
			continue
		}
		gl = append(gl, renderGroup(g))
	}
	sort.Strings(gl)
	out = append(out, fmt.Sprintf("groups=%v/%s", gl, errClass(err)))
	return strings.Join(out, "\n")
}

func (w *w3) differential(op simrt.Op) {
	r := rand.New(rand.NewPCG(uint64(op.A), 99))
	n := w.nodes[0]
	topics := []string{"orders", "pay", "a.b", "ghost", "orders-v2", "orders.x"} // two of them extend another's name
	if r.IntN(2) == 0 {
		topics = []string{"orders", "orders-v2", "orders.x"} // only the name family: prefix handling
	}
	groups := []string{"g1", "g/x", "g:y"}
	if r.IntN(3) == 0 {
		groups = []string{"g/x", "g//x", "g/./x"} // distinct ids that a path-cleaning key builder would merge
	}
	kinds := []string{"CreateTopic", "CreateTopic", "DeleteTopic", "CreatePartitions", "UpdateOffsets", "UpdateOffsets", "NextOffset", "CommitConsumerOffset", "CommitConsumerOffset",
		"FetchConsumerOffset", "PutConsumerGroup", "FetchConsumerGroup", "DeleteConsumerGroup", "FetchTopicConfig", "UpdateTopicConfig", "Metadata"}
	var history []storeOp
	mem := NewInMemoryStore(baseMeta())
	ctx := n.ctx
	etcdStore := n.store
	faultsSeen := false
	for i := int64(0); i < op.B && !w.sim.Failed(); i++ {
		o := storeOp{kind: kinds[r.IntN(len(kinds))], topic: topics[r.IntN(len(topics))], group: groups[r.IntN(len(groups))], part: []int32{0, 1, 2, 0, 1, 2, 0, 1, 2, -1, 6}[r.IntN(11)], count: int32(1 + r.IntN(4)), val: int64(r.IntN(50)), meta: fmt.Sprintf("m%d", i)}
		if o.kind == "Metadata" && r.IntN(2) == 0 {
			o.topic = ""
		}
		w.sim.Probe("c17.op")
		var er string
		var eerr error
		w.run(n, "storeop", func() { er, eerr = applyOp(ctx, etcdStore, o) })
		if isEtcdFailure(eerr) {
			// the etcd call failed: the operation may or may not have taken effect; both outcomes
			// are acceptable, anything else is not
			faultsSeen = true
			w.sim.Probe("c17.etcd-failure")
			if o.kind == "CreateTopic" || o.kind == "CreatePartitions" || o.kind == "DeleteTopic" {
				// a failed snapshot update leaves the broker's cached copy and etcd apart until the
				// watcher or the next update reconciles them: neither "applied" nor "not applied"
				// describes the store from here on, so the comparison ends for this run
				w.sim.Probe("c17.ambiguous-stop")
				return
			}
			var es string
			w.run(n, "observe", func() { es = observeM(ctx, etcdStore, topics, groups, true) })
			if strings.Contains(es, "other:") {
				w.sim.Probe("c17.ambiguous-stop")
				return // etcd still failing: whether the operation took effect cannot be observed; stop comparing
				// still failing: state unknown, keep the model as it is and go on
			}
			pre := NewInMemoryStore(baseMeta())
			for _, h := range history {
				_, _ = applyOp(context.Background(), pre, h)
			}
			if observeM(context.Background(), pre, topics, groups, true) == es {
				// looks "not applied" - unless the effect is simply not observable right now (an offset
				// written for a topic that does not exist yet shows only once the topic is created)
				post := NewInMemoryStore(baseMeta())
				for _, h := range history {
					_, _ = applyOp(context.Background(), post, h)
				}
				_, _ = applyOp(context.Background(), post, o)
				// (also: an offset for a partition the topic does not have yet, a group whose id the
				// listings hide.) Whenever "applied" and "not applied" read back the same, the failed
				// call's effect cannot be decided now and may surface later: the comparison ends.
				if isMutation(o.kind) && observeM(context.Background(), post, topics, groups, true) == es {
					w.sim.Probe("c17.ambiguous-stop")
					return
				}
				mem = pre
				continue
			}
			_, _ = applyOp(context.Background(), pre, o)
			if observeM(context.Background(), pre, topics, groups, true) == es {
				mem = pre
				history = append(history, o)
				continue
			}
			if faultsSeen {
				// a partially applied multi-key operation is a state neither model explains
				w.sim.FailSoft("C17", "state-after-failure-unexplained", "after %s failed with %v the etcd store matches neither 'not applied' nor 'applied'", o, eerr)
				return
			}
			continue
		}
		mr, merr := applyOp(context.Background(), mem, o)
		history = append(history, o)
		if errClass(eerr) != errClass(merr) || er != mr {
			w.sim.Fail("C17", "results-differ", "op %d %s: in-memory store returned (%q, %s), etcd store returned (%q, %s)", i, o, mr, errClass(merr), er, errClass(eerr))
			return
		}
		var es string
		w.run(n, "observe", func() { es = observe(ctx, etcdStore, topics, groups) })
		if strings.Contains(es, "other:") {
			continue
		}
		if ms := observe(context.Background(), mem, topics, groups); ms != es {
			var esm string
			w.run(n, "observe", func() { esm = observeM(ctx, etcdStore, topics, groups, true) })
			if observeM(context.Background(), mem, topics, groups, true) == esm {
				w.sim.FailSoft("C17", "etcd-listing-drops-slash-group", "after op %d %s: ListConsumerOffsets / ListConsumerGroups of the etcd store omit a group whose id contains '/':\n%s", i, o, firstDiff(ms, es))
				continue
			}
			w.sim.Fail("C17", "state-differs", "after op %d %s the stores read back differently:\n%s", i, o, firstDiff(ms, es))
			return
		}
	}
}

func isMutation(kind string) bool {
	switch kind {
	case "NextOffset", "FetchConsumerOffset", "FetchConsumerGroup", "FetchTopicConfig", "Metadata":
		return false
	}
	return true
}

func topicInModel(s *InMemoryStore, topic string) bool {
	m, err := s.Metadata(context.Background(), []string{topic})
	if err != nil || m == nil {
		return false
	}
	for _, t := range m.Topics {
		if t.Topic != nil && *t.Topic == topic && t.ErrorCode == 0 {
			return true
		}
	}
	return false
}

func firstDiff(a, b string) string {
	al, bl := strings.Split(a, "\n"), strings.Split(b, "\n")
	for i := 0; i < len(al) || i < len(bl); i++ {
		x, y := "", ""
		if i < len(al) {
			x = al[i]
		}
		if i < len(bl) {
			y = bl[i]
		}
		if x != y {
			return fmt.Sprintf("in-memory: %s\netcd:      %s", x, y)
		}
	}
	return "(no difference?)"
}
