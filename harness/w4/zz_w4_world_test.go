package main

// W4: the real proxy (handleConnection, produce/fetch routing with retry and
// merge, metadata/coordinator/not-ready replies, metadata cache, real
// PartitionRouter on the simulated etcd) between simulated client
// connections and scripted fake Kafka brokers.
//
// C27: "For a produce or fetch sent through the proxy, the reply has exactly one
// entry for each requested topic-partition. A partition is reported successful
// only if a broker reported success for it. The proxy resends a produce
// partition to another broker only when the first broker rejected it as not the
// leader, so it never writes a record twice."
//
// C28: "A metadata, coordinator or not-ready reply from the proxy names only the
// proxy as broker, partition leader and coordinator. It keeps the set of topics,
// partitions, topic IDs, error codes and leader epochs from the cluster metadata."

import (
	"context"
	"encoding/binary"
	"errors"
	"fmt"
	"io"
	"log/slog"
	"math/rand/v2"
	"net"
	"sort"
	"strings"
	"testing"
	"time"

	"github.com/KafScale/platform/pkg/metadata"
	"github.com/KafScale/platform/pkg/protocol"
	"github.com/twmb/franz-go/pkg/kmsg"
	clientv3 "go.etcd.io/etcd/client/v3"

	"verif/sim/driver"
	"verif/sim/kafsim"
	"verif/sim/kbatch"
	"verif/sim/kclient"
	"verif/sim/simetcd"
	"verif/sim/simnet"
	"verif/sim/simrt"
	"verif/sim/sims3"
)

func TestSim(t *testing.T) { driver.Main(t, w4World) }

var w4World = driver.World{
	Name: "w4-proxy",
	Gen:  w4Gen,
	Run:  w4Run,
	Real: []string{"cmd/proxy: handleConnection, handleProduceRouting/forwardProduce/fanOutProduce, handleFetchRouting/forwardFetch/fanOutFetch, connPool, connectBackendExcluding, handleMetadata/loadMetadata/buildProxyMetadataResponse, handleFindCoordinator, buildNotReadyResponse, metadata cache refresh", "pkg/metadata PartitionRouter (load + watch) and InMemoryStore", "pkg/protocol framing and codecs", "etcd clientv3 front half",
		"LFS (C30-C32): cmd/proxy lfsModule rewriteProduceRequest/rewriteProduceRecords, lfs record/batch encoders, s3Uploader (Upload, UploadStream, multipart session calls), handleHTTPProduce, handleHTTPUploadInit/Session/Part/Complete/Abort, handleHTTPDownload/streamDownloadWithVerify; pkg/lfs Resolver, Consumer, envelope and checksum code; franz-go compression codecs"},
	Stub: []string{"Kafka brokers behind the proxy (scripted: success, NOT_LEADER, per-partition errors, close before/after accepting, stall, garbage / short / extra / duplicated / truncated replies)", "TCP (simnet: dial refusal, resets, fragmentation)", "etcd server (SimEtcd)", "metadata store latency/errors (SimStore decorator over the real InMemoryStore)", "scheduler, clock",
		"LFS: S3 behind the AWS SDK interface (SimS3: puts, multipart sessions with S3's completion rules, bodies that are short/corrupt/over-long/failing), net/http server (handlers are called directly with httptest recorders and fault-injecting request bodies), pkg/lfs S3Client (replaced by an S3Reader over SimS3), the LFS ops tracker (disabled)"},
}

const (
	w4Host = "proxy.sim"
	w4Port = int32(19092)
)

type w4accept struct {
	broker int
	corr   int32
	step   int
}

type w4returned struct {
	broker    int
	code      int16
	base      int64
	delivered bool // the reply frame that carries this entry was put on the wire intact
}

type w4fetchRet struct {
	broker    int
	code      int16
	hw        int64
	data      string
	delivered bool
}

type w4snap struct {
	from int // step at which the call that produced this state began (it took effect somewhere in from..step)
	step int // step at which the state was read back
	meta *metadata.ClusterMetadata
}

type w4broker struct {
	idx  int
	addr string
	up   bool
	next map[string]int64
	conn int
}

type w4 struct {
	sim      *simrt.Sim
	c        *simrt.Case
	prop     string
	inner    *metadata.InMemoryStore
	store    *kafsim.Store
	etcd     *simetcd.Server
	cli      *clientv3.Client
	p        *proxy
	ctx      context.Context
	cancel   context.CancelFunc
	brokers  []*w4broker
	truth    map[string]int // "topic/part" -> owning broker index
	topics   []string
	nparts   int32
	accepted map[string][]w4accept
	returned map[string][]*w4returned
	fetched  map[string][]*w4fetchRet // "corr/topic/part"
	snaps    []w4snap
	mutating int // harness calls changing the cluster metadata whose new state is not recorded yet
	booted   *simrt.Future
	done     *simrt.Future
	left     int
	fetchSeq int

	// W5 (LFS)
	s3              *sims3.Store
	s3api           *w5s3
	lfs             *lfsModule
	recv            map[string][][]byte      // "corr/topic/part" -> record sets brokers accepted
	envAcks         map[string][]*w4returned // object key found in a produced envelope -> broker answers
	lfsReqs         []*w4req
	rewriteClause   string
	envKeys         map[string]bool
	undecodable     int
	undecodableNote string
}

func w4quiet() *slog.Logger { return slog.New(slog.NewTextHandler(io.Discard, nil)) }

func (w *w4) cfg(n string, d int64) int64 { return w.c.Cfg(n, d) }

func w4Run(t *testing.T, c *simrt.Case, prop string, keepTrace bool) simrt.Result {
	w := &w4{c: c, prop: prop, truth: map[string]int{}, accepted: map[string][]w4accept{}, returned: map[string][]*w4returned{}, fetched: map[string][]*w4fetchRet{},
		recv: map[string][][]byte{}, envAcks: map[string][]*w4returned{}, envKeys: map[string]bool{}}
	res := simrt.Run(t, c, keepTrace, func(s *simrt.Sim) {
		w.sim = s
		w.setup()
	}, func(s *simrt.Sim) { w.finish() })
	simetcd.Install(nil)
	simrt.SetNetHooks(nil)
	if res.Violation != nil && res.Violation.Property != prop {
		res.Stats.Probes["foreign:"+res.Violation.Property+"/"+res.Violation.Clause]++
		res.Violation = nil
	}
	return res
}

func tpKey(topic string, part int32) string { return fmt.Sprintf("%s/%d", topic, part) }

func timeMs(ms int64) time.Duration { return time.Duration(ms) * time.Millisecond }

func (w *w4) snapshot() { w.snapshotFrom(w.sim.Step()) }

func (w *w4) snapshotFrom(from int) {
	m, err := w.inner.Metadata(context.Background(), nil)
	if err != nil {
		w.sim.Fail("HARNESS", "setup", "snapshot: %v", err)
		return
	}
	w.snaps = append(w.snaps, w4snap{from: from, step: w.sim.Step(), meta: m})
}

func (w *w4) setup() {
	s := w.sim
	nb := int(w.cfg("brokers", 2))
	nt := int(w.cfg("topics", 2))
	w.nparts = int32(w.cfg("partitions", 2))
	meta := metadata.ClusterMetadata{ControllerID: 1, ClusterID: kmsg.StringPtr("sim-cluster")}
	for i := 0; i < nb; i++ {
		b := &w4broker{idx: i, addr: fmt.Sprintf("broker-b%d:9092", i), up: true, next: map[string]int64{}}
		w.brokers = append(w.brokers, b)
		meta.Brokers = append(meta.Brokers, protocol.MetadataBroker{NodeID: int32(i), Host: fmt.Sprintf("broker-b%d", i), Port: 9092})
	}
	seedR := rand.New(rand.NewPCG(uint64(w.cfg("meta_seed", 1)), 77))
	for t := 0; t < nt; t++ {
		name := fmt.Sprintf("t%d", t)
		w.topics = append(w.topics, name)
		mt := protocol.MetadataTopic{Topic: kmsg.StringPtr(name), TopicID: metadata.TopicIDForName(name)}
		for p := int32(0); p < w.nparts; p++ {
			lead := int32(seedR.IntN(nb))
			mp := protocol.MetadataPartition{Partition: p, Leader: lead, LeaderEpoch: int32(seedR.IntN(9)), Replicas: []int32{lead}, ISR: []int32{lead}}
			if seedR.IntN(6) == 0 {
				mp.ErrorCode = 5 // LEADER_NOT_AVAILABLE
			}
			if nb > 1 && seedR.IntN(5) == 0 {
				// a degraded partition: a second replica that is out of sync and offline
				other := (lead + 1) % int32(nb)
				mp.Replicas = []int32{lead, other}
				mp.OfflineReplicas = []int32{other}
			}
			mt.Partitions = append(mt.Partitions, mp)
			w.truth[tpKey(name, p)] = seedR.IntN(nb)
		}
		meta.Topics = append(meta.Topics, mt)
	}
	w.inner = metadata.NewInMemoryStore(meta)
	w.store = kafsim.NewStore(w.inner, w.cfg("store_lat_us", 300))
	w.snapshot()
	w.etcd = simetcd.NewServer(s, w.cfg("etcd_lat_us", 300))
	simetcd.Install(w.etcd)
	w.etcd.StartExpirer()
	simrt.SetNetHooks(&simrt.NetHooks{
		Listen: func(network, address string) (net.Listener, error) { return nil, errors.New("w4: no listeners") },
		Dial:   w.dial,
	})
	w.ctx, w.cancel = context.WithCancel(context.Background())
	s.OnStop(func() {
		w.cancel()
		if w.p != nil && w.p.router != nil {
			w.p.router.Stop()
		}
	})
	w.booted = s.NewFuture("")
	w.done = s.NewFuture("")
	if w.cfg("lfs", 0) == 1 {
		w.setupLFS()
	}
	// initial routing table, written before the proxy's router loads it
	s.SetupNode = "env"
	w.cli = w.etcd.Client("env")
	mode := w.cfg("route_mode", 0)
	for _, name := range w.topics {
		for p := int32(0); p < w.nparts; p++ {
			owner := ""
			switch mode {
			case 0: // correct
				owner = fmt.Sprint(w.truth[tpKey(name, p)])
			case 1: // empty
			default: // drawn per partition: correct / stale / unknown broker id / none
				switch seedR.IntN(4) {
				case 0:
					owner = fmt.Sprint(w.truth[tpKey(name, p)])
				case 1:
					owner = fmt.Sprint((w.truth[tpKey(name, p)] + 1) % nb)
				case 2:
					owner = "9"
				}
			}
			if owner != "" {
				if _, err := w.cli.Put(context.Background(), fmt.Sprintf("%s/%s/%d", metadata.PartitionLeasePrefix(), name, p), owner); err != nil {
					s.Fail("HARNESS", "setup", "route put: %v", err)
				}
			}
		}
	}
	s.Spawn("proxy/boot", "proxy", false, func() {
		if d := w.cfg("boot_delay_ms", 0); d > 0 {
			simrt.Sleep(time.Duration(d) * time.Millisecond)
		}
		p := &proxy{
			addr:           ":9092",
			advertisedHost: w4Host,
			advertisedPort: w4Port,
			store:          w.store,
			logger:         w4quiet(),
			dialTimeout:    5 * time.Second,
			cacheTTL:       time.Duration(w.cfg("cache_ttl_s", 60)) * time.Second,
			apiVersions:    generateProxyApiVersions(),
			brokerAddrs:    make(map[string]string),
			topicNames:     make(map[[16]byte]string),
			backendRetries: int(w.cfg("backend_retries", 2)),
			backendBackoff: time.Duration(w.cfg("backoff_ms", 100)) * time.Millisecond,
		}
		if w.cfg("static_backends", 0) == 1 {
			for _, b := range w.brokers {
				p.backends = append(p.backends, b.addr)
			}
			p.setCachedBackends(p.backends)
			p.touchHealthy()
			p.setReady(true)
		}
		if w.cfg("router", 1) == 1 {
			simetcd.NextClientName = "proxy"
			cli := w.etcd.Client("proxy")
			simetcd.NextClientName = ""
			router, err := metadata.NewPartitionRouter(w.ctx, cli, w4quiet())
			if err == nil {
				p.router = router
			} else {
				s.Probe("w4.router-init-failed")
			}
		}
		p.lfs = w.lfs
		w.p = p
		// clients that do not wait for the boot see the proxy before its cache is warm
		w.booted.Set(true)
		p.initMetadataCache(w.ctx)
		s.Probe("w4.booted")
	})
	actors := map[int][]simrt.Op{}
	var ids []int
	for _, op := range w.c.Program {
		if _, ok := actors[op.Actor]; !ok {
			ids = append(ids, op.Actor)
		}
		actors[op.Actor] = append(actors[op.Actor], op)
	}
	sort.Ints(ids)
	for _, id := range ids {
		if id < 100 {
			w.left++
		}
	}
	if w.left == 0 {
		w.done.Set(true)
	}
	for _, id := range ids {
		id, ops := id, actors[id]
		s.Spawn(fmt.Sprintf("actor%03d", id), "", true, func() {
			w.booted.Wait(nil, "boot")
			if id < 100 {
				w.client(id, ops)
				w.left--
				if w.left == 0 {
					w.done.Set(true)
				}
				return
			}
			for _, op := range ops {
				if s.Failed() {
					return
				}
				w.envOp(op)
			}
		})
	}
}

// ---------------------------------------------------------------- environment

func (w *w4) envOp(op simrt.Op) {
	nb := len(w.brokers)
	switch op.Kind {
	case "sleep":
		simrt.Sleep(time.Duration(op.A) * time.Millisecond)
	case "move":
		// ownership of one partition moves; the routing table follows after C ms
		name := w.topics[int(op.A)%len(w.topics)]
		part := int32(op.B) % w.nparts
		to := int(op.D) % nb
		w.truth[tpKey(name, part)] = to
		w.sim.Probe("w4.move")
		if op.C >= 0 {
			simrt.Sleep(time.Duration(op.C) * time.Millisecond)
			_, _ = w.cli.Put(context.Background(), fmt.Sprintf("%s/%s/%d", metadata.PartitionLeasePrefix(), name, part), fmt.Sprint(to))
		}
	case "unroute":
		name := w.topics[int(op.A)%len(w.topics)]
		_, _ = w.cli.Delete(context.Background(), fmt.Sprintf("%s/%s/%d", metadata.PartitionLeasePrefix(), name, int32(op.B)%w.nparts))
	case "misroute":
		name := w.topics[int(op.A)%len(w.topics)]
		_, _ = w.cli.Put(context.Background(), fmt.Sprintf("%s/%s/%d", metadata.PartitionLeasePrefix(), name, int32(op.B)%w.nparts), fmt.Sprint(op.D))
	case "broker-down":
		w.brokers[int(op.A)%nb].up = false
	case "broker-up":
		w.brokers[int(op.A)%nb].up = true
	case "create-topic":
		name := fmt.Sprintf("n%d", op.A%4)
		from := w.sim.Step()
		w.mutating++
		defer func() { w.mutating-- }()
		if _, err := w.inner.CreateTopic(context.Background(), metadata.TopicSpec{Name: name, NumPartitions: int32(1 + op.B%3), ReplicationFactor: 1}); err == nil {
			w.snapshotFrom(from)
			w.sim.Probe("w4.topic-created")
		}
	case "delete-topic":
		name := fmt.Sprintf("n%d", op.A%4)
		if op.B == 1 {
			// one of the topics the proxy has known (and cached the id of) since it started
			name = w.topics[int(op.A)%len(w.topics)]
		}
		from := w.sim.Step()
		w.mutating++
		defer func() { w.mutating-- }()
		if err := w.inner.DeleteTopic(context.Background(), name); err == nil {
			w.snapshotFrom(from)
			w.sim.Probe("w4.topic-deleted")
		}
	}
}

// ---------------------------------------------------------------- network + fake brokers

func (w *w4) dial(ctx context.Context, network, address string) (net.Conn, error) {
	out := simrt.IO(ctx, "net.dial", address, 300*time.Microsecond, nil)
	if out.Fault != "" && !strings.HasSuffix(out.Fault, "slow") {
		w.sim.Probe("w4.dial-refused")
		return nil, fmt.Errorf("dial tcp %s: connection refused (injected)", address)
	}
	if ctx != nil && ctx.Err() != nil {
		return nil, ctx.Err()
	}
	for _, b := range w.brokers {
		if b.addr == address {
			if !b.up {
				w.sim.Probe("w4.dial-broker-down")
				return nil, fmt.Errorf("dial tcp %s: connection refused", address)
			}
			b.conn++
			bb := b
			c := simnet.NewServerConn(fmt.Sprintf("%s#%d", address, b.conn), address, func(c *simnet.ServerConn, frame []byte) simnet.Reply { return w.serve(bb, frame) })
			c.MaxFrag = int(w.cfg("max_frag", 0))
			return c, nil
		}
	}
	w.sim.Probe("w4.dial-unknown-address")
	return nil, fmt.Errorf("dial tcp: lookup %s: no such host", address)
}

var errorCodesForParts = []int16{protocol.REQUEST_TIMED_OUT, protocol.UNKNOWN_TOPIC_OR_PARTITION, protocol.CORRUPT_MESSAGE, protocol.UNKNOWN_SERVER_ERROR}

func markerOf(records []byte) string {
	i := strings.Index(string(records), "mk-")
	if i < 0 {
		return ""
	}
	j := i + 3
	for j < len(records) && (records[j] == '-' || (records[j] >= '0' && records[j] <= '9')) {
		j++
	}
	return string(records[i:j])
}

// serve is one fake broker handling one request frame.
func (w *w4) serve(b *w4broker, frame []byte) simnet.Reply {
	if !b.up {
		return simnet.Reply{Close: true}
	}
	req, corr, _, err := kclient.DecodeRequest(frame)
	if err != nil {
		w.sim.Probe("w4.broker-undecodable-request")
		w.sim.Note(fmt.Sprintf("broker %d: undecodable request: %v", b.idx, err))
		w.undecodable++
		w.undecodableNote = fmt.Sprintf("broker b%d got a %d-byte frame: %v", b.idx, len(frame), err)
		return simnet.Reply{Close: true}
	}
	kind := "broker.other"
	switch req.(type) {
	case *kmsg.ProduceRequest:
		kind = "broker.produce"
	case *kmsg.FetchRequest:
		kind = "broker.fetch"
	}
	fault, arg := w.sim.PeekFault(kind, b.addr)
	if fault != "" {
		w.sim.Probe("w4.fault:" + fault)
	}
	if fault == "broker.close_before" {
		return simnet.Reply{Close: true}
	}
	strict := w.cfg("strict_owner", 1) == 1
	var reply kmsg.Response
	var entries []*w4returned
	var fentries []*w4fetchRet
	switch q := req.(type) {
	case *kmsg.ProduceRequest:
		resp := kmsg.NewPtrProduceResponse()
		n := 0
		for _, t := range q.Topics {
			rt := kmsg.NewProduceResponseTopic()
			rt.Topic = t.Topic
			for _, pt := range t.Partitions {
				rp := kmsg.NewProduceResponseTopicPartition()
				rp.Partition = pt.Partition
				rp.BaseOffset = -1
				mk := markerOf(pt.Records)
				key := tpKey(t.Topic, pt.Partition)
				owner, known := w.truth[key]
				switch {
				case !known:
					rp.ErrorCode = protocol.UNKNOWN_TOPIC_OR_PARTITION
				case (strict && owner != b.idx) || (fault == "broker.not_leader" && (arg == 0 || arg&(1<<uint(n%60)) != 0)):
					rp.ErrorCode = protocol.NOT_LEADER_OR_FOLLOWER
				case fault == "broker.part_error" && (arg&(1<<uint(n%60)) != 0):
					rp.ErrorCode = errorCodesForParts[int(arg>>8)%len(errorCodesForParts)]
				default:
					rp.BaseOffset = b.next[key]
					b.next[key] += 1
					w.accepted[mk] = append(w.accepted[mk], w4accept{broker: b.idx, corr: corr, step: w.sim.Step()})
					w.sim.Probe("w4.produce-accepted")
					if w.lfs != nil {
						rk := fmt.Sprintf("%d/%s", corr, key)
						w.recv[rk] = append(w.recv[rk], append([]byte(nil), pt.Records...))
					}
				}
				if w.lfs != nil && q.Acks != 0 {
					// an envelope produced by the HTTP API: remember what this broker answered for its object
					if ek := envelopeKeyIn(pt.Records); ek != "" {
						e := &w4returned{broker: b.idx, code: rp.ErrorCode, base: rp.BaseOffset}
						entries = append(entries, e)
						w.envAcks[ek] = append(w.envAcks[ek], e)
					}
				}
				if mk != "" && q.Acks != 0 {
					e := &w4returned{broker: b.idx, code: rp.ErrorCode, base: rp.BaseOffset}
					entries = append(entries, e)
					w.returned[mk] = append(w.returned[mk], e)
				}
				rt.Partitions = append(rt.Partitions, rp)
				n++
			}
			resp.Topics = append(resp.Topics, rt)
		}
		if q.Acks == 0 {
			return simnet.Reply{}
		}
		switch fault {
		case "broker.reply_short":
			if k := len(resp.Topics); k > 0 && len(resp.Topics[k-1].Partitions) > 0 {
				resp.Topics[k-1].Partitions = resp.Topics[k-1].Partitions[:len(resp.Topics[k-1].Partitions)-1]
				if len(entries) > 0 {
					entries = entries[:len(entries)-1]
				}
			}
		case "broker.reply_extra":
			if k := len(resp.Topics); k > 0 {
				rp := kmsg.NewProduceResponseTopicPartition()
				rp.Partition = 90 + int32(arg%5)
				rp.BaseOffset = 4242
				resp.Topics[k-1].Partitions = append(resp.Topics[k-1].Partitions, rp)
			}
		case "broker.reply_dup":
			if k := len(resp.Topics); k > 0 && len(resp.Topics[0].Partitions) > 0 {
				resp.Topics[0].Partitions = append(resp.Topics[0].Partitions, resp.Topics[0].Partitions[0])
			}
		}
		reply = resp
	case *kmsg.FetchRequest:
		resp := kmsg.NewPtrFetchResponse()
		resp.SessionID = q.SessionID
		n := 0
		for _, t := range q.Topics {
			rt := kmsg.NewFetchResponseTopic()
			rt.Topic = t.Topic
			rt.TopicID = t.TopicID
			name := t.Topic
			if name == "" {
				for _, cand := range w.allTopicNames() {
					if metadata.TopicIDForName(cand) == t.TopicID {
						name = cand
					}
				}
			}
			for _, pt := range t.Partitions {
				rp := kmsg.NewFetchResponseTopicPartition()
				rp.Partition = pt.Partition
				key := tpKey(name, pt.Partition)
				owner, known := w.truth[key]
				e := &w4fetchRet{broker: b.idx}
				switch {
				case !known:
					rp.ErrorCode = protocol.UNKNOWN_TOPIC_OR_PARTITION
				case (strict && owner != b.idx) || (fault == "broker.not_leader" && (arg == 0 || arg&(1<<uint(n%60)) != 0)):
					rp.ErrorCode = protocol.NOT_LEADER_OR_FOLLOWER
				case fault == "broker.part_error" && (arg&(1<<uint(n%60)) != 0):
					rp.ErrorCode = errorCodesForParts[int(arg>>8)%len(errorCodesForParts)]
				default:
					w.fetchSeq++
					rp.HighWatermark = int64(1000 + w.fetchSeq)
					rp.LastStableOffset = rp.HighWatermark
					e.data = fmt.Sprintf("fx-%d-%d", b.idx, w.fetchSeq)
					rp.RecordBatches = kbatch.Build(1, []kbatch.Record{{Value: []byte(e.data)}})
				}
				e.code, e.hw = rp.ErrorCode, rp.HighWatermark
				fentries = append(fentries, e)
				fk := fmt.Sprintf("%d/%s", corr, key)
				w.fetched[fk] = append(w.fetched[fk], e)
				rt.Partitions = append(rt.Partitions, rp)
				n++
			}
			resp.Topics = append(resp.Topics, rt)
		}
		switch fault {
		case "broker.reply_short":
			if k := len(resp.Topics); k > 0 && len(resp.Topics[k-1].Partitions) > 0 {
				resp.Topics[k-1].Partitions = resp.Topics[k-1].Partitions[:len(resp.Topics[k-1].Partitions)-1]
				if len(fentries) > 0 {
					fentries = fentries[:len(fentries)-1]
				}
			}
		case "broker.reply_extra":
			if k := len(resp.Topics); k > 0 {
				rp := kmsg.NewFetchResponseTopicPartition()
				rp.Partition = 90 + int32(arg%5)
				rp.HighWatermark = 4242
				resp.Topics[k-1].Partitions = append(resp.Topics[k-1].Partitions, rp)
			}
		case "broker.reply_dup":
			if k := len(resp.Topics); k > 0 && len(resp.Topics[0].Partitions) > 0 {
				resp.Topics[0].Partitions = append(resp.Topics[0].Partitions, resp.Topics[0].Partitions[0])
			}
		}
		reply = resp
	default:
		// anything else the proxy forwards gets an empty, well-formed reply
		reply = req.ResponseKind()
	}
	wire := kclient.EncodeResponse(req, corr, reply)
	switch fault {
	case "broker.close_after":
		return simnet.Reply{Close: true}
	case "broker.stall":
		return simnet.Reply{Stall: 40 * time.Second}
	case "broker.reply_garbage":
		g := make([]byte, 4+int(arg%40))
		for i := range g[4:] {
			g[4+i] = byte(arg>>uint(i%50)) ^ byte(i*37)
		}
		binary.BigEndian.PutUint32(g[:4], uint32(len(g)-4))
		return simnet.Reply{Data: g}
	case "broker.reply_truncated":
		cut := 4 + int(arg)%(len(wire)-3)
		if cut >= len(wire) {
			cut = len(wire) - 1
		}
		return simnet.Reply{Data: wire[:cut], Close: true}
	}
	for _, e := range entries {
		e.delivered = true
	}
	for _, e := range fentries {
		e.delivered = true
	}
	return simnet.Reply{Data: wire}
}

func (w *w4) allTopicNames() []string {
	out := append([]string(nil), w.topics...)
	for i := 0; i < 4; i++ {
		out = append(out, fmt.Sprintf("n%d", i))
	}
	return out
}
