package main

// C11, proxy half: "For every API key and version in the broker's (and proxy's)
// ApiVersions response, a request at that version gets a reply. A standard Kafka
// client codec decodes that reply at the same version, and it carries the
// request's correlation id and the correct header shape. No request version,
// advertised or not, yields a reply that the codec cannot decode at that version."
//
// Every run sweeps all (key, version) pairs the proxy advertises, plus a sample
// of versions outside the advertised range, over one connection per key, while
// other clients produce and fetch through the same proxy. The fake brokers answer
// forwarded requests with well-formed replies of the same key and version, so an
// undecodable reply is the proxy's own: its ApiVersions / Metadata /
// FindCoordinator answers, its merged produce and fetch replies, the replies it
// builds itself when a backend fails or it is not ready.

import (
	"encoding/binary"
	"fmt"
	"math/rand/v2"
	"sort"

	"github.com/twmb/franz-go/pkg/kmsg"

	"github.com/KafScale/platform/pkg/metadata"

	"verif/sim/kbatch"
	"verif/sim/kclient"
	"verif/sim/simnet"
	"verif/sim/simrt"
)

func w4GenVersions(r *rand.Rand) *simrt.Case {
	c := &simrt.Case{Config: map[string]int64{}}
	cfg := c.Config
	cfg["brokers"] = int64(2 + r.IntN(2))
	cfg["topics"] = int64(1 + r.IntN(3))
	cfg["partitions"] = int64(1 + r.IntN(3))
	cfg["meta_seed"] = int64(r.Uint32())
	cfg["route_mode"] = pickI(r, 0, 0, 1, 2, 2)
	cfg["strict_owner"] = 1
	cfg["static_backends"] = pickI(r, 0, 0, 1)
	cfg["router"] = pickI(r, 1, 1, 1, 0)
	cfg["backend_retries"] = pickI(r, 1, 2, 3)
	cfg["backoff_ms"] = pickI(r, 10, 100)
	cfg["max_frag"] = pickI(r, 0, 0, 1, 7, 64)
	cfg["store_lat_us"] = pickI(r, 100, 300)
	cfg["etcd_lat_us"] = pickI(r, 100, 400)
	cfg["max_steps"] = 60000
	cfg["max_virtual_s"] = 1200
	c.Program = append(c.Program, simrt.Op{Actor: 0, Kind: "version-sweep", B: int64(r.Uint32()), D: pickI(r, 0, 0, 1, 5, 100)})
	for cl := 1; cl < 1+r.IntN(3); cl++ {
		for i := 0; i < 1+r.IntN(4); i++ {
			if r.IntN(2) == 0 {
				c.Program = append(c.Program, simrt.Op{Actor: cl, Kind: "produce", A: pickI(r, 3, 5, 7, 8, 9), B: int64(r.Uint32()), D: pickI(r, 1, -1)})
			} else {
				c.Program = append(c.Program, simrt.Op{Actor: cl, Kind: "fetch", A: pickI(r, 11, 12, 13), B: int64(r.Uint32())})
			}
		}
		c.Program = append(c.Program, simrt.Op{Actor: cl, Kind: "conn", D: pickI(r, 0, 0, 5), A: pickI(r, 0, 0, 50)})
	}
	if r.IntN(4) == 0 {
		// a cold start: the sweep begins before the proxy has its first view of the cluster
		cfg["cold"] = 1
		cfg["static_backends"] = 0
		cfg["store_lat_us"] = pickI(r, 300, 5000, 50000)
	}
	if r.IntN(3) == 0 {
		// a troubled run: replies the proxy has to build itself
		cfg["troubled"] = 1
		for i := 0; i < 1+r.IntN(3); i++ {
			switch r.IntN(5) {
			case 0:
				c.Program = append(c.Program, simrt.Op{Actor: 100, Kind: "broker-down", A: int64(r.IntN(3))})
			case 1:
				c.Faults = append(c.Faults, simrt.Fault{Kind: pick2(r, "broker.close_before", "broker.close_after", "broker.not_leader", "broker.part_error", "broker.reply_short"), Op: "broker.", Nth: r.IntN(30), Count: 1 + r.IntN(4), Arg: int64(r.Uint32())})
			case 2:
				c.Faults = append(c.Faults, simrt.Fault{Kind: "net.dial_refused", Op: "net.dial", Nth: r.IntN(10), Count: 1 + r.IntN(6)})
			case 3:
				c.Faults = append(c.Faults, simrt.Fault{Kind: "store.err", Op: "store.Metadata", Nth: r.IntN(6), Count: 1 + r.IntN(5)})
			default:
				c.Program = append(c.Program, simrt.Op{Actor: 100, Kind: "unroute", A: int64(r.IntN(3)), B: int64(r.IntN(3))})
			}
		}
	}
	return c
}

// fillSweepRequest gives a request of any advertised key a plausible body.
func (w *w4) fillSweepRequest(req kmsg.Request, variant int64) {
	topic := w.topics[int(variant)%len(w.topics)]
	group := fmt.Sprintf("g%d", variant%2)
	switch r := req.(type) {
	case *kmsg.ProduceRequest:
		r.Acks, r.TimeoutMillis = 1, 1000
		rt := kmsg.NewProduceRequestTopic()
		rt.Topic = topic
		rp := kmsg.NewProduceRequestTopicPartition()
		rp.Records = kbatch.Build(1000, []kbatch.Record{{Key: []byte("k"), Value: []byte(fmt.Sprintf("sweep-%d", variant))}})
		rt.Partitions = append(rt.Partitions, rp)
		r.Topics = append(r.Topics, rt)
	case *kmsg.FetchRequest:
		r.ReplicaID, r.MaxBytes, r.MaxWaitMillis, r.MinBytes = -1, 1<<20, 100, 1
		rt := kmsg.NewFetchRequestTopic()
		rt.Topic = topic
		rt.TopicID = metadata.TopicIDForName(topic)
		rp := kmsg.NewFetchRequestTopicPartition()
		rp.PartitionMaxBytes, rp.CurrentLeaderEpoch = 1<<20, -1
		rt.Partitions = append(rt.Partitions, rp)
		r.Topics = append(r.Topics, rt)
	case *kmsg.MetadataRequest:
		switch {
		case variant%3 == 0:
			mt := kmsg.NewMetadataRequestTopic()
			mt.Topic = kmsg.StringPtr(topic)
			r.Topics = append(r.Topics, mt)
		case variant%3 == 1 && r.Version >= 10:
			mt := kmsg.NewMetadataRequestTopic()
			mt.TopicID = metadata.TopicIDForName(topic)
			r.Topics = append(r.Topics, mt)
		case r.Version >= 1:
			r.Topics = nil
		}
	case *kmsg.ListOffsetsRequest:
		r.ReplicaID = -1
		rt := kmsg.NewListOffsetsRequestTopic()
		rt.Topic = topic
		rp := kmsg.NewListOffsetsRequestTopicPartition()
		rp.Timestamp, rp.MaxNumOffsets = -1-variant%2, 1
		rt.Partitions = append(rt.Partitions, rp)
		r.Topics = append(r.Topics, rt)
	case *kmsg.FindCoordinatorRequest:
		r.CoordinatorKey = group
		if r.Version >= 4 {
			r.CoordinatorKeys = []string{group}
		}
	case *kmsg.JoinGroupRequest:
		r.Group, r.SessionTimeoutMillis, r.RebalanceTimeoutMillis, r.ProtocolType = group, 10000, 500, "consumer"
		pr := kmsg.NewJoinGroupRequestProtocol()
		pr.Name = "range"
		r.Protocols = append(r.Protocols, pr)
	case *kmsg.SyncGroupRequest:
		r.Group, r.MemberID = group, "m"
	case *kmsg.HeartbeatRequest:
		r.Group, r.MemberID = group, "m"
	case *kmsg.LeaveGroupRequest:
		r.Group, r.MemberID = group, "m"
		m := kmsg.NewLeaveGroupRequestMember()
		m.MemberID = "m"
		r.Members = append(r.Members, m)
	case *kmsg.OffsetCommitRequest:
		r.Group, r.Generation = group, -1
		ct := kmsg.NewOffsetCommitRequestTopic()
		ct.Topic = topic
		cp := kmsg.NewOffsetCommitRequestTopicPartition()
		cp.Offset = 5
		ct.Partitions = append(ct.Partitions, cp)
		r.Topics = append(r.Topics, ct)
	case *kmsg.OffsetFetchRequest:
		r.Group = group
		ft := kmsg.NewOffsetFetchRequestTopic()
		ft.Topic, ft.Partitions = topic, []int32{0}
		r.Topics = append(r.Topics, ft)
	case *kmsg.DescribeGroupsRequest:
		r.Groups = []string{group}
	case *kmsg.OffsetForLeaderEpochRequest:
		r.ReplicaID = -1
		rt := kmsg.NewOffsetForLeaderEpochRequestTopic()
		rt.Topic = topic
		rp := kmsg.NewOffsetForLeaderEpochRequestTopicPartition()
		rp.CurrentLeaderEpoch = -1
		rt.Partitions = append(rt.Partitions, rp)
		r.Topics = append(r.Topics, rt)
	case *kmsg.DescribeConfigsRequest:
		res := kmsg.NewDescribeConfigsRequestResource()
		res.ResourceType, res.ResourceName = kmsg.ConfigResourceTypeTopic, topic
		r.Resources = append(r.Resources, res)
	case *kmsg.AlterConfigsRequest:
		res := kmsg.NewAlterConfigsRequestResource()
		res.ResourceType, res.ResourceName = kmsg.ConfigResourceTypeTopic, topic
		cf := kmsg.NewAlterConfigsRequestResourceConfig()
		cf.Name, cf.Value = "retention.ms", kmsg.StringPtr("60000")
		res.Configs = append(res.Configs, cf)
		r.Resources = append(r.Resources, res)
	case *kmsg.CreatePartitionsRequest:
		r.TimeoutMillis = 1000
		cp := kmsg.NewCreatePartitionsRequestTopic()
		cp.Topic, cp.Count = topic, 3
		r.Topics = append(r.Topics, cp)
	case *kmsg.CreateTopicsRequest:
		r.TimeoutMillis = 1000
		ct := kmsg.NewCreateTopicsRequestTopic()
		ct.Topic, ct.NumPartitions, ct.ReplicationFactor = fmt.Sprintf("sweep%d", variant%3), 1, 1
		r.Topics = append(r.Topics, ct)
	case *kmsg.DeleteTopicsRequest:
		r.TimeoutMillis = 1000
		r.TopicNames = []string{fmt.Sprintf("sweep%d", variant%3)}
	case *kmsg.DeleteGroupsRequest:
		r.Groups = []string{group}
	}
}

func (w *w4) faultsFiredTotal() int {
	n := 0
	for _, v := range w.sim.Stats.FaultsFired {
		n += v
	}
	return n
}

// w4OwnErrorReply: keys on the proxy's group-routing and plain-forwarding paths for which it can build an error
// reply of its own (ListOffsets, OffsetCommit, OffsetFetch, JoinGroup, Heartbeat, LeaveGroup, SyncGroup,
// DescribeGroups, ListGroups, OffsetForLeaderEpoch).
var w4OwnErrorReply = map[int16]bool{2: true, 8: true, 9: true, 11: true, 12: true, 13: true, 14: true, 15: true, 16: true, 23: true}

// sweepClient sends, key by key, a request at every advertised version (and a few outside the range).
func (w *w4) sweepClient(id int, op simrt.Op) {
	troubled := w.cfg("troubled", 0) == 1
	cold := w.cfg("cold", 0) == 1
	if !troubled && !cold {
		for i := 0; i < 100 && !w.p.isReady(); i++ {
			simrt.Sleep(timeMs(100))
		}
	}
	adv := append([]kmsg.ApiVersionsResponseApiKey(nil), w.p.apiVersions...)
	sort.Slice(adv, func(i, j int) bool {
		// a cold sweep asks for ApiVersions first, as a client does, while the proxy may not be ready yet
		if cold && (adv[i].ApiKey == 18) != (adv[j].ApiKey == 18) {
			return adv[i].ApiKey == 18
		}
		return adv[i].ApiKey < adv[j].ApiKey
	})
	if cold && !w.p.isReady() {
		w.sim.Probe("c11.proxy-cold-sweep")
	}
	seq := 0
	for _, k := range adv {
		if k.MinVersion < 0 || k.MaxVersion < k.MinVersion {
			continue // listed as unsupported
		}
		probe := kmsg.RequestForKey(k.ApiKey)
		if probe == nil {
			w.sim.Fail("C11", "advertised-unknown-key", "the proxy's ApiVersions advertises key %d which the codec does not know", k.ApiKey)
			return
		}
		var versions []int16
		for v := k.MinVersion; v <= k.MaxVersion; v++ {
			versions = append(versions, v)
		}
		for _, v := range []int16{k.MinVersion - 1, k.MaxVersion + 1, k.MaxVersion + 5} {
			if v >= 0 && v <= probe.MaxVersion() {
				versions = append(versions, v)
			}
		}
		type sent struct {
			req        kmsg.Request
			corr       int32
			advertised bool
		}
		var reqs []sent
		var stream []byte
		for _, v := range versions {
			seq++
			req := kmsg.RequestForKey(k.ApiKey)
			req.SetVersion(v)
			w.fillSweepRequest(req, op.B+int64(seq))
			if av, ok := req.(*kmsg.ApiVersionsRequest); ok {
				av.ClientSoftwareName, av.ClientSoftwareVersion = "sim", "1"
			}
			s := sent{req: req, corr: int32(id*100000 + seq), advertised: v >= k.MinVersion && v <= k.MaxVersion}
			payload := kclient.EncodeRequest(req, s.corr, kmsg.StringPtr("sweep"))
			stream = binary.BigEndian.AppendUint32(stream, uint32(len(payload)))
			stream = append(stream, payload...)
			reqs = append(reqs, s)
			w.sim.Probe("c11.proxy-pair")
		}
		before := w.faultsFiredTotal()
		conn := simnet.NewScriptConn(fmt.Sprintf("sweep%02d-k%d", id, k.ApiKey), stream)
		conn.MaxFrag = int(op.D)
		w.p.handleConnection(w.ctx, conn)
		if simrt.Dying() {
			return
		}
		clean := !troubled && !cold && w.faultsFiredTotal() == before
		if k.ApiKey == 18 {
			// the proxy answers ApiVersions from its own table: no backend state, readiness or injected
			// backend fault can excuse silence
			clean = true
		}
		replies := map[int32][]byte{}
		out := conn.Out
		for off := 0; off+4 <= len(out); {
			n := int(binary.BigEndian.Uint32(out[off : off+4]))
			if n < 4 || off+4+n > len(out) {
				w.sim.Fail("C11", "proxy-reply-framing", "%s: the proxy wrote a truncated or oversized frame at byte %d of its replies (declared %d, %d left)", kmsg.NameForKey(k.ApiKey), off, n, len(out)-off-4)
				return
			}
			corr := int32(binary.BigEndian.Uint32(out[off+4 : off+8]))
			if _, dup := replies[corr]; dup {
				w.sim.Fail("C11", "proxy-reply-twice", "%s: two replies carry correlation id %d", kmsg.NameForKey(k.ApiKey), corr)
				return
			}
			replies[corr] = out[off+4 : off+4+n]
			off += 4 + n
		}
		matched := 0
		for i, s := range reqs {
			data, ok := replies[s.corr]
			if !ok {
				// Requests the proxy routes to a backend (group APIs, and what it forwards as is) are answered by the
				// proxy itself with an error reply of the request's version when the backend cannot be reached or the
				// proxy is not ready - after which it closes the connection. So the FIRST request of a connection has
				// no excuse for going unanswered if it is of such a key (later ones may have met a closed connection).
				if i == 0 && s.advertised && w4OwnErrorReply[k.ApiKey] {
					w.sim.Fail("C11", "proxy-silent-after-backend-failure", "%s v%d is advertised by the proxy; the backend could not serve it (faults fired: %v, proxy ready=%v) and the proxy closed the connection without the error reply it builds for this key", kmsg.NameForKey(k.ApiKey), s.req.GetVersion(), w.sim.Stats.FaultsFired, w.p.isReady())
					return
				}
				if s.advertised && clean {
					w.sim.Fail("C11", "proxy-no-reply", "%s v%d is advertised by the proxy but got no reply (proxy ready=%v; nothing injected that could excuse it)", kmsg.NameForKey(k.ApiKey), s.req.GetVersion(), w.p.isReady())
					return
				}
				w.sim.Probe("c11.proxy-no-reply-tolerated")
				continue
			}
			matched++
			resp, _, err := kclient.DecodeResponse(s.req, data)
			if err != nil {
				w.sim.Fail("C11", "proxy-reply-undecodable", "the proxy's reply to %s v%d (advertised=%v) does not decode with a standard client codec: %v", kmsg.NameForKey(k.ApiKey), s.req.GetVersion(), s.advertised, err)
				return
			}
			w.sim.Probe("c11.proxy-reply-decoded")
			if avr, isAV := resp.(*kmsg.ApiVersionsResponse); isAV && s.advertised {
				if avr.ErrorCode != 0 || len(avr.ApiKeys) != len(w.p.apiVersions) {
					w.sim.Fail("C11", "proxy-apiversions-reply-differs", "ApiVersions v%d decodes to error code %d and %d api keys; the proxy advertises %d", s.req.GetVersion(), avr.ErrorCode, len(avr.ApiKeys), len(w.p.apiVersions))
					return
				}
			}
		}
		if matched != len(replies) {
			w.sim.Fail("C11", "proxy-reply-for-nothing", "%s: %d replies, only %d carry a correlation id that was sent on this connection", kmsg.NameForKey(k.ApiKey), len(replies), matched)
			return
		}
	}
	w.sim.Probe("c11.proxy-sweep-done")
}
