package main

import (
	"bytes"
	"encoding/binary"
	"fmt"
	"math/rand/v2"
	"sort"

	"github.com/KafScale/platform/pkg/metadata"
	"github.com/twmb/franz-go/pkg/kmsg"

	"verif/sim/kbatch"
	"verif/sim/kclient"
	"verif/sim/simnet"
	"verif/sim/simrt"
)

// ---------------------------------------------------------------- generator

func pickI(r *rand.Rand, xs ...int64) int64 { return xs[r.IntN(len(xs))] }

func w4Gen(r *rand.Rand, prop, tier string) *simrt.Case {
	switch prop {
	case "C30", "C31", "C32":
		return w5Gen(r, prop, tier)
	case "C11":
		return w4GenVersions(r)
	}
	c := &simrt.Case{Config: map[string]int64{}}
	cfg := c.Config
	cfg["brokers"] = int64(2 + r.IntN(2))
	cfg["topics"] = int64(1 + r.IntN(3))
	cfg["partitions"] = int64(1 + r.IntN(4))
	cfg["meta_seed"] = int64(r.Uint32())
	cfg["route_mode"] = pickI(r, 0, 0, 1, 2, 2)
	cfg["strict_owner"] = pickI(r, 1, 1, 0)
	cfg["static_backends"] = pickI(r, 0, 0, 1)
	cfg["router"] = pickI(r, 1, 1, 1, 0)
	cfg["backend_retries"] = pickI(r, 1, 2, 3)
	cfg["backoff_ms"] = pickI(r, 10, 100, 500)
	cfg["max_frag"] = pickI(r, 0, 0, 1, 7, 64)
	cfg["store_lat_us"] = pickI(r, 100, 300, 5000)
	cfg["etcd_lat_us"] = pickI(r, 100, 400, 3000)
	cfg["max_steps"] = 20000
	cfg["max_virtual_s"] = 1200
	nclients := 1 + r.IntN(3)
	metaHeavy := prop == "C28"
	if metaHeavy {
		cfg["boot_delay_ms"] = pickI(r, 0, 0, 5, 2000)
		cfg["cache_ttl_s"] = pickI(r, 1, 60)
	}
	for cl := 0; cl < nclients; cl++ {
		n := 1 + r.IntN(5)
		for i := 0; i < n; i++ {
			x := r.IntN(10)
			var op simrt.Op
			switch {
			case metaHeavy && x < 6:
				op = simrt.Op{Actor: cl, Kind: "metadata", A: int64(r.IntN(13)), B: int64(r.Uint32()), C: int64(r.IntN(4))}
			case metaHeavy && x < 8:
				op = simrt.Op{Actor: cl, Kind: "findcoord"}
			case x < 5:
				op = simrt.Op{Actor: cl, Kind: "produce", A: pickI(r, 3, 5, 7, 8, 9), B: int64(r.Uint32()), D: pickI(r, 1, -1, -1, 0)}
			case x < 8:
				op = simrt.Op{Actor: cl, Kind: "fetch", A: pickI(r, 11, 12, 13), B: int64(r.Uint32())}
			case x < 9:
				op = simrt.Op{Actor: cl, Kind: "metadata", A: int64(r.IntN(13)), B: int64(r.Uint32()), C: int64(r.IntN(4))}
			default:
				op = simrt.Op{Actor: cl, Kind: "findcoord"}
			}
			c.Program = append(c.Program, op)
		}
		// connection shape: fragment size, whether the client waits for the proxy's cache
		c.Program = append(c.Program, simrt.Op{Actor: cl, Kind: "conn", D: pickI(r, 0, 0, 1, 5, 100), A: pickI(r, 0, 0, 50, 3000, 15000)})
	}
	// environment
	for i := 0; i < r.IntN(4); i++ {
		var op simrt.Op
		k := r.IntN(8)
		if metaHeavy && r.IntN(2) == 0 {
			k = 6 + r.IntN(2) // topics come and go while metadata is being asked for
		}
		switch k {
		case 0, 1:
			op = simrt.Op{Kind: "move", A: int64(r.IntN(3)), B: int64(r.IntN(4)), D: int64(r.IntN(3)), C: pickI(r, 0, 5, 300, -1)}
		case 2:
			op = simrt.Op{Kind: "unroute", A: int64(r.IntN(3)), B: int64(r.IntN(4))}
		case 3:
			op = simrt.Op{Kind: "misroute", A: int64(r.IntN(3)), B: int64(r.IntN(4)), D: pickI(r, 0, 1, 2, 9)}
		case 4:
			op = simrt.Op{Kind: "broker-down", A: int64(r.IntN(3))}
		case 5:
			op = simrt.Op{Kind: "broker-up", A: int64(r.IntN(3))}
		case 6:
			op = simrt.Op{Kind: "create-topic", A: int64(r.IntN(4)), B: int64(r.IntN(3))}
		default:
			op = simrt.Op{Kind: "delete-topic", A: int64(r.IntN(4)), B: int64(r.IntN(2))}
		}
		op.Actor = 100 + i%2
		if r.IntN(2) == 0 {
			c.Program = append(c.Program, simrt.Op{Actor: op.Actor, Kind: "sleep", A: pickI(r, 1, 10, 200, 4000)})
		}
		c.Program = append(c.Program, op)
	}
	// faults
	kinds := []string{"broker.not_leader", "broker.part_error", "broker.close_before", "broker.close_after", "broker.stall", "broker.reply_garbage", "broker.reply_short", "broker.reply_extra", "broker.reply_dup", "broker.reply_truncated"}
	for i := 0; i < r.IntN(4); i++ {
		switch x := r.IntN(10); {
		case x < 6:
			k := kinds[r.IntN(len(kinds))]
			c.Faults = append(c.Faults, simrt.Fault{Kind: k, Op: pick2(r, "broker.produce", "broker.fetch", "broker."), Nth: r.IntN(4), Count: 1 + r.IntN(2), Arg: int64(r.Uint32())})
		case x < 7:
			c.Faults = append(c.Faults, simrt.Fault{Kind: "net.dial_refused", Op: "net.dial", Nth: r.IntN(4), Count: 1 + r.IntN(3)})
		case x < 8:
			c.Faults = append(c.Faults, simrt.Fault{Kind: "net.reset", Op: pick2(r, "net.read", "net.write"), Key: "broker-", Nth: r.IntN(6)})
		case x < 9:
			c.Faults = append(c.Faults, simrt.Fault{Kind: "store.err", Op: "store.Metadata", Nth: r.IntN(4), Count: 1 + r.IntN(3)})
		default:
			c.Faults = append(c.Faults, simrt.Fault{Kind: "etcd.unavail", Op: "etcd.", Nth: r.IntN(4), Count: 1 + r.IntN(2)})
		}
	}
	return c
}

func pick2(r *rand.Rand, xs ...string) string { return xs[r.IntN(len(xs))] }

// ---------------------------------------------------------------- client

type w4req struct {
	kind   string
	corr   int32
	req    kmsg.Request
	start  int // offset of the frame in the client's stream
	end    int
	acks   int16
	tps    []string            // requested topic-partitions in request order ("topic/part"; by-id requests use the resolved name)
	marker map[string]string   // produce: tp -> marker
	ids    map[string][16]byte // fetch v13: tp topic -> id

	lfsParts []w5sentPart // lfs-produce: what was sent, per partition
}

func (w *w4) existingTopics() []string {
	if len(w.snaps) == 0 {
		return nil
	}
	var out []string
	for _, t := range w.snaps[len(w.snaps)-1].meta.Topics {
		out = append(out, *t.Topic)
	}
	return out
}

func (w *w4) buildRequests(id int, ops []simrt.Op) ([]*w4req, []byte, simrt.Op) {
	var reqs []*w4req
	var stream []byte
	conn := simrt.Op{}
	seq := 0
	for _, op := range ops {
		if op.Kind == "conn" {
			conn = op
			continue
		}
		seq++
		rr := rand.New(rand.NewPCG(uint64(op.B), uint64(id*1000+seq)))
		q := &w4req{kind: op.Kind, corr: int32(id*10000 + seq), marker: map[string]string{}, ids: map[string][16]byte{}}
		// the topic-partitions of this request: 1..3 topics (one may not exist), distinct partitions
		type tsel struct {
			name  string
			parts []int32
		}
		var sel []tsel
		if op.Kind == "produce" || op.Kind == "fetch" {
			names := append([]string(nil), w.topics...)
			rr.Shuffle(len(names), func(i, j int) { names[i], names[j] = names[j], names[i] })
			nt := 1 + rr.IntN(len(names))
			for _, name := range names[:nt] {
				var parts []int32
				for p := int32(0); p < w.nparts; p++ {
					if rr.IntN(2) == 0 {
						parts = append(parts, p)
					}
				}
				if len(parts) == 0 {
					parts = []int32{int32(rr.IntN(int(w.nparts)))}
				}
				rr.Shuffle(len(parts), func(i, j int) { parts[i], parts[j] = parts[j], parts[i] })
				sel = append(sel, tsel{name, parts})
			}
			if rr.IntN(8) == 0 {
				sel = append(sel, tsel{"ghost", []int32{0}})
			}
		}
		switch op.Kind {
		case "produce":
			r := kmsg.NewPtrProduceRequest()
			r.Version = int16(op.A)
			r.Acks = int16(op.D)
			r.TimeoutMillis = 3000
			q.acks = r.Acks
			for _, ts := range sel {
				rt := kmsg.NewProduceRequestTopic()
				rt.Topic = ts.name
				for _, p := range ts.parts {
					rp := kmsg.NewProduceRequestTopicPartition()
					rp.Partition = p
					mk := fmt.Sprintf("mk-%d-%d-%d", id, seq, len(q.tps))
					rp.Records = kbatch.Build(1000, []kbatch.Record{{Key: []byte("k"), Value: []byte(mk)}})
					rt.Partitions = append(rt.Partitions, rp)
					q.tps = append(q.tps, tpKey(ts.name, p))
					q.marker[tpKey(ts.name, p)] = mk
				}
				r.Topics = append(r.Topics, rt)
			}
			q.req = r
		case "fetch":
			r := kmsg.NewPtrFetchRequest()
			r.Version = int16(op.A)
			r.ReplicaID = -1
			r.MaxWaitMillis = 100
			r.MinBytes = 1
			r.MaxBytes = 1 << 20
			for _, ts := range sel {
				rt := kmsg.NewFetchRequestTopic()
				rt.Topic = ts.name
				rt.TopicID = metadata.TopicIDForName(ts.name)
				q.ids[ts.name] = rt.TopicID
				for _, p := range ts.parts {
					rp := kmsg.NewFetchRequestTopicPartition()
					rp.Partition = p
					rp.FetchOffset = int64(rr.IntN(50))
					rp.PartitionMaxBytes = 1 << 20
					rp.CurrentLeaderEpoch = -1
					rt.Partitions = append(rt.Partitions, rp)
					q.tps = append(q.tps, tpKey(ts.name, p))
				}
				r.Topics = append(r.Topics, rt)
			}
			q.req = r
		case "metadata":
			r := kmsg.NewPtrMetadataRequest()
			r.Version = int16(op.A)
			r.AllowAutoTopicCreation = false
			mode := op.C
			if r.Version == 0 && mode == 0 {
				mode = 1 // v0 has no "all topics" null array; an empty array means all there
			}
			switch mode {
			case 0: // all topics
				r.Topics = nil
			default:
				cands := append(w.allTopicNames(), "ghost")
				rr.Shuffle(len(cands), func(i, j int) { cands[i], cands[j] = cands[j], cands[i] })
				n := 1 + rr.IntN(3)
				r.Topics = []kmsg.MetadataRequestTopic{}
				for _, name := range cands[:n] {
					rt := kmsg.NewMetadataRequestTopic()
					if mode == 2 && r.Version >= 10 {
						rt.TopicID = metadata.TopicIDForName(name)
						rt.Topic = nil
					} else {
						rt.Topic = kmsg.StringPtr(name)
					}
					r.Topics = append(r.Topics, rt)
					q.tps = append(q.tps, name)
				}
			}
			q.req = r
		case "findcoord":
			r := kmsg.NewPtrFindCoordinatorRequest()
			r.Version = 3
			r.CoordinatorKey = fmt.Sprintf("g%d", seq)
			q.req = r
		case "lfs-produce":
			w.buildLFSProduce(id, seq, op, rr, q)
			w.lfsReqs = append(w.lfsReqs, q)
		default:
			continue
		}
		payload := kclient.EncodeRequest(q.req, q.corr, kmsg.StringPtr(fmt.Sprintf("cl%d", id)))
		q.start = len(stream)
		stream = binary.BigEndian.AppendUint32(stream, uint32(len(payload)))
		stream = append(stream, payload...)
		q.end = len(stream)
		reqs = append(reqs, q)
	}
	return reqs, stream, conn
}

func stepAt(marks []simnet.Mark, off int, first bool) int {
	// the step of the Read/Write call that covered byte offset off
	best := -1
	for _, m := range marks {
		if m.Off <= off {
			best = m.Step
		} else {
			break
		}
	}
	return best
}

func (w *w4) client(id int, ops []simrt.Op) {
	for _, op := range ops {
		switch op.Kind {
		case "http-upload", "http-mp", "http-download", "resolve", "unwrap":
			w.httpClient(id, ops)
			return
		case "version-sweep":
			w.sweepClient(id, op)
			return
		}
	}
	reqs, stream, connOp := w.buildRequests(id, ops)
	if connOp.A > 0 {
		simrt.Sleep(timeMs(connOp.A))
	}
	conn := simnet.NewScriptConn(fmt.Sprintf("client%02d", id), stream)
	conn.MaxFrag = int(connOp.D)
	w.sim.Probe("w4.connection")
	w.p.handleConnection(w.ctx, conn)
	if simrt.Dying() {
		return
	}
	// split what the proxy wrote into frames
	type frame struct {
		off  int
		data []byte
	}
	var frames []frame
	out := conn.Out
	for off := 0; off+4 <= len(out); {
		n := int(binary.BigEndian.Uint32(out[off : off+4]))
		if n < 0 || off+4+n > len(out) {
			w.sim.Fail(w.prop, "reply-framing", "client %d: the proxy wrote a truncated or oversized frame at byte %d of its replies (declared %d, %d left)", id, off, n, len(out)-off-4)
			return
		}
		frames = append(frames, frame{off, out[off+4 : off+4+n]})
		off += 4 + n
	}
	byCorr := map[int32]*w4req{}
	for _, q := range reqs {
		byCorr[q.corr] = q
	}
	seen := map[int32]bool{}
	for _, f := range frames {
		if len(f.data) < 4 {
			w.sim.Fail(w.prop, "reply-framing", "client %d: reply frame shorter than a correlation id", id)
			return
		}
		corr := int32(binary.BigEndian.Uint32(f.data[:4]))
		q := byCorr[corr]
		if q == nil {
			w.sim.Fail(w.prop, "reply-for-nothing", "client %d: reply with correlation id %d that no request of this connection carried", id, corr)
			return
		}
		if seen[corr] {
			w.sim.Fail(w.prop, "reply-twice", "client %d: two replies for correlation id %d", id, corr)
			return
		}
		seen[corr] = true
		resp, _, err := kclient.DecodeResponse(q.req, f.data)
		if err != nil {
			w.sim.Fail(w.prop, "reply-undecodable", "client %d: the reply to %s v%d (corr %d) does not decode with a standard client codec: %v", id, q.kind, q.req.GetVersion(), corr, err)
			return
		}
		invoke := stepAt(conn.ReadMarks, q.start, true)
		ret := stepAt(conn.WriteMarks, f.off, false)
		switch q.kind {
		case "lfs-produce":
			w.sim.Probe("c31.produce-reply")
		case "produce":
			if q.acks == 0 {
				// (an error reply to an acks=0 produce, e.g. while not ready, is outside C27's statement)
				w.sim.Probe("c27.reply-to-acks-0")
			}
			w.judgeProduce(id, q, resp.(*kmsg.ProduceResponse))
		case "fetch":
			w.judgeFetch(id, q, resp.(*kmsg.FetchResponse))
		case "metadata":
			w.judgeMetadata(id, q, resp.(*kmsg.MetadataResponse), invoke, ret)
		case "findcoord":
			w.judgeCoordinator(id, q, resp.(*kmsg.FindCoordinatorResponse))
		}
		if w.sim.Failed() {
			return
		}
	}
}

// ---------------------------------------------------------------- C27 oracles

func (w *w4) judgeProduce(id int, q *w4req, resp *kmsg.ProduceResponse) {
	if w.prop != "C27" {
		return
	}
	w.sim.Probe("c27.produce-reply")
	got := map[string]int{}
	var order []string
	for _, t := range resp.Topics {
		for _, p := range t.Partitions {
			k := tpKey(t.Topic, p.Partition)
			if got[k] == 0 {
				order = append(order, k)
			}
			got[k]++
		}
	}
	want := map[string]bool{}
	for _, k := range q.tps {
		want[k] = true
	}
	for _, k := range q.tps {
		if got[k] == 0 {
			w.sim.Fail("C27", "produce-partition-missing", "client %d produce corr %d asked for %v; the reply has no entry for %s (reply entries: %v)", id, q.corr, q.tps, k, order)
			return
		}
		if got[k] > 1 {
			w.sim.Fail("C27", "produce-partition-duplicated", "client %d produce corr %d: the reply has %d entries for %s", id, q.corr, got[k], k)
			return
		}
	}
	for _, k := range order {
		if !want[k] {
			w.sim.Fail("C27", "produce-partition-extra", "client %d produce corr %d asked for %v; the reply has an entry for %s", id, q.corr, q.tps, k)
			return
		}
	}
	for _, t := range resp.Topics {
		for _, p := range t.Partitions {
			k := tpKey(t.Topic, p.Partition)
			if p.ErrorCode != 0 {
				w.sim.Probe("c27.produce-entry-error")
				continue
			}
			w.sim.Probe("c27.produce-entry-success")
			mk := q.marker[k]
			ok := false
			for _, r := range w.returned[mk] {
				if r.code == 0 && r.delivered && r.base == p.BaseOffset {
					ok = true
				}
			}
			if !ok {
				w.sim.Fail("C27", "produce-success-not-from-broker", "client %d produce corr %d: %s reported successful at base offset %d, but no broker returned that (%s)", id, q.corr, k, p.BaseOffset, w.returnedText(mk))
				return
			}
		}
	}
}

func (w *w4) returnedText(mk string) string {
	if len(w.returned[mk]) == 0 {
		return "no broker answered for this partition's records"
	}
	s := "brokers answered:"
	for _, r := range w.returned[mk] {
		s += fmt.Sprintf(" b%d code=%d base=%d delivered=%v;", r.broker, r.code, r.base, r.delivered)
	}
	return s
}

func (w *w4) judgeFetch(id int, q *w4req, resp *kmsg.FetchResponse) {
	if w.prop != "C27" {
		return
	}
	w.sim.Probe("c27.fetch-reply")
	byID := q.req.GetVersion() >= 13
	nameOf := func(t *kmsg.FetchResponseTopic) string {
		if !byID {
			return t.Topic
		}
		for name, tid := range q.ids {
			if tid == t.TopicID {
				return name
			}
		}
		return fmt.Sprintf("id:%x", t.TopicID)
	}
	got := map[string]int{}
	var order []string
	for i := range resp.Topics {
		t := &resp.Topics[i]
		for _, p := range t.Partitions {
			k := tpKey(nameOf(t), p.Partition)
			if got[k] == 0 {
				order = append(order, k)
			}
			got[k]++
		}
	}
	want := map[string]bool{}
	for _, k := range q.tps {
		want[k] = true
	}
	for _, k := range q.tps {
		if got[k] == 0 {
			w.sim.Fail("C27", "fetch-partition-missing", "client %d fetch v%d corr %d asked for %v; the reply has no entry for %s (reply entries: %v)", id, q.req.GetVersion(), q.corr, q.tps, k, order)
			return
		}
		if got[k] > 1 {
			w.sim.Fail("C27", "fetch-partition-duplicated", "client %d fetch v%d corr %d: the reply has %d entries for %s", id, q.req.GetVersion(), q.corr, got[k], k)
			return
		}
	}
	for _, k := range order {
		if !want[k] {
			w.sim.Fail("C27", "fetch-partition-extra", "client %d fetch v%d corr %d asked for %v; the reply has an entry for %s", id, q.req.GetVersion(), q.corr, q.tps, k)
			return
		}
	}
	for i := range resp.Topics {
		t := &resp.Topics[i]
		for _, p := range t.Partitions {
			if p.ErrorCode != 0 {
				continue
			}
			k := tpKey(nameOf(t), p.Partition)
			w.sim.Probe("c27.fetch-entry-success")
			ok := false
			for _, r := range w.fetched[fmt.Sprintf("%d/%s", q.corr, k)] {
				if r.code == 0 && r.delivered && r.hw == p.HighWatermark && bytes.Contains(p.RecordBatches, []byte(r.data)) {
					ok = true
				}
			}
			if !ok {
				w.sim.Fail("C27", "fetch-success-not-from-broker", "client %d fetch corr %d: %s reported successful (high watermark %d, %d bytes), but no broker returned that for this request", id, q.corr, k, p.HighWatermark, len(p.RecordBatches))
				return
			}
		}
	}
}

func (w *w4) finish() {
	if w.prop == "C31" {
		w.judgeRewrites()
		return
	}
	if w.prop != "C27" {
		return
	}
	var mks []string
	for mk := range w.accepted {
		mks = append(mks, mk)
	}
	sort.Strings(mks)
	for _, mk := range mks {
		acc := w.accepted[mk]
		if len(acc) > 1 {
			s := ""
			for _, a := range acc {
				s += fmt.Sprintf(" b%d@step%d", a.broker, a.step)
			}
			w.sim.Fail("C27", "record-written-twice", "the records of produce partition %s were appended %d times:%s", mk, len(acc), s)
			return
		}
	}
}

// ---------------------------------------------------------------- C28 oracles

func (w *w4) judgeCoordinator(id int, q *w4req, resp *kmsg.FindCoordinatorResponse) {
	if w.prop != "C28" {
		return
	}
	w.sim.Probe("c28.coordinator-reply")
	if resp.ErrorCode == 0 {
		if resp.NodeID != 0 || resp.Host != w4Host || resp.Port != w4Port {
			w.sim.Fail("C28", "coordinator-not-proxy", "FindCoordinator answered node %d %s:%d, not the proxy (0 %s:%d)", resp.NodeID, resp.Host, resp.Port, w4Host, w4Port)
		}
		return
	}
	w.sim.Probe("c28.not-ready-reply")
	if resp.Host != "" && (resp.Host != w4Host || resp.Port != w4Port) {
		w.sim.Fail("C28", "coordinator-not-proxy", "FindCoordinator error reply names %s:%d", resp.Host, resp.Port)
	}
}

func (w *w4) judgeMetadata(id int, q *w4req, resp *kmsg.MetadataResponse, invoke, ret int) {
	if w.prop != "C28" {
		return
	}
	w.sim.Probe("c28.metadata-reply")
	v := q.req.GetVersion()
	mreq := q.req.(*kmsg.MetadataRequest)
	for _, b := range resp.Brokers {
		if b.NodeID != 0 || b.Host != w4Host || b.Port != w4Port {
			w.sim.Fail("C28", "foreign-broker-listed", "metadata v%d reply lists broker %d %s:%d", v, b.NodeID, b.Host, b.Port)
			return
		}
	}
	if len(resp.Brokers) > 1 {
		w.sim.Fail("C28", "foreign-broker-listed", "metadata v%d reply lists the proxy %d times", v, len(resp.Brokers))
		return
	}
	notReady := len(resp.Brokers) == 0
	if v >= 1 {
		if (notReady && resp.ControllerID != -1) || (!notReady && resp.ControllerID != 0) {
			w.sim.Fail("C28", "controller-not-proxy", "metadata v%d reply (brokers=%d) names controller %d", v, len(resp.Brokers), resp.ControllerID)
			return
		}
	}
	for _, t := range resp.Topics {
		for _, p := range t.Partitions {
			if notReady {
				w.sim.Fail("C28", "not-ready-reply-has-partitions", "a reply without brokers lists partitions")
				return
			}
			if p.Leader != 0 {
				w.sim.Fail("C28", "leader-not-proxy", "metadata v%d: %s/%d has leader %d", v, strp(t.Topic), p.Partition, p.Leader)
				return
			}
			for _, x := range append(append(append([]int32(nil), p.Replicas...), p.ISR...), p.OfflineReplicas...) {
				if x != 0 {
					w.sim.Fail("C28", "leader-not-proxy", "metadata v%d: %s/%d lists replica/ISR/offline-replica node %d (the only broker the reply names is node 0, the proxy)", v, strp(t.Topic), p.Partition, x)
					return
				}
			}
		}
	}
	if notReady {
		w.sim.Probe("c28.not-ready-reply")
		// every requested topic is answered with an error, nothing else
		if mreq.Topics != nil && len(resp.Topics) != len(mreq.Topics) {
			w.sim.Fail("C28", "not-ready-topic-set", "not-ready metadata reply has %d topics for %d requested", len(resp.Topics), len(mreq.Topics))
			return
		}
		for _, t := range resp.Topics {
			if t.ErrorCode == 0 {
				w.sim.Fail("C28", "not-ready-topic-set", "not-ready metadata reply reports topic %s without an error", strp(t.Topic))
				return
			}
		}
		return
	}
	// topology: equal to what some snapshot of the cluster metadata held during the request implies
	var why string
	for i, sn := range w.snaps {
		from := sn.from
		to := int(^uint(0) >> 1)
		if i+1 < len(w.snaps) {
			to = w.snaps[i+1].step
		}
		if to < invoke || from > ret {
			continue
		}
		if why = w.metaMatches(sn.meta, mreq, resp); why == "" {
			w.sim.Probe("c28.topology-judged")
			return
		}
	}
	if w.mutating > 0 {
		// the harness is between changing the cluster metadata and recording the new state
		w.sim.Probe("c28.unjudged-during-harness-mutation")
		return
	}
	w.sim.Fail("C28", "topology-differs", "metadata v%d reply (request steps %d..%d) matches no snapshot of the cluster metadata held meanwhile: %s", v, invoke, ret, why)
}

func strp(s *string) string {
	if s == nil {
		return "<nil>"
	}
	return *s
}

func (w *w4) metaMatches(meta *metadata.ClusterMetadata, req *kmsg.MetadataRequest, resp *kmsg.MetadataResponse) string {
	v := req.Version
	byName := map[string]int{}
	byID := map[[16]byte]int{}
	for i, t := range meta.Topics {
		byName[*t.Topic] = i
		byID[t.TopicID] = i
	}
	check := func(rt *kmsg.MetadataResponseTopic, idx int) string {
		st := meta.Topics[idx]
		if rt.ErrorCode != st.ErrorCode {
			return fmt.Sprintf("topic %s error code %d, cluster has %d", *st.Topic, rt.ErrorCode, st.ErrorCode)
		}
		if rt.Topic == nil || *rt.Topic != *st.Topic {
			return fmt.Sprintf("topic name %s, cluster has %s", strp(rt.Topic), *st.Topic)
		}
		if v >= 10 && rt.TopicID != st.TopicID {
			return fmt.Sprintf("topic %s id %x, cluster has %x", *st.Topic, rt.TopicID, st.TopicID)
		}
		if len(rt.Partitions) != len(st.Partitions) {
			return fmt.Sprintf("topic %s has %d partitions, cluster has %d", *st.Topic, len(rt.Partitions), len(st.Partitions))
		}
		sp := map[int32]int{}
		for i, p := range st.Partitions {
			sp[p.Partition] = i
		}
		seen := map[int32]bool{}
		for _, p := range rt.Partitions {
			i, ok := sp[p.Partition]
			if !ok || seen[p.Partition] {
				return fmt.Sprintf("topic %s partition %d unknown or repeated", *st.Topic, p.Partition)
			}
			seen[p.Partition] = true
			if p.ErrorCode != st.Partitions[i].ErrorCode {
				return fmt.Sprintf("%s/%d error code %d, cluster has %d", *st.Topic, p.Partition, p.ErrorCode, st.Partitions[i].ErrorCode)
			}
			if v >= 7 && p.LeaderEpoch != st.Partitions[i].LeaderEpoch {
				return fmt.Sprintf("%s/%d leader epoch %d, cluster has %d", *st.Topic, p.Partition, p.LeaderEpoch, st.Partitions[i].LeaderEpoch)
			}
		}
		return ""
	}
	all := req.Topics == nil || (v == 0 && len(req.Topics) == 0)
	if all {
		if len(resp.Topics) != len(meta.Topics) {
			return fmt.Sprintf("reply lists %d topics, cluster has %d", len(resp.Topics), len(meta.Topics))
		}
		seen := map[string]bool{}
		for i := range resp.Topics {
			rt := &resp.Topics[i]
			idx, ok := byName[strp(rt.Topic)]
			if !ok || seen[strp(rt.Topic)] {
				return fmt.Sprintf("reply lists topic %s which the cluster does not have (or twice)", strp(rt.Topic))
			}
			seen[strp(rt.Topic)] = true
			if why := check(rt, idx); why != "" {
				return why
			}
		}
		return ""
	}
	if len(resp.Topics) != len(req.Topics) {
		return fmt.Sprintf("reply lists %d topics for %d requested", len(resp.Topics), len(req.Topics))
	}
	used := map[int]bool{}
	for _, qt := range req.Topics {
		var zero [16]byte
		found := -1
		for i := range resp.Topics {
			if used[i] {
				continue
			}
			rt := &resp.Topics[i]
			if qt.TopicID != zero {
				if rt.TopicID == qt.TopicID {
					found = i
					break
				}
			} else if rt.Topic != nil && qt.Topic != nil && *rt.Topic == *qt.Topic {
				found = i
				break
			}
		}
		if found < 0 {
			return fmt.Sprintf("no reply entry for requested topic %s/%x", strp(qt.Topic), qt.TopicID)
		}
		used[found] = true
		rt := &resp.Topics[found]
		idx, ok := -1, false
		if qt.TopicID != zero {
			idx, ok = byID[qt.TopicID]
		} else {
			idx, ok = byName[*qt.Topic]
		}
		if !ok {
			if rt.ErrorCode == 0 {
				return fmt.Sprintf("topic %s/%x is not in the cluster but is reported without error", strp(qt.Topic), qt.TopicID)
			}
			continue
		}
		if why := check(rt, idx); why != "" {
			return why
		}
	}
	return ""
}
