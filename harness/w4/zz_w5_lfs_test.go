package main

// W5: the proxy's LFS module (produce rewriting, HTTP upload / multipart /
// download handlers, s3Uploader) and pkg/lfs Resolver / Consumer over a
// simulated S3 and the W4 fake brokers.
//
// C30: "With checksum validation on, the LFS resolver and consumer return a blob
// only if its checksum matches the one the envelope declares, and only if it is
// within any configured size limit. The proxy download endpoint sends bytes only
// if their SHA-256 and size match the envelope the caller supplied."
//
// C31: "When the proxy rewrites a produce request, each record flagged for
// large-file handling gets a value that is a valid envelope for a new object
// holding exactly the original value, and loses only its flag header. Every
// other record, key, header, timestamp, order and count stays the same. Each
// rewritten batch has a correct length and CRC and keeps its compression codec."
//
// C32: "When the LFS HTTP API returns success for an upload (single request or
// multipart session), the object named in the returned envelope exists. Its size
// and SHA-256 match the envelope, and the broker has acknowledged the envelope
// record without error. Otherwise the client gets an error status."

import (
	"bytes"
	"crypto/md5"
	"crypto/sha256"
	"encoding/base64"
	"encoding/hex"
	"encoding/json"
	"errors"
	"fmt"
	"hash/crc32"
	"io"
	"math/rand/v2"
	"net/http"
	"net/http/httptest"
	"strings"
	"time"

	"github.com/KafScale/platform/pkg/lfs"
	"github.com/twmb/franz-go/pkg/kgo"
	"github.com/twmb/franz-go/pkg/kmsg"

	"verif/sim/kbatch"
	"verif/sim/simrt"
	"verif/sim/sims3"
)

const (
	w5Bucket = "sim-bucket"
	w5NS     = "simns"
)

// one shared 5 MiB block: multipart parts other than the last must be at least this large
var w5Big = func() []byte {
	b := make([]byte, 5<<20)
	x := uint64(0x9e3779b97f4a7c15)
	for i := 0; i+8 <= len(b); i += 8 {
		x ^= x << 13
		x ^= x >> 7
		x ^= x << 17
		b[i], b[i+1], b[i+2], b[i+3], b[i+4], b[i+5], b[i+6], b[i+7] = byte(x), byte(x>>8), byte(x>>16), byte(x>>24), byte(x>>32), byte(x>>40), byte(x>>48), byte(x>>56)
	}
	return b
}()

func (w *w4) setupLFS() {
	w.s3 = sims3.New("s3", w.cfg("s3_lat_us", 500))
	w.s3api = newW5S3(w.s3)
	if chunk := w.cfg("lfs_chunk", 5<<20); chunk < w.s3api.minPart {
		// the simulated S3 keeps its rule "every part but the last has the minimum size" but scales the
		// minimum with the configured chunk size, so that multipart uploads of small values can succeed
		w.s3api.minPart = chunk
	}
	var backends []string
	for _, b := range w.brokers {
		backends = append(backends, b.addr)
	}
	m := &lfsModule{
		logger:           w4quiet(),
		s3Uploader:       &s3Uploader{bucket: w5Bucket, region: "sim", chunkSize: w.cfg("lfs_chunk", 5<<20), api: w.s3api},
		s3Bucket:         w5Bucket,
		s3Namespace:      w5NS,
		maxBlob:          w.cfg("lfs_max_blob", 64<<20),
		chunkSize:        w.cfg("lfs_chunk", 5<<20),
		checksumAlg:      []string{"sha256", "md5", "crc32", "none"}[int(w.cfg("lfs_alg", 0))%4],
		proxyID:          "proxy-sim",
		metrics:          newLfsMetrics(),
		tracker:          &LfsOpsTracker{config: TrackerConfig{}, logger: w4quiet()},
		topicMaxLength:   defaultLFSTopicMaxLength,
		downloadTTLMax:   120 * time.Second,
		dialTimeout:      5 * time.Second,
		backendRetries:   int(w.cfg("backend_retries", 2)),
		backendBackoff:   time.Duration(w.cfg("backoff_ms", 100)) * time.Millisecond,
		uploadSessionTTL: time.Duration(w.cfg("lfs_session_ttl_s", 3600)) * time.Second,
		uploadSessions:   make(map[string]*uploadSession),
		backends:         backends,
	}
	m.markS3Healthy(true)
	w.lfs = m
}

// envelopeKeyIn finds the object key of an LFS envelope inside an (uncompressed) record set.
func envelopeKeyIn(records []byte) string {
	i := bytes.Index(records, []byte(`"kfs_lfs"`))
	if i < 0 {
		return ""
	}
	j := bytes.Index(records[i:], []byte(`"key":"`))
	if j < 0 {
		return ""
	}
	rest := records[i+j+7:]
	k := bytes.IndexByte(rest, '"')
	if k < 0 {
		return ""
	}
	return string(rest[:k])
}

// ---------------------------------------------------------------- generators

func w5Gen(r *rand.Rand, prop, tier string) *simrt.Case {
	c := &simrt.Case{Config: map[string]int64{}}
	cfg := c.Config
	cfg["lfs"] = 1
	cfg["brokers"] = int64(1 + r.IntN(2))
	cfg["topics"] = int64(1 + r.IntN(2))
	cfg["partitions"] = int64(1 + r.IntN(2))
	cfg["meta_seed"] = int64(r.Uint32())
	cfg["route_mode"] = pickI(r, 0, 0, 1)
	cfg["strict_owner"] = pickI(r, 0, 0, 1)
	cfg["static_backends"] = 1
	cfg["router"] = pickI(r, 1, 0)
	cfg["backend_retries"] = pickI(r, 1, 2)
	cfg["backoff_ms"] = pickI(r, 10, 100)
	cfg["max_frag"] = pickI(r, 0, 0, 7, 64)
	cfg["lfs_alg"] = pickI(r, 0, 0, 1, 2, 3)
	cfg["s3_lat_us"] = pickI(r, 100, 500, 20000)
	cfg["max_steps"] = 30000
	cfg["max_virtual_s"] = 8000
	nclients := 1 + r.IntN(2)
	switch prop {
	case "C31":
		cfg["lfs_chunk"] = pickI(r, 5<<20, 64, 300) // Upload() honours small chunk sizes: multipart rewriting
		for cl := 0; cl < nclients; cl++ {
			for i := 0; i < 1+r.IntN(3); i++ {
				c.Program = append(c.Program, simrt.Op{Actor: cl, Kind: "lfs-produce", A: pickI(r, 3, 7, 9), B: int64(r.Uint32()), D: pickI(r, 1, -1, -1, 0)})
			}
			c.Program = append(c.Program, simrt.Op{Actor: cl, Kind: "conn", D: pickI(r, 0, 0, 5, 100)})
		}
		for i := 0; i < r.IntN(3); i++ {
			switch r.IntN(4) {
			case 0:
				c.Faults = append(c.Faults, simrt.Fault{Kind: "s3.fail_before", Op: "s3.", Nth: r.IntN(6)})
			case 1:
				c.Faults = append(c.Faults, simrt.Fault{Kind: "s3.fail_after", Op: "s3.put", Nth: r.IntN(4)})
			case 2:
				c.Faults = append(c.Faults, simrt.Fault{Kind: "broker.not_leader", Op: "broker.produce", Nth: r.IntN(3), Arg: int64(r.Uint32())})
			default:
				c.Faults = append(c.Faults, simrt.Fault{Kind: "s3.slow", Op: "s3.", Nth: r.IntN(6), Arg: int64(r.IntN(3000)) * 1e6})
			}
		}
	case "C32":
		cfg["lfs_session_ttl_s"] = pickI(r, 3600, 3600, 20)
		for cl := 0; cl < nclients; cl++ {
			for i := 0; i < 1+r.IntN(3); i++ {
				if r.IntN(3) == 0 {
					c.Program = append(c.Program, simrt.Op{Actor: cl, Kind: "http-mp", A: pickI(r, 1, 1, 1, 2), B: int64(r.Uint32()), C: int64(r.IntN(8)), D: pickI(r, 0, 0, 1, 2)})
				} else {
					c.Program = append(c.Program, simrt.Op{Actor: cl, Kind: "http-upload", A: pickI(r, 1, 30, 700, 3000, 3000, (5<<20)+17), B: int64(r.Uint32()), C: int64(r.IntN(6)), D: pickI(r, 0, 0, 1, 2)})
				}
			}
		}
		kinds := []string{"broker.not_leader", "broker.part_error", "broker.close_before", "broker.close_after", "broker.stall", "broker.reply_garbage", "broker.reply_short", "broker.reply_truncated"}
		for i := 0; i < r.IntN(3); i++ {
			switch r.IntN(6) {
			case 0, 1, 2:
				c.Faults = append(c.Faults, simrt.Fault{Kind: kinds[r.IntN(len(kinds))], Op: "broker.produce", Nth: r.IntN(3), Arg: int64(r.Uint32())})
			case 3:
				c.Faults = append(c.Faults, simrt.Fault{Kind: "s3.fail_before", Op: "s3.", Nth: r.IntN(6)})
			case 4:
				c.Faults = append(c.Faults, simrt.Fault{Kind: "s3.fail_after", Op: pick2(r, "s3.put", "s3.mp."), Nth: r.IntN(4)})
			default:
				c.Faults = append(c.Faults, simrt.Fault{Kind: "net.dial_refused", Op: "net.dial", Nth: r.IntN(3), Count: 1 + r.IntN(3)})
			}
		}
	default: // C30
		cfg["lfs_max_blob"] = pickI(r, 64<<20, 400)
		for cl := 0; cl < nclients; cl++ {
			for i := 0; i < 1+r.IntN(4); i++ {
				kind := pick2(r, "http-download", "http-download", "resolve", "unwrap")
				c.Program = append(c.Program, simrt.Op{Actor: cl, Kind: kind, A: pickI(r, 1, 40, 300, 900, 70000), B: int64(r.Uint32()), C: int64(r.IntN(12)), D: int64(r.IntN(6))})
			}
		}
		for i := 0; i < r.IntN(3); i++ {
			switch r.IntN(6) {
			case 0:
				c.Faults = append(c.Faults, simrt.Fault{Kind: "s3.read_corrupt", Op: "s3.get", Nth: r.IntN(4), Arg: int64(r.Uint64() >> 1)})
			case 1:
				c.Faults = append(c.Faults, simrt.Fault{Kind: "s3.read_short", Op: "s3.get", Nth: r.IntN(4), Arg: int64(r.Uint32())})
			case 2:
				c.Faults = append(c.Faults, simrt.Fault{Kind: "s3.body.extend", Op: "s3.body", Nth: r.IntN(4), Arg: int64(r.Uint64() >> 1)})
			case 3:
				c.Faults = append(c.Faults, simrt.Fault{Kind: "s3.body.err", Op: "s3.body", Nth: r.IntN(4), Arg: int64(r.Uint32())})
			case 4:
				c.Faults = append(c.Faults, simrt.Fault{Kind: "s3.read_garbage", Op: "s3.get", Nth: r.IntN(4), Arg: int64(r.Uint32())})
			default:
				c.Faults = append(c.Faults, simrt.Fault{Kind: "s3.fail_before", Op: "s3.get", Nth: r.IntN(4)})
			}
		}
	}
	return c
}

// ---------------------------------------------------------------- C31: rewriting

type w5sentRec struct {
	rec     kbatch.Record
	flagged bool
}

type w5sentBatch struct {
	codec   int16
	attrs   int16
	baseTs  int64
	maxTs   int64
	recs    []w5sentRec
	raw     []byte
	rejects bool // carries a flagged record whose declared checksum is wrong: the rewrite must fail
}

type w5sentPart struct {
	topic   string
	part    int32
	batches []w5sentBatch
}

func w5payload(rr *rand.Rand, n int) []byte {
	b := make([]byte, n)
	for i := range b {
		b[i] = byte(rr.IntN(256))
	}
	return b
}

func w5compress(codec int16, raw []byte) []byte {
	var opt kgo.CompressionCodec
	switch codec {
	case 1:
		opt = kgo.GzipCompression()
	case 2:
		opt = kgo.SnappyCompression()
	case 3:
		opt = kgo.Lz4Compression()
	case 4:
		opt = kgo.ZstdCompression()
	default:
		return raw
	}
	comp, err := kgo.DefaultCompressor(opt)
	if err != nil || comp == nil {
		return raw
	}
	out, _ := comp.Compress(bytes.NewBuffer(nil), raw)
	return append([]byte(nil), out...)
}

func w5checksum(alg string, b []byte) string {
	switch alg {
	case "md5":
		s := md5.Sum(b)
		return hex.EncodeToString(s[:])
	case "crc32":
		return fmt.Sprintf("%08x", crc32.ChecksumIEEE(b))
	case "none":
		return ""
	}
	s := sha256.Sum256(b)
	return hex.EncodeToString(s[:])
}

// buildLFSProduce fills q with a produce request mixing flagged and unflagged records.
func (w *w4) buildLFSProduce(id, seq int, op simrt.Op, rr *rand.Rand, q *w4req) {
	r := kmsg.NewPtrProduceRequest()
	r.Version = int16(op.A)
	r.Acks = int16(op.D)
	r.TimeoutMillis = 3000
	q.acks = r.Acks
	names := append([]string(nil), w.topics...)
	rr.Shuffle(len(names), func(i, j int) { names[i], names[j] = names[j], names[i] })
	for _, name := range names[:1+rr.IntN(len(names))] {
		rt := kmsg.NewProduceRequestTopic()
		rt.Topic = name
		for p := int32(0); p < w.nparts; p++ {
			if p > 0 && rr.IntN(2) == 0 {
				continue
			}
			sp := w5sentPart{topic: name, part: p}
			var records []byte
			for bi := 0; bi < 1+rr.IntN(3); bi++ {
				// codecs none/gzip/snappy/lz4. zstd (4) is left out: a klauspost zstd coder created inside a
				// synctest bubble owns bubble channels, and its finalizer (closing them from the finalizer
				// goroutine, outside the bubble) is a fatal runtime error
				sb := w5sentBatch{codec: int16(rr.IntN(4)), baseTs: 1700000000000 + int64(rr.IntN(1000))}
				sb.attrs = sb.codec
				if rr.IntN(4) == 0 {
					sb.attrs |= 0x08 // log-append-time flag: must survive
				}
				sb.maxTs = sb.baseTs
				nrec := 1 + rr.IntN(4)
				for ri := 0; ri < nrec; ri++ {
					rec := kbatch.Record{OffsetDelta: int32(ri), TsDelta: int64(rr.IntN(50))}
					switch rr.IntN(12) {
					case 0:
						// client-supplied timestamps weeks apart: the delta needs more than 32 bits
						rec.TsDelta = int64(1)<<uint(31+rr.IntN(9)) + int64(rr.IntN(1000))
					case 1:
						rec.TsDelta = -int64(rr.IntN(5000))
					}
					switch rr.IntN(4) {
					case 0:
						rec.Key = nil
					case 1:
						rec.Key = []byte{}
					default:
						rec.Key = []byte(fmt.Sprintf("k-%d-%d-%d-%d-%d", id, seq, len(q.tps), bi, ri))
					}
					switch rr.IntN(8) {
					case 0:
						rec.Value = nil
					case 1:
						rec.Value = []byte{}
					default:
						rec.Value = w5payload(rr, 1+rr.IntN(pickInt(rr, 20, 200, 700)))
					}
					for h := 0; h < rr.IntN(4); h++ {
						switch rr.IntN(5) {
						case 0:
							rec.Headers = append(rec.Headers, kbatch.Header{Key: "content-type", Value: []byte("application/x-sim")})
						case 1:
							rec.Headers = append(rec.Headers, kbatch.Header{Key: "traceparent", Value: []byte(fmt.Sprintf("00-%d", rr.IntN(1000)))})
						case 2:
							rec.Headers = append(rec.Headers, kbatch.Header{Key: fmt.Sprintf("h%d", rr.IntN(3)), Value: w5payload(rr, rr.IntN(6))})
						case 3:
							rec.Headers = append(rec.Headers, kbatch.Header{Key: "nil-valued", Value: nil})
						default:
							rec.Headers = append(rec.Headers, kbatch.Header{Key: "lfs_blob", Value: []byte("lower-case is not the flag")})
						}
					}
					sr := w5sentRec{}
					if rr.IntN(2) == 0 {
						sr.flagged = true
						alg := []string{"", "sha256", "md5", "crc32", "none"}[rr.IntN(5)]
						eff := alg
						if eff == "" {
							eff = []string{"sha256", "md5", "crc32", "none"}[int(w.cfg("lfs_alg", 0))%4]
						}
						flag := ""
						switch rr.IntN(6) {
						case 0, 1:
							if eff != "none" {
								flag = w5checksum(eff, rec.Value)
								if rr.IntN(2) == 0 {
									flag = strings.ToUpper(flag)
								}
							}
						case 2:
							if eff != "none" {
								flag = w5checksum(eff, append([]byte("x"), rec.Value...))
								sb.rejects = true
							}
						}
						hdr := kbatch.Header{Key: "LFS_BLOB", Value: []byte(flag)}
						at := rr.IntN(len(rec.Headers) + 1)
						rec.Headers = append(rec.Headers[:at], append([]kbatch.Header{hdr}, rec.Headers[at:]...)...)
						if alg != "" {
							rec.Headers = append(rec.Headers, kbatch.Header{Key: "LFS_BLOB_ALG", Value: []byte(alg)})
						}
					}
					if sb.baseTs+rec.TsDelta > sb.maxTs {
						sb.maxTs = sb.baseTs + rec.TsDelta
					}
					sr.rec = rec
					sb.recs = append(sb.recs, sr)
				}
				var plain []kbatch.Record
				for _, sr := range sb.recs {
					plain = append(plain, sr.rec)
				}
				payload := w5compress(sb.codec, kbatch.EncodeRecords(plain))
				sb.raw = kbatch.BuildRaw(int64(bi*10), int32(nrec-1), int32(nrec), sb.baseTs, sb.maxTs, sb.attrs, payload)
				records = append(records, sb.raw...)
				sp.batches = append(sp.batches, sb)
			}
			rp := kmsg.NewProduceRequestTopicPartition()
			rp.Partition = p
			rp.Records = records
			rt.Partitions = append(rt.Partitions, rp)
			q.tps = append(q.tps, tpKey(name, p))
			q.lfsParts = append(q.lfsParts, sp)
		}
		r.Topics = append(r.Topics, rt)
	}
	q.req = r
}

func pickInt(rr *rand.Rand, xs ...int) int { return xs[rr.IntN(len(xs))] }

func w5decompress(codec int16, payload []byte) ([]byte, error) {
	if codec == 0 {
		return payload, nil
	}
	return kgo.DefaultDecompressor().Decompress(payload, kgo.CompressionCodecType(codec))
}

func sameHeaders(a, b []kbatch.Header) bool {
	if len(a) != len(b) {
		return false
	}
	for i := range a {
		if a[i].Key != b[i].Key || (a[i].Value == nil) != (b[i].Value == nil) || !bytes.Equal(a[i].Value, b[i].Value) {
			return false
		}
	}
	return true
}

func sameBytesNil(a, b []byte) bool { return (a == nil) == (b == nil) && bytes.Equal(a, b) }

// judgeRewrites compares, for every LFS produce that reached a broker, what the broker
// received with what the client sent.
func (w *w4) judgeRewrites() {
	for _, q := range w.lfsReqs {
		for _, sp := range q.lfsParts {
			key := fmt.Sprintf("%d/%s", q.corr, tpKey(sp.topic, sp.part))
			for _, got := range w.recv[key] {
				w.sim.Probe("c31.partition-judged")
				if why := w.rewriteDiff(sp, got); why != "" {
					w.sim.Fail("C31", w.rewriteClause, "produce corr %d %s/%d: %s", q.corr, sp.topic, sp.part, why)
					return
				}
			}
		}
	}
	if w.undecodable > 0 {
		w.sim.Fail("C31", "request-not-a-kafka-frame", "the proxy sent a broker %d frame(s) that do not decode as a Kafka request while forwarding LFS produces: %s", w.undecodable, w.undecodableNote)
	}
}

func (w *w4) rewriteDiff(sp w5sentPart, got []byte) string {
	w.rewriteClause = "batch-structure"
	batches, rest := kbatch.ParseAll(got)
	if len(rest) != 0 {
		return fmt.Sprintf("%d trailing bytes do not parse as a record batch (declared length wrong?)", len(rest))
	}
	if len(batches) != len(sp.batches) {
		return fmt.Sprintf("%d batches arrived, %d were sent", len(batches), len(sp.batches))
	}
	for bi, gb := range batches {
		sb := sp.batches[bi]
		anyFlag := false
		for _, sr := range sb.recs {
			anyFlag = anyFlag || sr.flagged
		}
		if !anyFlag {
			w.rewriteClause = "untouched-batch-changed"
			if !bytes.Equal(gb.Raw, sb.raw) {
				return fmt.Sprintf("batch %d has no flagged record but its bytes changed", bi)
			}
			continue
		}
		w.sim.Probe("c31.rewritten-batch")
		w.rewriteClause = "batch-header"
		if !gb.CRCOK {
			return fmt.Sprintf("batch %d: CRC does not match its bytes", bi)
		}
		if int(gb.BatchLength)+12 != len(gb.Raw) {
			return fmt.Sprintf("batch %d: length field %d for %d bytes", bi, gb.BatchLength, len(gb.Raw))
		}
		if gb.Attributes&7 != sb.codec {
			w.rewriteClause = "codec-changed"
			return fmt.Sprintf("batch %d: compression codec %d, was %d", bi, gb.Attributes&7, sb.codec)
		}
		if gb.Attributes != sb.attrs || gb.Magic != 2 || gb.BaseOffset != int64(bi*10) || gb.LastOffsetDelta != int32(len(sb.recs)-1) || gb.BaseTimestamp != sb.baseTs || gb.MaxTimestamp != sb.maxTs || gb.ProducerID != -1 || gb.ProducerEpoch != -1 || gb.BaseSequence != -1 {
			return fmt.Sprintf("batch %d: header changed (attrs %#x/%#x base %d lastDelta %d ts %d..%d pid %d/%d/%d)", bi, gb.Attributes, sb.attrs, gb.BaseOffset, gb.LastOffsetDelta, gb.BaseTimestamp, gb.MaxTimestamp, gb.ProducerID, gb.ProducerEpoch, gb.BaseSequence)
		}
		w.rewriteClause = "record-count"
		if int(gb.RecordCount) != len(sb.recs) {
			return fmt.Sprintf("batch %d: %d records, %d were sent", bi, gb.RecordCount, len(sb.recs))
		}
		payload, err := w5decompress(sb.codec, gb.Raw[61:])
		if err != nil {
			w.rewriteClause = "codec-changed"
			return fmt.Sprintf("batch %d: records do not decompress with codec %d: %v", bi, sb.codec, err)
		}
		recs, err := kbatch.ParseRecords(payload, gb.RecordCount)
		if err != nil {
			return fmt.Sprintf("batch %d: %v", bi, err)
		}
		for ri, gr := range recs {
			sr := sb.recs[ri]
			w.rewriteClause = "other-field-changed"
			if !sameBytesNil(gr.Key, sr.rec.Key) || gr.TsDelta != sr.rec.TsDelta || gr.OffsetDelta != sr.rec.OffsetDelta {
				return fmt.Sprintf("batch %d record %d: key/timestamp/offset changed (key %q/%q nil=%v/%v ts %d/%d off %d/%d)", bi, ri, gr.Key, sr.rec.Key, gr.Key == nil, sr.rec.Key == nil, gr.TsDelta, sr.rec.TsDelta, gr.OffsetDelta, sr.rec.OffsetDelta)
			}
			if !sr.flagged {
				w.rewriteClause = "unflagged-record-changed"
				if !sameBytesNil(gr.Value, sr.rec.Value) || !sameHeaders(gr.Headers, sr.rec.Headers) {
					return fmt.Sprintf("batch %d record %d is not flagged but its value or headers changed", bi, ri)
				}
				continue
			}
			w.sim.Probe("c31.flagged-record")
			var wantH []kbatch.Header
			for _, h := range sr.rec.Headers {
				if h.Key != "LFS_BLOB" {
					wantH = append(wantH, h)
				}
			}
			w.rewriteClause = "flagged-record-headers"
			if !sameHeaders(gr.Headers, wantH) {
				return fmt.Sprintf("batch %d record %d: headers after rewriting are %v, expected the original minus LFS_BLOB %v", bi, ri, hdrKeys(gr.Headers), hdrKeys(wantH))
			}
			w.rewriteClause = "envelope"
			var env lfs.Envelope
			if err := json.Unmarshal(gr.Value, &env); err != nil || env.Version == 0 {
				return fmt.Sprintf("batch %d record %d: value is not an envelope: %.80q", bi, ri, gr.Value)
			}
			obj, ok := w.s3.Peek(env.Key)
			sum := sha256.Sum256(sr.rec.Value)
			if env.Bucket != w5Bucket || !ok {
				return fmt.Sprintf("batch %d record %d: envelope names %s/%s which does not exist", bi, ri, env.Bucket, env.Key)
			}
			if !bytes.Equal(obj, sr.rec.Value) {
				return fmt.Sprintf("batch %d record %d: object %s holds %d bytes that differ from the %d-byte original value", bi, ri, env.Key, len(obj), len(sr.rec.Value))
			}
			if env.Size != int64(len(sr.rec.Value)) || env.SHA256 != hex.EncodeToString(sum[:]) {
				return fmt.Sprintf("batch %d record %d: envelope size/sha256 %d/%s do not describe the original value (%d/%x)", bi, ri, env.Size, env.SHA256, len(sr.rec.Value), sum)
			}
			if w.envKeys[env.Key] {
				return fmt.Sprintf("batch %d record %d: object %s is shared with another record", bi, ri, env.Key)
			}
			w.envKeys[env.Key] = true
		}
	}
	return ""
}

func hdrKeys(h []kbatch.Header) []string {
	var out []string
	for _, x := range h {
		out = append(out, x.Key)
	}
	return out
}

// ---------------------------------------------------------------- HTTP driver

type w5body struct {
	r      io.Reader
	failAt int // >= 0: fail with a connection error once this many bytes were read
	read   int
}

func (b *w5body) Read(p []byte) (int, error) {
	if b.failAt >= 0 && b.read >= b.failAt {
		return 0, errors.New("simhttp: client connection reset (injected)")
	}
	if b.failAt >= 0 && len(p) > b.failAt-b.read {
		p = p[:b.failAt-b.read]
	}
	simrt.Yield("http.body.read")
	n, err := b.r.Read(p)
	b.read += n
	return n, err
}
func (b *w5body) Close() error { return nil }

func (w *w4) httpDo(handler http.HandlerFunc, method, path string, hdr map[string]string, body io.Reader, n int64) *httptest.ResponseRecorder {
	req := httptest.NewRequest(method, "http://proxy.sim"+path, body)
	req = req.WithContext(w.ctx)
	req.ContentLength = n
	for k, v := range hdr {
		req.Header.Set(k, v)
	}
	rec := httptest.NewRecorder()
	handler(rec, req)
	return rec
}

func (w *w4) httpClient(id int, ops []simrt.Op) {
	seq := 0
	for _, op := range ops {
		if w.sim.Failed() || simrt.Dying() {
			return
		}
		seq++
		rr := rand.New(rand.NewPCG(uint64(op.B), uint64(id*1000+seq)))
		switch op.Kind {
		case "http-upload":
			w.opHTTPUpload(id, seq, op, rr)
		case "http-mp":
			w.opHTTPMultipart(id, seq, op, rr)
		case "http-download":
			w.opHTTPDownload(id, seq, op, rr)
		case "resolve", "unwrap":
			w.opResolve(id, seq, op, rr)
		}
	}
}

func (w *w4) uploadBytes(rr *rand.Rand, size int64) []byte {
	if size >= 5<<20 {
		tail := w5payload(rr, int(size-(5<<20)))
		return append(append(make([]byte, 0, size), w5Big...), tail...)
	}
	return w5payload(rr, int(size))
}

// judgeUploadOK: the C32 oracle for one 200 reply.
func (w *w4) judgeUploadOK(what string, body []byte, sent []byte) {
	w.sim.Probe("c32.success-judged")
	var env lfs.Envelope
	if err := json.Unmarshal(body, &env); err != nil || env.Key == "" {
		w.sim.Fail("C32", "success-without-envelope", "%s answered 200 with a body that is not an envelope: %.100q", what, body)
		return
	}
	obj, ok := w.s3.Peek(env.Key)
	if !ok {
		w.sim.Fail("C32", "object-missing", "%s answered 200 with envelope key %s, which does not exist in S3", what, env.Key)
		return
	}
	sum := sha256.Sum256(obj)
	if env.Size != int64(len(obj)) || env.SHA256 != hex.EncodeToString(sum[:]) {
		w.sim.Fail("C32", "object-differs-from-envelope", "%s answered 200: envelope says %d bytes sha256 %s, the stored object %s has %d bytes sha256 %x", what, env.Size, env.SHA256, env.Key, len(obj), sum)
		return
	}
	if sent != nil && !bytes.Equal(obj, sent) {
		w.sim.Fail("C32", "object-differs-from-upload", "%s answered 200: the stored object (%d bytes) is not what the client uploaded (%d bytes)", what, len(obj), len(sent))
		return
	}
	acked := false
	note := "no broker received a produce carrying this envelope"
	for _, r := range w.envAcks[env.Key] {
		note = fmt.Sprintf("broker b%d answered code %d (reply delivered intact: %v)", r.broker, r.code, r.delivered)
		if r.code == 0 && r.delivered {
			acked = true
		}
	}
	if !acked {
		w.sim.Fail("C32", "success-without-broker-ack", "%s answered 200 for %s, but the envelope record was not acknowledged without error: %s", what, env.Key, note)
	}
}

func (w *w4) opHTTPUpload(id, seq int, op simrt.Op, rr *rand.Rand) {
	data := w.uploadBytes(rr, op.A)
	topic := w.topics[rr.IntN(len(w.topics))]
	hdr := map[string]string{lfsHeaderTopic: topic, "Content-Type": "application/x-sim"}
	if rr.IntN(2) == 0 {
		hdr[lfsHeaderPartition] = fmt.Sprint(rr.IntN(int(w.nparts)))
	}
	if rr.IntN(2) == 0 {
		hdr[lfsHeaderKey] = base64.StdEncoding.EncodeToString([]byte(fmt.Sprintf("hk-%d-%d", id, seq)))
	}
	alg := []string{"", "sha256", "md5", "crc32", "none"}[int(op.C)%5]
	if alg != "" {
		hdr[lfsHeaderChecksumAlg] = alg
	}
	eff := alg
	if eff == "" {
		eff = []string{"sha256", "md5", "crc32", "none"}[int(w.cfg("lfs_alg", 0))%4]
	}
	wrong := false
	switch op.D {
	case 1:
		if eff != "none" {
			hdr[lfsHeaderChecksum] = w5checksum(eff, data)
		}
	case 2:
		if eff != "none" {
			hdr[lfsHeaderChecksum] = w5checksum(eff, append([]byte("y"), data...))
			wrong = true
		}
	}
	body := &w5body{r: bytes.NewReader(data), failAt: -1}
	if rr.IntN(8) == 0 && len(data) > 1 {
		body.failAt = rr.IntN(len(data))
	}
	w.sim.Probe("c32.upload")
	rec := w.httpDo(w.lfs.handleHTTPProduce, http.MethodPost, "/lfs/produce", hdr, body, int64(len(data)))
	if simrt.Dying() {
		return
	}
	what := fmt.Sprintf("client %d upload %d (%d bytes, body-error-at=%d)", id, seq, len(data), body.failAt)
	if rec.Code/100 == 2 {
		if wrong {
			w.sim.Fail("C32", "wrong-checksum-accepted", "%s carried a checksum that does not match its bytes and was answered %d", what, rec.Code)
			return
		}
		sent := data
		if body.failAt >= 0 {
			sent = nil // what "the client sent" is then a prefix; only envelope/object agreement is judged
		}
		w.judgeUploadOK(what, rec.Body.Bytes(), sent)
		return
	}
	w.sim.Probe("c32.upload-refused")
}

func (w *w4) opHTTPMultipart(id, seq int, op simrt.Op, rr *rand.Rand) {
	nparts := int(op.A)
	var parts [][]byte
	for i := 0; i < nparts; i++ {
		if i < nparts-1 {
			parts = append(parts, w5Big)
		} else {
			parts = append(parts, w5payload(rr, 1+rr.IntN(2000)))
		}
	}
	// an impatient client that dies half way: two equal parts are announced, the first is sent twice at the same
	// time (time-out and re-send while the first attempt is still being stored), the second never, and completion
	// is asked for with the one part there is. The session has seen as many bytes as were announced only if it
	// counted the same part twice.
	impatient := nparts == 2 && op.C == 7
	if impatient {
		parts[1] = w5Big
	}
	var all []byte
	for _, p := range parts {
		all = append(all, p...)
	}
	topic := w.topics[rr.IntN(len(w.topics))]
	alg := []string{"", "sha256", "md5", "crc32", "none"}[rr.IntN(5)]
	eff := alg
	if eff == "" {
		eff = []string{"sha256", "md5", "crc32", "none"}[int(w.cfg("lfs_alg", 0))%4]
	}
	initReq := map[string]any{"topic": topic, "content_type": "application/x-sim", "size_bytes": len(all)}
	if alg != "" {
		initReq["checksum_alg"] = alg
	}
	wrong := false
	if eff != "none" {
		switch op.D {
		case 1:
			initReq["checksum"] = w5checksum(eff, all)
		case 2:
			initReq["checksum"] = w5checksum(eff, append([]byte("z"), all...))
			wrong = true
		}
	}
	if rr.IntN(2) == 0 {
		initReq["partition"] = rr.IntN(int(w.nparts))
	}
	js, _ := json.Marshal(initReq)
	w.sim.Probe("c32.multipart")
	rec := w.httpDo(w.lfs.handleHTTPUploadInit, http.MethodPost, "/lfs/uploads", nil, bytes.NewReader(js), int64(len(js)))
	if simrt.Dying() || rec.Code != 200 {
		return
	}
	var initResp lfsUploadInitResponse
	if err := json.Unmarshal(rec.Body.Bytes(), &initResp); err != nil || initResp.UploadID == "" {
		return
	}
	type pe struct {
		n    int32
		etag string
	}
	var got []pe
	for i, p := range parts {
		if rr.IntN(10) == 0 {
			simrt.Sleep(time.Duration(rr.IntN(30)) * time.Second)
		}
		path := fmt.Sprintf("/lfs/uploads/%s/parts/%d", initResp.UploadID, i+1)
		if impatient && i == 1 {
			simrt.Sleep(5 * time.Second) // (the duplicate of part 1 has been answered by now)
			w.sim.Probe("c32.completion-after-duplicate-part-only")
			break
		}
		if rr.IntN(8) == 0 || impatient {
			// an impatient client: the same part is sent a second time while the first attempt is still on
			// its way (the second request runs as a task of its own)
			dup := append([]byte(nil), p...)
			w.sim.Probe("c32.part-sent-twice-concurrently")
			simrt.Go("dup-part", func() {
				simrt.Sleep(time.Duration(rr.IntN(3)) * time.Millisecond)
				_ = w.httpDo(w.lfs.handleHTTPUploadSession, http.MethodPut, path, nil, &w5body{r: bytes.NewReader(dup), failAt: -1}, int64(len(dup)))
			})
		}
		rec := w.httpDo(w.lfs.handleHTTPUploadSession, http.MethodPut, path, nil, &w5body{r: bytes.NewReader(p), failAt: -1}, int64(len(p)))
		if simrt.Dying() {
			return
		}
		if rec.Code != 200 {
			w.sim.Probe("c32.part-refused")
			// retry once (S3 hiccup), then give up on this session
			rec = w.httpDo(w.lfs.handleHTTPUploadSession, http.MethodPut, path, nil, &w5body{r: bytes.NewReader(p), failAt: -1}, int64(len(p)))
			if simrt.Dying() {
				return
			}
			if rec.Code != 200 {
				if len(got) > 0 && rr.IntN(2) == 0 {
					// the client gives up on this part and asks for completion with what it has
					w.sim.Probe("c32.completion-after-refused-part")
					break
				}
				return
			}
		}
		var pr lfsUploadPartResponse
		_ = json.Unmarshal(rec.Body.Bytes(), &pr)
		got = append(got, pe{pr.PartNumber, pr.ETag})
		if rr.IntN(6) == 0 {
			// the same part again (client retry): answered from the session
			_ = w.httpDo(w.lfs.handleHTTPUploadSession, http.MethodPut, path, nil, &w5body{r: bytes.NewReader(p), failAt: -1}, int64(len(p)))
		}
	}
	// completion request: which parts the client lists
	list := append([]pe(nil), got...)
	mode := int(op.C)
	switch mode {
	case 1: // partial: drops the last part
		if len(list) > 1 {
			list = list[:len(list)-1]
		}
	case 2: // partial: drops the first part
		if len(list) > 1 {
			list = list[1:]
		}
	case 3: // reversed
		for i, j := 0, len(list)-1; i < j; i, j = i+1, j-1 {
			list[i], list[j] = list[j], list[i]
		}
	case 4: // a part listed twice
		list = append(list, list[0])
	case 5: // foreign etag
		list[0].etag = `"00000000000000000000000000000000"`
	}
	type cp struct {
		PartNumber int32  `json:"part_number"`
		ETag       string `json:"etag"`
	}
	var creq struct {
		Parts []cp `json:"parts"`
	}
	for _, p := range list {
		creq.Parts = append(creq.Parts, cp{p.n, p.etag})
	}
	js, _ = json.Marshal(creq)
	if rr.IntN(12) == 0 {
		_ = w.httpDo(w.lfs.handleHTTPUploadSession, http.MethodDelete, "/lfs/uploads/"+initResp.UploadID, nil, nil, 0)
		w.sim.Probe("c32.multipart-aborted")
	} else if rr.IntN(12) == 0 {
		// the bucket's lifecycle rule ends incomplete multipart uploads behind the proxy's back
		w.s3api.lifecycleAbortIncomplete()
		w.sim.Probe("c32.multipart-aborted-by-lifecycle")
	}
	rec = w.httpDo(w.lfs.handleHTTPUploadSession, http.MethodPost, "/lfs/uploads/"+initResp.UploadID+"/complete", nil, bytes.NewReader(js), int64(len(js)))
	if simrt.Dying() {
		return
	}
	what := fmt.Sprintf("client %d multipart %d (%d parts, %d bytes, completion list mode %d: %d entries)", id, seq, nparts, len(all), mode, len(list))
	if rec.Code/100 == 2 {
		if wrong {
			w.sim.Fail("C32", "wrong-checksum-accepted", "%s declared a checksum that does not match its bytes and was answered %d", what, rec.Code)
			return
		}
		w.sim.Probe("c32.multipart-success")
		if impatient {
			// whatever was accepted, the envelope has to describe the object that is there
			w.judgeUploadOK(what+" [second part never sent]", rec.Body.Bytes(), nil)
			return
		}
		w.judgeUploadOK(what, rec.Body.Bytes(), all)
		return
	}
	w.sim.Probe("c32.multipart-refused")
}

// ---------------------------------------------------------------- C30: readers

// storeObject puts an object straight into the simulated bucket (no S3 call) and returns its key.
func (w *w4) storeObject(id, seq int, data []byte) string {
	key := fmt.Sprintf("%s/t0/lfs/2026/01/01/obj-%d-%d", w5NS, id, seq)
	w.s3.Poke(key, data)
	return key
}

func (w *w4) opHTTPDownload(id, seq int, op simrt.Op, rr *rand.Rand) {
	data := w5payload(rr, int(op.A))
	key := w.storeObject(id, seq, data)
	sum := sha256.Sum256(data)
	claimSHA := hex.EncodeToString(sum[:])
	claimSize := int64(len(data))
	stored := data
	// what the caller claims vs what the bucket holds
	switch op.C {
	case 1: // object replaced after the envelope was written
		stored = w5payload(rr, len(data))
		w.s3.Poke(key, stored)
	case 2: // object truncated
		stored = data[:rr.IntN(len(data))]
		w.s3.Poke(key, stored)
	case 3: // object extended
		stored = append(append([]byte(nil), data...), w5payload(rr, 1+rr.IntN(20))...)
		w.s3.Poke(key, stored)
	case 4: // caller claims a larger size than the object whose hash it supplies
		claimSize += int64(1 + rr.IntN(50))
	case 5: // caller claims a smaller size
		if claimSize > 1 {
			claimSize -= int64(1 + rr.IntN(int(claimSize-1)))
		}
	case 6: // upper-case digest
		claimSHA = strings.ToUpper(claimSHA)
	case 7: // digest of something else
		s2 := sha256.Sum256(append([]byte("q"), data...))
		claimSHA = hex.EncodeToString(s2[:])
	}
	reqBody := map[string]any{"bucket": w5Bucket, "key": key, "mode": "stream", "integrity": map[string]any{"sha256": claimSHA, "size": claimSize}}
	js, _ := json.Marshal(reqBody)
	w.sim.Probe("c30.download")
	rec := w.httpDo(w.lfs.handleHTTPDownload, http.MethodPost, "/lfs/download", nil, bytes.NewReader(js), int64(len(js)))
	if simrt.Dying() {
		return
	}
	if rec.Code != 200 {
		w.sim.Probe("c30.download-refused")
		return
	}
	w.sim.Probe("c30.download-served")
	body := rec.Body.Bytes()
	bsum := sha256.Sum256(body)
	if hex.EncodeToString(bsum[:]) != strings.ToLower(claimSHA) {
		w.sim.Fail("C30", "download-served-wrong-bytes", "download of %s answered 200 with %d bytes whose SHA-256 %x is not the caller's %s (variant %d)", key, len(body), bsum, claimSHA, op.C)
		return
	}
	if int64(len(body)) != claimSize {
		w.sim.Fail("C30", "download-served-wrong-size", "download of %s answered 200 with %d bytes, the caller's envelope says %d (variant %d)", key, len(body), claimSize, op.C)
	}
}

func (w *w4) opResolve(id, seq int, op simrt.Op, rr *rand.Rand) {
	data := w5payload(rr, int(op.A))
	key := w.storeObject(id, seq, data)
	sum := sha256.Sum256(data)
	env := lfs.Envelope{Version: 1, Bucket: w5Bucket, Key: key, Size: int64(len(data)), SHA256: hex.EncodeToString(sum[:])}
	alg := []string{"", "sha256", "md5", "crc32", "none", "SHA256", "sha1"}[int(op.D)%7]
	env.ChecksumAlg = alg
	eff := strings.ToLower(alg)
	if eff == "" {
		eff = "sha256"
	}
	if (eff == "sha256" || eff == "md5" || eff == "crc32") && rr.IntN(3) > 0 {
		env.Checksum = w5checksum(eff, data)
	}
	switch op.C {
	case 1, 2: // the bucket holds something else
		w.s3.Poke(key, w5payload(rr, len(data)))
	case 3:
		w.s3.Poke(key, data[:rr.IntN(len(data))])
	case 4:
		w.s3.Poke(key, append(append([]byte(nil), data...), 'x'))
	case 5: // declared digests disagree with each other
		env.Checksum = w5checksum(eff, append([]byte("p"), data...))
	case 6:
		env.SHA256 = strings.ToUpper(env.SHA256)
	case 7, 8:
		// the envelope's size field understates the object (its checksums are those of the object): a size
		// limit is about the bytes that are returned, not about what the envelope claims
		env.Size = int64(1 + rr.IntN(8))
	}
	value, _ := json.Marshal(env)
	maxSize := int64(0)
	if rr.IntN(3) == 0 {
		maxSize = int64(pickInt(rr, 10, 100, 500))
	}
	var payload []byte
	var err error
	w.sim.Probe("c30.reader-call")
	// one reader instance for the whole operation: a record may be delivered (and resolved) again
	var res *lfs.Resolver
	var cons *lfs.Consumer
	if op.Kind == "resolve" {
		res = lfs.NewResolver(lfs.ResolverConfig{MaxSize: maxSize, ValidateChecksum: true}, w5reader{w.s3api})
	} else {
		maxSize = 0
		cons = lfs.NewConsumer(w5reader{w.s3api}, lfs.WithChecksumValidation(true))
	}
	read := func() {
		if res != nil {
			var rrec lfs.ResolvedRecord
			rrec, _, err = res.Resolve(w.ctx, value)
			payload = rrec.Payload
		} else {
			_, payload, err = cons.Unwrap(w.ctx, value)
		}
	}
	read()
	if simrt.Dying() {
		return
	}
	if err == nil && op.C == 0 && rr.IntN(3) == 0 {
		// redelivery: the same envelope is resolved again by the same reader after the object was replaced
		w.s3.Poke(key, w5payload(rr, len(data)))
		w.sim.Probe("c30.re-read-after-replacement")
		read()
		if simrt.Dying() {
			return
		}
	}
	if err != nil {
		w.sim.Probe("c30.reader-refused")
		return
	}
	w.sim.Probe("c30.reader-returned")
	if maxSize > 0 && int64(len(payload)) > maxSize {
		w.sim.Fail("C30", "blob-over-size-limit", "%s returned %d bytes with a size limit of %d", op.Kind, len(payload), maxSize)
		return
	}
	// the returned blob must match a checksum the envelope declares (when it declares one it can be checked against)
	declared := 0
	matches := false
	if eff == "none" {
		return
	}
	if env.Checksum != "" && (eff == "sha256" || eff == "md5" || eff == "crc32") {
		declared++
		matches = matches || strings.EqualFold(w5checksum(eff, payload), env.Checksum)
	}
	if env.SHA256 != "" {
		declared++
		matches = matches || strings.EqualFold(w5checksum("sha256", payload), env.SHA256)
	}
	if declared > 0 && !matches {
		w.sim.Fail("C30", "blob-fails-declared-checksum", "%s returned %d bytes that match none of the envelope's declared checksums (alg %q checksum %q sha256 %q; variant %d)", op.Kind, len(payload), alg, env.Checksum, env.SHA256, op.C)
	}
}
