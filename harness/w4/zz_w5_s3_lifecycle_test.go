package main

// lifecycleAbortIncomplete: what a bucket lifecycle rule ("abort incomplete multipart uploads") does: every
// upload that has not been completed ceases to exist.
func (a *w5s3) lifecycleAbortIncomplete() {
	for _, u := range a.uploads {
		if !u.completed {
			u.aborted = true
		}
	}
}
