package main

// SimS3 behind the AWS-SDK-shaped interface the LFS module uses (s3API):
// single puts, multipart sessions with S3's completion rules, gets whose body
// can be short, corrupt, over-long or fail mid-stream.

import (
	"bytes"
	"context"
	"crypto/md5"
	"encoding/hex"
	"errors"
	"fmt"
	"io"
	"strings"
	"time"

	"github.com/aws/aws-sdk-go-v2/aws"
	"github.com/aws/aws-sdk-go-v2/service/s3"
	"github.com/aws/smithy-go"

	"verif/sim/sims3"
	"verif/sim/simrt"
)

type w5upload struct {
	key       string
	parts     map[int32][]byte
	etags     map[int32]string
	completed bool
	aborted   bool
}

type w5s3 struct {
	st      *sims3.Store
	uploads map[string]*w5upload
	seq     int
	minPart int64
	// part uploads on the wire right now (a probe fires when two overlap)
	partsInFlight int
}

func newW5S3(st *sims3.Store) *w5s3 {
	return &w5s3{st: st, uploads: map[string]*w5upload{}, minPart: 5 << 20}
}

type w5apiErr struct{ code, msg string }

func (e *w5apiErr) Error() string       { return e.code + ": " + e.msg }
func (e *w5apiErr) ErrorCode() string   { return e.code }
func (e *w5apiErr) ErrorMessage() string { return e.msg }
func (e *w5apiErr) ErrorFault() smithy.ErrorFault { return smithy.FaultUnknown } // (a real smithy.APIError, as the SDK's errors are)

// op runs a non-object S3 call as one simulated IO; apply runs iff the call took effect.
func (a *w5s3) op(ctx context.Context, op, key string, apply func()) error {
	out := simrt.IO(ctx, "s3."+op, key, time.Duration(a.st.LatUs)*time.Microsecond, apply)
	switch {
	case out.Fault == "" || strings.HasSuffix(out.Fault, "slow"):
		return nil
	case out.Fault == "dead" || out.Fault == "ctx_cancel":
		return context.Canceled
	}
	return &sims3.InjectedError{Kind: out.Fault, Op: op, Key: key}
}

func (a *w5s3) PutObject(ctx context.Context, in *s3.PutObjectInput, _ ...func(*s3.Options)) (*s3.PutObjectOutput, error) {
	body, err := io.ReadAll(in.Body)
	if err != nil {
		return nil, err
	}
	if in.ContentLength != nil && *in.ContentLength != int64(len(body)) {
		return nil, &w5apiErr{"IncompleteBody", "content length does not match body"}
	}
	if err := a.st.Put(ctx, "put.object", aws.ToString(in.Key), body); err != nil {
		return nil, err
	}
	return &s3.PutObjectOutput{}, nil
}

func (a *w5s3) CreateMultipartUpload(ctx context.Context, in *s3.CreateMultipartUploadInput, _ ...func(*s3.Options)) (*s3.CreateMultipartUploadOutput, error) {
	var id string
	err := a.op(ctx, "mp.create", aws.ToString(in.Key), func() {
		a.seq++
		id = fmt.Sprintf("mpu-%04d", a.seq)
		a.uploads[id] = &w5upload{key: aws.ToString(in.Key), parts: map[int32][]byte{}, etags: map[int32]string{}}
	})
	if err != nil {
		return nil, err
	}
	return &s3.CreateMultipartUploadOutput{UploadId: aws.String(id)}, nil
}

func (a *w5s3) UploadPart(ctx context.Context, in *s3.UploadPartInput, _ ...func(*s3.Options)) (*s3.UploadPartOutput, error) {
	u := a.uploads[aws.ToString(in.UploadId)]
	if u == nil || u.completed || u.aborted {
		return nil, &w5apiErr{"NoSuchUpload", "the multipart upload does not exist"}
	}
	n := aws.ToInt32(in.PartNumber)
	var etag string
	var rerr error
	a.partsInFlight++
	if a.partsInFlight > 1 {
		simrt.Probe("w5.part-uploads-overlap")
	}
	defer func() { a.partsInFlight-- }()
	var atCall []byte
	if sk, ok := in.Body.(io.ReadSeeker); ok {
		// (like the SDK, which hashes a seekable body and seeks back to where it FOUND it: a reader handed over
		// already consumed is sent as an empty body, it is not rewound to its beginning)
		pos, _ := sk.Seek(0, io.SeekCurrent)
		atCall, _ = io.ReadAll(sk)
		_, _ = sk.Seek(pos, io.SeekStart)
	}
	// the body is consumed while the request is on the wire, i.e. when the simulated transfer completes,
	// not when the call is made: a caller that reuses its buffer too early sends something else
	err := a.op(ctx, "mp.part", fmt.Sprintf("%s#%d", u.key, n), func() {
		body, e := io.ReadAll(in.Body)
		if e != nil {
			rerr = e
			return
		}
		if atCall != nil && string(atCall) != string(body) {
			simrt.Probe("w5.part-body-changed-on-the-wire")
		}
		sum := md5.Sum(body)
		etag = `"` + hex.EncodeToString(sum[:]) + `"`
		u.parts[n] = body
		u.etags[n] = etag
	})
	if err != nil {
		return nil, err
	}
	if rerr != nil {
		return nil, rerr
	}
	return &s3.UploadPartOutput{ETag: aws.String(etag)}, nil
}

func (a *w5s3) CompleteMultipartUpload(ctx context.Context, in *s3.CompleteMultipartUploadInput, _ ...func(*s3.Options)) (*s3.CompleteMultipartUploadOutput, error) {
	u := a.uploads[aws.ToString(in.UploadId)]
	if u == nil || u.aborted {
		return nil, &w5apiErr{"NoSuchUpload", "the multipart upload does not exist"}
	}
	if u.completed {
		return &s3.CompleteMultipartUploadOutput{}, nil
	}
	if in.MultipartUpload == nil || len(in.MultipartUpload.Parts) == 0 {
		return nil, &w5apiErr{"MalformedXML", "no parts listed"}
	}
	var all []byte
	last := int32(0)
	for i, p := range in.MultipartUpload.Parts {
		n := aws.ToInt32(p.PartNumber)
		if n <= last {
			return nil, &w5apiErr{"InvalidPartOrder", "parts must be listed in ascending order"}
		}
		last = n
		b, ok := u.parts[n]
		if !ok || u.etags[n] != aws.ToString(p.ETag) {
			return nil, &w5apiErr{"InvalidPart", fmt.Sprintf("part %d not found or etag mismatch", n)}
		}
		if i < len(in.MultipartUpload.Parts)-1 && int64(len(b)) < a.minPart {
			return nil, &w5apiErr{"EntityTooSmall", fmt.Sprintf("part %d is smaller than the minimum", n)}
		}
		all = append(all, b...)
	}
	// the assembled object becomes visible atomically
	if err := a.st.Put(ctx, "mp.complete", u.key, all); err != nil {
		if _, ok := a.st.Peek(u.key); ok {
			u.completed = true // applied although the caller saw an error
		}
		return nil, err
	}
	u.completed = true
	return &s3.CompleteMultipartUploadOutput{}, nil
}

func (a *w5s3) AbortMultipartUpload(ctx context.Context, in *s3.AbortMultipartUploadInput, _ ...func(*s3.Options)) (*s3.AbortMultipartUploadOutput, error) {
	u := a.uploads[aws.ToString(in.UploadId)]
	if u == nil {
		return nil, &w5apiErr{"NoSuchUpload", "the multipart upload does not exist"}
	}
	err := a.op(ctx, "mp.abort", u.key, func() {
		if !u.completed {
			u.aborted = true
		}
	})
	if err != nil {
		return nil, err
	}
	return &s3.AbortMultipartUploadOutput{}, nil
}

// errAfterReader fails after n bytes.
type errAfterReader struct {
	r io.Reader
	n int
}

func (e *errAfterReader) Read(p []byte) (int, error) {
	if e.n <= 0 {
		return 0, errors.New("sims3: connection reset while reading body (injected)")
	}
	if len(p) > e.n {
		p = p[:e.n]
	}
	n, err := e.r.Read(p)
	e.n -= n
	return n, err
}

func (a *w5s3) GetObject(ctx context.Context, in *s3.GetObjectInput, _ ...func(*s3.Options)) (*s3.GetObjectOutput, error) {
	key := aws.ToString(in.Key)
	data, err := a.st.Get(ctx, "get.object", key, nil)
	if err != nil {
		if errors.Is(err, sims3.ErrNotFound) {
			return nil, &w5apiErr{"NoSuchKey", "the specified key does not exist"}
		}
		return nil, err
	}
	declared := int64(len(data))
	var body io.Reader = bytes.NewReader(data)
	if s := simrt.Current(); s != nil {
		switch f, arg := s.PeekFault("s3.body", key); f {
		case "s3.body.extend":
			extra := make([]byte, 1+int(uint64(arg)%64))
			for i := range extra {
				extra[i] = byte(arg >> uint(i%40))
			}
			body = io.MultiReader(body, bytes.NewReader(extra))
			s.Probe("w5.body-extended")
		case "s3.body.err":
			if len(data) > 0 {
				body = &errAfterReader{r: body, n: int(uint64(arg) % uint64(len(data)))}
				s.Probe("w5.body-error")
			}
		}
	}
	ct := "application/octet-stream"
	return &s3.GetObjectOutput{Body: io.NopCloser(body), ContentLength: aws.Int64(declared), ContentType: aws.String(ct)}, nil
}

func (a *w5s3) DeleteObject(ctx context.Context, in *s3.DeleteObjectInput, _ ...func(*s3.Options)) (*s3.DeleteObjectOutput, error) {
	if err := a.st.Delete(ctx, "delete.object", aws.ToString(in.Key)); err != nil {
		return nil, err
	}
	return &s3.DeleteObjectOutput{}, nil
}

func (a *w5s3) HeadBucket(ctx context.Context, in *s3.HeadBucketInput, _ ...func(*s3.Options)) (*s3.HeadBucketOutput, error) {
	if err := a.op(ctx, "head.bucket", aws.ToString(in.Bucket), nil); err != nil {
		return nil, err
	}
	return &s3.HeadBucketOutput{}, nil
}

func (a *w5s3) CreateBucket(ctx context.Context, in *s3.CreateBucketInput, _ ...func(*s3.Options)) (*s3.CreateBucketOutput, error) {
	return &s3.CreateBucketOutput{}, nil
}

// w5reader is pkg/lfs's S3Reader over the same store.
type w5reader struct{ api *w5s3 }

func (r w5reader) Fetch(ctx context.Context, key string) ([]byte, error) {
	out, err := r.api.GetObject(ctx, &s3.GetObjectInput{Key: aws.String(key)})
	if err != nil {
		return nil, err
	}
	defer out.Body.Close()
	return io.ReadAll(out.Body)
}

func (r w5reader) Stream(ctx context.Context, key string) (io.ReadCloser, int64, error) {
	out, err := r.api.GetObject(ctx, &s3.GetObjectInput{Key: aws.String(key)})
	if err != nil {
		return nil, 0, err
	}
	return out.Body, aws.ToInt64(out.ContentLength), nil
}
