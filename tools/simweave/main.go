// simweave rewrites repo source files at check time so that every lock
// operation, condition-variable operation, goroutine start and map range goes
// through verif/sim/simrt. Output: woven copies under -out plus overlay.json
// ({"Replace": {orig: woven}}) for `go build -overlay`. /repo is never written.
package main

import (
	"bytes"
	"encoding/json"
	"flag"
	"fmt"
	"go/ast"
	"go/format"
	"go/token"
	"go/types"
	"os"
	"path/filepath"
	"sort"
	"strings"

	"golang.org/x/tools/go/ast/astutil"
	"golang.org/x/tools/go/packages"
)

var (
	dir      = flag.String("dir", "/repo", "module root to load packages from")
	out      = flag.String("out", "", "output directory for woven files")
	modfile  = flag.String("modfile", "", "-modfile to pass to go list")
	yieldAll = flag.Bool("yield-sync", true, "insert yields before atomic and channel operations")
	seams    = flag.Bool("seams", true, "redirect net.Listen/Dial and clientv3.New")
	skip     = flag.String("skip", "/pkg/gen/,/api/", "comma separated path fragments to leave alone")
)

type weaver struct {
	fset  *token.FileSet
	info  *types.Info
	pkg   string
	fn    string
	count map[string]int
	stats map[string]int
	tmp   int
	used  bool
	usedEtcd bool
}

func (w *weaver) site(kind string) *ast.BasicLit {
	k := w.fn + "#" + kind
	n := w.count[k]
	w.count[k] = n + 1
	w.stats[kind]++
	w.used = true
	return &ast.BasicLit{Kind: token.STRING, Value: fmt.Sprintf("%q", fmt.Sprintf("%s.%s#%s%d", w.pkg, w.fn, kind, n))}
}

func simcall(name string, args ...ast.Expr) *ast.CallExpr {
	return &ast.CallExpr{Fun: &ast.SelectorExpr{X: ast.NewIdent("simrt"), Sel: ast.NewIdent(name)}, Args: args}
}

func (w *weaver) methodName(call *ast.CallExpr) (string, *ast.SelectorExpr) {
	sel, ok := call.Fun.(*ast.SelectorExpr)
	if !ok {
		return "", nil
	}
	if s := w.info.Selections[sel]; s != nil {
		if f, ok := s.Obj().(*types.Func); ok {
			return f.FullName(), sel
		}
		return "", nil
	}
	if f, ok := w.info.Uses[sel.Sel].(*types.Func); ok {
		return f.FullName(), sel
	}
	return "", nil
}

func (w *weaver) addr(x ast.Expr) ast.Expr {
	if t := w.info.TypeOf(x); t != nil {
		if _, isPtr := t.Underlying().(*types.Pointer); isPtr {
			return x
		}
	}
	return &ast.UnaryExpr{Op: token.AND, X: x}
}

// rewriteCall returns a replacement for call or nil.
func (w *weaver) rewriteCall(call *ast.CallExpr) ast.Expr {
	name, sel := w.methodName(call)
	if name == "" {
		return nil
	}
	switch name {
	case "(*sync.Mutex).Lock":
		return simcall("Lock", w.addr(sel.X), w.site("lock"))
	case "(*sync.Mutex).Unlock":
		w.used = true
		return simcall("Unlock", w.addr(sel.X))
	case "(*sync.Mutex).TryLock":
		return simcall("TryLock", w.addr(sel.X), w.site("trylock"))
	case "(*sync.RWMutex).Lock":
		return simcall("WLock", w.addr(sel.X), w.site("lock"))
	case "(*sync.RWMutex).Unlock":
		w.used = true
		return simcall("WUnlock", w.addr(sel.X))
	case "(*sync.RWMutex).RLock":
		return simcall("RLock", w.addr(sel.X), w.site("rlock"))
	case "(*sync.RWMutex).RUnlock":
		w.used = true
		return simcall("RUnlock", w.addr(sel.X))
	case "(*sync.Cond).Wait":
		return simcall("CondWait", w.addr(sel.X), w.site("condwait"))
	case "(*sync.Cond).Signal":
		w.used = true
		return simcall("CondSignal", w.addr(sel.X))
	case "(*sync.Cond).Broadcast":
		w.used = true
		return simcall("CondBroadcast", w.addr(sel.X))
	case "(*golang.org/x/sync/errgroup.Group).Go":
		if len(call.Args) == 1 {
			call.Args[0] = simcall("WrapErr", w.site("eg"), call.Args[0])
		}
		return nil
	case "time.AfterFunc":
		if len(call.Args) == 2 {
			call.Args[1] = simcall("WrapVoid", w.site("afterfunc"), call.Args[1])
		}
		return nil
	}
	if *seams {
		switch name {
		case "net.Listen":
			w.used = true
			w.stats["seam"]++
			return simcall("Listen", call.Args...)
		case "net.Dial":
			w.used = true
			w.stats["seam"]++
			return simcall("Dial", call.Args...)
		case "net.DialTimeout":
			w.used = true
			w.stats["seam"]++
			return simcall("DialTimeout", call.Args...)
		case "(*net.Dialer).DialContext":
			w.used = true
			w.stats["seam"]++
			return simcall("DialerDialContext", append([]ast.Expr{w.addr(sel.X)}, call.Args...)...)
		case "github.com/google/uuid.NewString":
			w.used = true
			w.stats["seam"]++
			return simcall("UUIDString")
		case "go.etcd.io/etcd/client/v3.New":
			w.usedEtcd = true
			w.stats["seam"]++
			return &ast.CallExpr{Fun: &ast.SelectorExpr{X: ast.NewIdent("simetcd"), Sel: ast.NewIdent("New")}, Args: call.Args}
		}
	}
	return nil
}

// rewriteMethodValue turns the method values of the sync primitives (mu.Unlock used as a func value)
// into closures over the simulator's versions; without it the real method would run behind the
// simulator's back and its lock table would go stale.
func (w *weaver) rewriteMethodValue(sel *ast.SelectorExpr) ast.Expr {
	s := w.info.Selections[sel]
	if s == nil || s.Kind() != types.MethodVal {
		return nil
	}
	f, ok := s.Obj().(*types.Func)
	if !ok {
		return nil
	}
	switch f.FullName() {
	case "(*sync.Mutex).Lock":
		w.used = true
		w.stats["methodvalue"]++
		return simcall("LockFn", w.addr(sel.X), w.site("lock"))
	case "(*sync.Mutex).Unlock":
		w.used = true
		w.stats["methodvalue"]++
		return simcall("UnlockFn", w.addr(sel.X))
	case "(*sync.RWMutex).Lock":
		w.used = true
		w.stats["methodvalue"]++
		return simcall("WLockFn", w.addr(sel.X), w.site("lock"))
	case "(*sync.RWMutex).Unlock":
		w.used = true
		w.stats["methodvalue"]++
		return simcall("WUnlockFn", w.addr(sel.X))
	case "(*sync.RWMutex).RLock":
		w.used = true
		w.stats["methodvalue"]++
		return simcall("RLockFn", w.addr(sel.X), w.site("rlock"))
	case "(*sync.RWMutex).RUnlock":
		w.used = true
		w.stats["methodvalue"]++
		return simcall("RUnlockFn", w.addr(sel.X))
	case "(*sync.Cond).Wait", "(*sync.Cond).Signal", "(*sync.Cond).Broadcast", "(*sync.Mutex).TryLock":
		fmt.Fprintf(os.Stderr, "simweave: unsupported method value %s in %s\n", f.FullName(), w.fn)
		os.Exit(3)
	}
	return nil
}

func (w *weaver) tmpName(p string) *ast.Ident {
	w.tmp++
	return ast.NewIdent(fmt.Sprintf("_sim%s%d", p, w.tmp))
}

func (w *weaver) isConst(e ast.Expr) bool {
	tv, ok := w.info.Types[e]
	if !ok {
		return false
	}
	if tv.Value != nil || tv.IsNil() {
		return true
	}
	return false
}

// rewriteGo turns `go f(a, b)` into { _f := f; _a := a; simrt.Go(site, func(){ _f(_a, b) }) }.
func (w *weaver) rewriteGo(g *ast.GoStmt) ast.Stmt {
	call := g.Call
	var pre []ast.Stmt
	fun := call.Fun
	bind := true
	switch x := fun.(type) {
	case *ast.FuncLit:
		bind = false
	case *ast.Ident:
		switch w.info.Uses[x].(type) {
		case *types.Func, *types.Builtin:
			bind = false
		}
	case *ast.SelectorExpr:
		if w.info.Selections[x] == nil {
			if _, ok := w.info.Uses[x.Sel].(*types.Func); ok {
				bind = false // pkg.Func
			}
		}
	}
	if bind {
		f := w.tmpName("f")
		pre = append(pre, &ast.AssignStmt{Lhs: []ast.Expr{f}, Tok: token.DEFINE, Rhs: []ast.Expr{fun}})
		fun = f
	}
	args := make([]ast.Expr, len(call.Args))
	for i, a := range call.Args {
		if w.isConst(a) {
			args[i] = a
			continue
		}
		if _, isLit := a.(*ast.FuncLit); isLit {
			args[i] = a
			continue
		}
		v := w.tmpName("a")
		pre = append(pre, &ast.AssignStmt{Lhs: []ast.Expr{v}, Tok: token.DEFINE, Rhs: []ast.Expr{a}})
		args[i] = v
	}
	inner := &ast.CallExpr{Fun: fun, Args: args, Ellipsis: call.Ellipsis}
	lit := &ast.FuncLit{Type: &ast.FuncType{Params: &ast.FieldList{}}, Body: &ast.BlockStmt{List: []ast.Stmt{&ast.ExprStmt{X: inner}}}}
	spawn := &ast.ExprStmt{X: simcall("Go", w.site("go"), lit)}
	if len(pre) == 0 {
		return spawn
	}
	return &ast.BlockStmt{List: append(pre, spawn)}
}

func simpleExpr(e ast.Expr) bool {
	switch x := e.(type) {
	case *ast.Ident:
		return true
	case *ast.SelectorExpr:
		return simpleExpr(x.X)
	case *ast.ParenExpr:
		return simpleExpr(x.X)
	case *ast.StarExpr:
		return simpleExpr(x.X)
	case *ast.IndexExpr:
		return simpleExpr(x.X) && simpleExpr(x.Index)
	case *ast.BasicLit:
		return true
	}
	return false
}

func isBlank(e ast.Expr) bool {
	id, ok := e.(*ast.Ident)
	return ok && id.Name == "_"
}

// rewriteRange makes map iteration order deterministic.
func (w *weaver) rewriteRange(r *ast.RangeStmt) {
	t := w.info.TypeOf(r.X)
	if t == nil {
		return
	}
	if _, ok := t.Underlying().(*types.Map); !ok {
		return
	}
	if !simpleExpr(r.X) {
		w.stats["maprange-left-real"]++
		return
	}
	w.site("maprange")
	m := r.X
	var keyVar ast.Expr
	var prologue []ast.Stmt
	okv := w.tmpName("ok")
	if r.Tok == token.DEFINE {
		if r.Key == nil || isBlank(r.Key) {
			keyVar = w.tmpName("k")
		} else {
			keyVar = r.Key
		}
		if r.Value != nil && !isBlank(r.Value) {
			prologue = append(prologue, &ast.AssignStmt{Lhs: []ast.Expr{r.Value, okv}, Tok: token.DEFINE, Rhs: []ast.Expr{&ast.IndexExpr{X: m, Index: keyVar}}})
			prologue = append(prologue, &ast.AssignStmt{Lhs: []ast.Expr{ast.NewIdent("_")}, Tok: token.ASSIGN, Rhs: []ast.Expr{r.Value}})
		} else {
			prologue = append(prologue, &ast.AssignStmt{Lhs: []ast.Expr{ast.NewIdent("_"), okv}, Tok: token.DEFINE, Rhs: []ast.Expr{&ast.IndexExpr{X: m, Index: keyVar}}})
		}
	} else {
		// assignment form (or no variables at all)
		kv := w.tmpName("k")
		keyVar = kv
		if r.Key != nil && !isBlank(r.Key) {
			prologue = append(prologue, &ast.AssignStmt{Lhs: []ast.Expr{r.Key}, Tok: token.ASSIGN, Rhs: []ast.Expr{kv}})
		}
		prologue = append(prologue, &ast.DeclStmt{Decl: &ast.GenDecl{Tok: token.VAR, Specs: []ast.Spec{&ast.ValueSpec{Names: []*ast.Ident{okv}, Type: ast.NewIdent("bool")}}}})
		lhs0 := ast.Expr(ast.NewIdent("_"))
		if r.Value != nil && !isBlank(r.Value) {
			lhs0 = r.Value
		}
		prologue = append(prologue, &ast.AssignStmt{Lhs: []ast.Expr{lhs0, okv}, Tok: token.ASSIGN, Rhs: []ast.Expr{&ast.IndexExpr{X: m, Index: kv}}})
	}
	prologue = append(prologue, &ast.IfStmt{Cond: &ast.UnaryExpr{Op: token.NOT, X: okv}, Body: &ast.BlockStmt{List: []ast.Stmt{&ast.BranchStmt{Tok: token.CONTINUE}}}})
	r.X = simcall("MapKeys", m)
	r.Key = ast.NewIdent("_")
	r.Value = keyVar
	r.Tok = token.DEFINE
	r.Body.List = append(prologue, r.Body.List...)
}

func (w *weaver) isAtomicCall(call *ast.CallExpr) bool {
	name, _ := w.methodName(call)
	return strings.HasPrefix(name, "sync/atomic.") || strings.HasPrefix(name, "(*sync/atomic.")
}

// needsYield reports whether stmt (not descending into nested blocks/func
// literals) contains a channel or atomic operation.
func (w *weaver) needsYield(stmt ast.Stmt) bool {
	switch s := stmt.(type) {
	case *ast.SelectStmt:
		return true
	case *ast.SendStmt:
		return true
	case *ast.BlockStmt, *ast.IfStmt, *ast.ForStmt, *ast.RangeStmt, *ast.SwitchStmt, *ast.TypeSwitchStmt, *ast.LabeledStmt, *ast.CaseClause, *ast.CommClause, *ast.DeferStmt, *ast.GoStmt, *ast.ReturnStmt:
		_ = s
		return false
	}
	found := false
	ast.Inspect(stmt, func(n ast.Node) bool {
		if found {
			return false
		}
		switch x := n.(type) {
		case *ast.FuncLit:
			return false
		case *ast.UnaryExpr:
			if x.Op == token.ARROW {
				found = true
			}
		case *ast.CallExpr:
			if w.isAtomicCall(x) {
				found = true
			}
			if id, ok := x.Fun.(*ast.Ident); ok && id.Name == "close" {
				if _, isB := w.info.Uses[id].(*types.Builtin); isB {
					found = true
				}
			}
		}
		return true
	})
	return found
}

func (w *weaver) yieldStmts(list []ast.Stmt) []ast.Stmt {
	var outl []ast.Stmt
	for _, st := range list {
		if w.needsYield(st) {
			outl = append(outl, &ast.ExprStmt{X: simcall("Yield", w.site("sync"))})
		}
		outl = append(outl, st)
	}
	return outl
}

func funcName(d *ast.FuncDecl) string {
	if d.Recv != nil && len(d.Recv.List) == 1 {
		t := d.Recv.List[0].Type
		if s, ok := t.(*ast.StarExpr); ok {
			t = s.X
		}
		if ix, ok := t.(*ast.IndexExpr); ok {
			t = ix.X
		}
		if id, ok := t.(*ast.Ident); ok {
			return id.Name + "." + d.Name.Name
		}
	}
	return d.Name.Name
}

func (w *weaver) weaveFile(f *ast.File) bool {
	w.used = false
	for _, decl := range f.Decls {
		fd, ok := decl.(*ast.FuncDecl)
		if !ok {
			// package-level var initialisers with func literals are left alone
			continue
		}
		if fd.Body == nil {
			continue
		}
		w.fn = funcName(fd)
		astutil.Apply(fd.Body, func(c *astutil.Cursor) bool {
			switch n := c.Node().(type) {
			case *ast.RangeStmt:
				w.rewriteRange(n)
			}
			return true
		}, func(c *astutil.Cursor) bool {
			switch n := c.Node().(type) {
			case *ast.CallExpr:
				if r := w.rewriteCall(n); r != nil {
					c.Replace(r)
				}
			case *ast.GoStmt:
				c.Replace(w.rewriteGo(n))
			case *ast.SelectorExpr:
				// a method value (x.Unlock handed around as a func): calls are handled above
				if call, ok := c.Parent().(*ast.CallExpr); ok && call.Fun == n {
					break
				}
				if r := w.rewriteMethodValue(n); r != nil {
					c.Replace(r)
				}
			case *ast.BlockStmt:
				if *yieldAll {
					n.List = w.yieldStmts(n.List)
				}
			case *ast.CaseClause:
				if *yieldAll {
					n.Body = w.yieldStmts(n.Body)
				}
			case *ast.CommClause:
				if *yieldAll {
					n.Body = w.yieldStmts(n.Body)
				}
			}
			return true
		})
	}
	return w.used
}

func main() {
	flag.Parse()
	if *out == "" {
		fmt.Fprintln(os.Stderr, "usage: simweave -out DIR [-dir MODROOT] patterns...")
		os.Exit(2)
	}
	env := os.Environ()
	cfg := &packages.Config{
		Mode: packages.NeedName | packages.NeedFiles | packages.NeedCompiledGoFiles | packages.NeedImports |
			packages.NeedTypes | packages.NeedTypesSizes | packages.NeedSyntax | packages.NeedTypesInfo,
		Dir: *dir,
		Env: env,
	}
	if *modfile != "" {
		cfg.BuildFlags = append(cfg.BuildFlags, "-modfile="+*modfile)
	}
	pkgs, err := packages.Load(cfg, flag.Args()...)
	if err != nil {
		fmt.Fprintln(os.Stderr, "load:", err)
		os.Exit(2)
	}
	bad := false
	for _, p := range pkgs {
		for _, e := range p.Errors {
			fmt.Fprintln(os.Stderr, "pkg error:", p.PkgPath, e)
			bad = true
		}
	}
	if bad {
		os.Exit(2)
	}
	skips := strings.Split(*skip, ",")
	replace := map[string]string{}
	summary := map[string]map[string]int{}
	sort.Slice(pkgs, func(i, j int) bool { return pkgs[i].PkgPath < pkgs[j].PkgPath })
	for _, p := range pkgs {
		skipPkg := false
		for _, s := range skips {
			if s != "" && strings.Contains(p.PkgPath+"/", s) {
				skipPkg = true
			}
		}
		if skipPkg {
			continue
		}
		w := &weaver{fset: p.Fset, info: p.TypesInfo, pkg: p.Name, count: map[string]int{}, stats: map[string]int{}}
		for i, f := range p.Syntax {
			path := p.CompiledGoFiles[i]
			if strings.HasSuffix(path, "_test.go") || !strings.HasSuffix(path, ".go") {
				continue
			}
			w.usedEtcd = false
			if !w.weaveFile(f) && !w.usedEtcd {
				continue
			}
			if w.used {
				astutil.AddNamedImport(p.Fset, f, "simrt", "verif/sim/simrt")
			}
			if w.usedEtcd {
				astutil.AddNamedImport(p.Fset, f, "simetcd", "verif/sim/simetcd")
			}
			// a seam may have replaced the only use of an import
			for _, imp := range []string{"github.com/google/uuid", "net"} {
				if !astutil.UsesImport(f, imp) {
					astutil.DeleteImport(p.Fset, f, imp)
				}
			}
			var buf bytes.Buffer
			if err := format.Node(&buf, p.Fset, f); err != nil {
				fmt.Fprintln(os.Stderr, "format:", path, err)
				os.Exit(2)
			}
			rel, err := filepath.Rel(*dir, path)
			if err != nil || strings.HasPrefix(rel, "..") {
				rel = strings.TrimPrefix(path, "/")
			}
			dst := filepath.Join(*out, rel)
			if err := os.MkdirAll(filepath.Dir(dst), 0o755); err != nil {
				panic(err)
			}
			if err := os.WriteFile(dst, buf.Bytes(), 0o644); err != nil {
				panic(err)
			}
			replace[path] = dst
		}
		if len(w.stats) > 0 {
			summary[p.PkgPath] = w.stats
		}
	}
	ov, _ := json.MarshalIndent(map[string]any{"Replace": replace}, "", " ")
	if err := os.WriteFile(filepath.Join(*out, "overlay.json"), ov, 0o644); err != nil {
		panic(err)
	}
	sm, _ := json.MarshalIndent(summary, "", " ")
	os.WriteFile(filepath.Join(*out, "weave-summary.json"), sm, 0o644)
	fmt.Printf("simweave: %d files woven in %d packages\n", len(replace), len(summary))
}
