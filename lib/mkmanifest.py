#!/usr/bin/env python3
"""Regenerates /verif/MANIFEST.json from lib/worlds.py (PROPS, NA)."""
import json, os, sys
sys.path.insert(0, os.path.dirname(os.path.abspath(__file__)))
from worlds import PROPS, NA, WORLDS
V = os.path.dirname(os.path.dirname(os.path.abspath(__file__)))
allids = [json.loads(l)["id"] for l in open(os.path.join(V, "properties.jsonl"))]
na = dict(NA)
for i in allids:
    if i not in PROPS and i not in na:
        na[i] = "not claimed yet: designed in DESIGN.md section 5 but its check is not built at this commit"
checks = []
for pid in sorted(PROPS):
    p = PROPS[pid]
    checks.append({
        "property_id": pid,
        "quick_cmd": "./check %s --tier quick" % pid,
        "thorough_cmd": "./check %s --tier thorough" % pid,
        "evidence_file": "/verif/evidence/%s.json" % pid,
        "replay_cmd_template": "./check %s --replay {path}" % pid,
        "engine": "simrt/" + p["world"],
        "level_claimed": {"category": "exploration", "text": p.get("level_text", "seeded search over schedules, fault plans and generated workloads in the deterministic simulator; oracle evaluated during and after each run"), "design_ref": p.get("design_ref", "DESIGN.md section 5, " + pid)},
        "level_note": p.get("level_note", "trusted base: simrt kernel and weaver, stub fidelity (sims3 / store decorator / SimEtcd), the independent reference models in the harness; sampling not enumeration"),
        "technique": p.get("technique", "deterministic simulation with fault injection (seeded schedule/fault search, real code woven under a simulated scheduler/clock/S3/store)"),
    })
m = {
    "version": 1,
    "setup_cmd": "./setup.sh",
    "hooks": {"guard": "verif", "enable": "no source hooks in /repo: checks weave /repo's working tree at check time (tools/simweave -> go build -overlay, harness files overlaid into the target package with -tags verif)", "baseline_off_cmd": "cd /repo && for m in $(cat /w/out/gomods.txt); do MF=$(cd /repo/$m && . /w/out/goenv.sh && gomodflag); (cd /repo/$m && go test $MF -json -vet=off -count=1 -timeout 25m ./...); done", "source_commits": [], "add_only": True},
    "engines": [{"name": "simrt/" + w, "path": "/verif/harness/" + WORLDS[w]["harness"], "serves_properties": sorted(k for k in PROPS if PROPS[k]["world"] == w), "kind_free_text": "deterministic simulation world " + w + " (real repo code woven under simrt)"} for w in sorted(WORLDS)],
    "checks": checks,
    "not_applicable": [{"property_id": k, "reason": v} for k, v in sorted(na.items())],
    "notes": "All checks: ./check <id> [--tier quick|thorough] [--replay file]; exit 0 held / 1 VIOLATION / 2 machinery trouble. Known findings: /verif/known-findings.json.",
}
json.dump(m, open(os.path.join(V, "MANIFEST.json"), "w"), indent=1)
print("MANIFEST.json: %d checks, %d not applicable" % (len(checks), len(m["not_applicable"])))
