#!/usr/bin/env python3
"""Evaluate seeded defects against the checks.

usage: seedeval.py [--from DIR] [--tier quick|thorough] [--runs N] [--props C01,C02] ID...
  ID is a directory name such as C02-m1, looked up under --from (default /tmp/mut/out)
  and copied to /verif/seeded/ID/ (patch.diff, demo_test.go, meta.json) if not there yet.

For each defect: apply patch.diff to /repo, run ./check for its property (and any
extra --props), record whether a VIOLATION was reported, undo the patch. /repo must be
clean before and is left clean. Results go to /verif/seeded/ID/result.json.
"""
import argparse, json, os, re, shutil, subprocess, sys, time

VERIF = os.path.dirname(os.path.dirname(os.path.abspath(__file__)))
REPO = os.environ.get("VERIF_REPO", "/repo")  # a scratch worktree of /repo when something else is using /repo itself


def sh(cmd, **kw):
    return subprocess.run(cmd, shell=True, text=True, capture_output=True, **kw)


def main():
    ap = argparse.ArgumentParser()
    ap.add_argument("--from", dest="src", default="/tmp/mut/out")
    ap.add_argument("--tier", default="quick")
    ap.add_argument("--runs", type=int, default=0)
    ap.add_argument("--props", default="")
    ap.add_argument("ids", nargs="+")
    a = ap.parse_args()
    if sh(f"git -C {REPO} status --porcelain").stdout.strip():
        print("seedeval: /repo is not clean", file=sys.stderr)
        return 2
    rc = 0
    for mid in a.ids:
        dst = os.path.join(VERIF, "seeded", mid)
        src = os.path.join(a.src, mid)
        if not os.path.isdir(dst):
            if not os.path.isfile(os.path.join(src, "patch.diff")):
                print(f"{mid}: no patch.diff under {src}")
                continue
            os.makedirs(dst)
            for f in ("patch.diff", "demo_test.go", "meta.json"):
                if os.path.isfile(os.path.join(src, f)):
                    shutil.copy(os.path.join(src, f), dst)
        patch = os.path.join(dst, "patch.diff")
        prop = mid.split("-")[0]
        props = [prop] + [p for p in a.props.split(",") if p and p != prop]
        chk = sh(f"git -C {REPO} apply --check {patch}")
        if chk.returncode != 0:
            print(f"{mid}: patch does not apply: {chk.stderr.strip()[:200]}")
            json.dump({"id": mid, "applies": False, "error": chk.stderr.strip()[:400]}, open(os.path.join(dst, "result.json"), "w"), indent=1)
            continue
        sh(f"git -C {REPO} apply {patch}")
        results = {}
        try:
            for p in props:
                t0 = time.time()
                cmd = f"cd {VERIF} && ./check {p} --tier {a.tier} --no-evidence" + (f" --runs {a.runs}" if a.runs else "")
                r = sh(cmd)
                out = r.stdout + r.stderr
                clauses = sorted(set(re.findall(r"clause=(\S+)", out)))
                results[p] = {"exit": r.returncode, "caught": r.returncode == 1 and "VIOLATION property=" + p in out, "clauses": clauses[:8],
                              "check_error": "CHECK-ERROR" in out, "wall_s": round(time.time() - t0, 1),
                              "summary": [l for l in out.splitlines() if l.startswith("check ")][-1:]}
        finally:
            sh(f"git -C {REPO} apply -R {patch}")
            if sh(f"git -C {REPO} status --porcelain").stdout.strip():
                sh(f"git -C {REPO} checkout -- .")
        caught = any(v["caught"] for v in results.values())
        meta = {}
        try:
            meta = json.load(open(os.path.join(dst, "meta.json")))
        except Exception:
            pass
        json.dump({"id": mid, "applies": True, "tier": a.tier, "runs": a.runs, "caught": caught, "by": results, "summary": meta.get("summary", "")}, open(os.path.join(dst, "result.json"), "w"), indent=1)
        print(f"{mid}: {'CAUGHT' if caught else 'MISSED'} " + "; ".join(f"{p}: exit {v['exit']} {','.join(v['clauses'][:3])}" for p, v in results.items()))
        if not caught:
            rc = 1
    # replays written while a defect was applied are not evidence about the tree
    shutil.rmtree(os.path.join(VERIF, "replays"), ignore_errors=True)
    return rc


if __name__ == "__main__":
    sys.exit(main())
