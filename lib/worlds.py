# World and property tables for ./check.
MAIN_WEAVE = ["./pkg/...", "./cmd/broker/", "./cmd/proxy/", "./internal/..."]

WORLDS = {
    "w1": {"pkg": "cmd/broker", "harness": "w1", "weave": MAIN_WEAVE},
}

def P(world, **kw):
    d = {"world": world}
    d.update(kw)
    return d

PROPS = {
    "C01": P("w1", quick_runs=4000, thorough_runs=300000, quick_budget_s=100, thorough_budget_s=1500,
             assumptions=["flush-on-ack (default) mode"]),
    "C05": P("w1", quick_runs=4000, thorough_runs=300000, quick_budget_s=100, thorough_budget_s=1500,
             assumptions=["flush-on-ack (default) mode", "topics are not deleted in this world"]),
}
