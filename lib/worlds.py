# World and property tables for ./check.
MAIN_WEAVE = ["./pkg/...", "./cmd/broker/", "./cmd/proxy/", "./internal/..."]

WORLDS = {
    "w1": {"pkg": "cmd/broker", "harness": "w1", "weave": MAIN_WEAVE},
    "wm": {"pkg": "internal/mcpserver", "harness": "wm", "weave": MAIN_WEAVE},
    "w2": {"pkg": "pkg/broker", "harness": "w2", "weave": MAIN_WEAVE},
    "w10": {"pkg": "pkg/cache", "harness": "w10", "weave": ["./pkg/cache/"]},
    "w11": {"pkg": "pkg/broker", "harness": "w11", "weave": MAIN_WEAVE},
    "w8": {"pkg": "internal/console", "harness": "w8", "weave": MAIN_WEAVE},
    "w3": {"pkg": "pkg/metadata", "harness": "w3", "weave": MAIN_WEAVE},
    "w4": {"pkg": "cmd/proxy", "harness": "w4", "weave": MAIN_WEAVE},
    "w7": {"pkg": "pkg/storage", "harness": "w7", "weave": ["./pkg/storage/"]},
}

def P(world, **kw):
    d = {"world": world}
    d.update(kw)
    return d

PROPS = {
    "C01": P("w1", quick_runs=4000, thorough_runs=300000, quick_budget_s=100, thorough_budget_s=1500,
             assumptions=["flush-on-ack (default) mode"]),
    "C05": P("w1", quick_runs=4000, thorough_runs=300000, quick_budget_s=100, thorough_budget_s=1500,
             assumptions=["flush-on-ack (default) mode", "topics are not deleted in this world"]),
    "C02": P("w1", quick_runs=4000, thorough_runs=300000, quick_budget_s=100, thorough_budget_s=1500),
    "C03": P("w1", quick_runs=3000, thorough_runs=200000, quick_budget_s=100, thorough_budget_s=1500),
    "C04": P("w1", quick_runs=3000, thorough_runs=200000, quick_budget_s=100, thorough_budget_s=1500, required_probes=["c04.judged"]),
    "C06": P("w1", quick_runs=3000, thorough_runs=200000, quick_budget_s=100, thorough_budget_s=1500, required_probes=["c06.verify"],
             assumptions=["flush-on-ack (default) mode"]),
    "C25": P("w1", quick_runs=3000, thorough_runs=150000, quick_budget_s=100, thorough_budget_s=1500,
             required_probes=["c25.produce-while-unhealthy", "c25.fetch-while-unhealthy", "c25.meta-sample"]),
    "C44": P("w1", quick_runs=3000, thorough_runs=150000, quick_budget_s=100, thorough_budget_s=1500,
             required_probes=["c44.download-judged", "c44.replica-lagging", "c44.replica-missing"]),
    "C41": P("w1", race=True, quick_runs=1200, thorough_runs=60000, quick_budget_s=120, thorough_budget_s=1800,
             technique="deterministic simulation under the Go race detector: the simulator's own hand-offs are hidden from the detector (RaceDisable), so it reports unsynchronised accesses of repo code along each explored schedule",
             level_note="as strong as the Go race detector along the explored schedules; reports whose two accesses are not both in repo code (harness/stub memory) are ignored"),
    "C22": P("w1", quick_runs=3000, thorough_runs=150000, quick_budget_s=100, thorough_budget_s=1200),
    "C24": P("w1", quick_runs=3000, thorough_runs=150000, quick_budget_s=100, thorough_budget_s=1200, required_probes=["c24.denied-item"]),
    "C11": P("w1", quick_runs=600, thorough_runs=20000, quick_budget_s=100, thorough_budget_s=900, required_probes=["c11.pair"],
             level_text="every run sweeps ALL (key, version) pairs the broker advertises (finite, enumerated) plus a sample of non-advertised versions, with generated request bodies, against a broker that is concurrently serving traffic in the simulator; deciding dimension is enumeration + generated inputs, the simulator hosts it",
             level_note="broker only at this commit: the proxy half of C11 is covered by the proxy world when present"),
    "C40": P("wm", quick_runs=3000, thorough_runs=100000, quick_budget_s=60, thorough_budget_s=600, required_probes=["c40.tool-call"],
             level_text="generated MCP tool invocations (every tool, generated arguments incl. unknown/empty names) run as simulated tasks against a store that broker-like writers mutate concurrently; oracle = write attribution (no mutation issued by an MCP task) + snapshot equality around isolated calls. Deciding dimension is the generated inputs; the simulator contributes the concurrent store and fault injection"),
    "C12": P("w2", quick_runs=3000, thorough_runs=200000, quick_budget_s=100, thorough_budget_s=1200, required_probes=["c12.sync-judged", "c12.complete-generation"]),
    "C13": P("w2", quick_runs=3000, thorough_runs=200000, quick_budget_s=100, thorough_budget_s=1200, required_probes=["c13.stale-request"]),
    "C14": P("w2", quick_runs=3000, thorough_runs=200000, quick_budget_s=100, thorough_budget_s=1200, required_probes=["c14.leader-success"]),
    "C15": P("w2", quick_runs=3000, thorough_runs=200000, quick_budget_s=100, thorough_budget_s=1200, required_probes=["c15.failover", "c15.probe"]),
    "C16": P("w2", quick_runs=3000, thorough_runs=200000, quick_budget_s=100, thorough_budget_s=1200, required_probes=["c16.fetch-judged"]),
    "C43": P("w2", quick_runs=3000, thorough_runs=200000, quick_budget_s=100, thorough_budget_s=1200, required_probes=["c43.overstay-judged"]),
    "C09": P("w10", quick_runs=6000, thorough_runs=400000, quick_budget_s=60, thorough_budget_s=900, required_probes=["c09.kept-slice", "c09.porcupine-ok"],
             technique="deterministic simulation (seeded interleavings of cache users at lock granularity) + structural invariants after every operation + porcupine linearizability check of each recorded history"),
    "C10": P("w11", quick_runs=6000, thorough_runs=400000, quick_budget_s=60, thorough_budget_s=900, panics_are_verdicts=True, required_probes=["c10.roundtrip-judged"],
             level_text="generated request frames (every API key the codec knows, every version, generated bodies) and header-targeted mutations are streamed to the real connection loop over simulated connections that fragment, end and reset at arbitrary bytes, several connections at once; a panic in any server task is the violation. The deciding dimension is the generated bytes; the simulator contributes the stream (fragmentation/EOF/reset) and the observation 'one connection's frame kills the node'"),
    "C26": P("w11", quick_runs=8000, thorough_runs=500000, quick_budget_s=60, thorough_budget_s=900, panics_are_verdicts=True, required_probes=["c26.complete-header", "c26.headerless", "c26.truncated-header"],
             level_text="generated PROXY v1/v2 headers (all families/commands, TLVs), header look-alikes and headerless streams, delivered in arbitrary fragments and cut at arbitrary bytes; mostly input generation, the simulator contributes the stream"),
    "C38": P("w8", quick_runs=4000, thorough_runs=300000, quick_budget_s=60, thorough_budget_s=900,
             required_probes=["c38.expired-token-used", "c38.logged-out-token-used", "c38.live-token-used", "c38.rate-limited"]),
    "C17": P("w3", quick_runs=2500, thorough_runs=150000, quick_budget_s=100, thorough_budget_s=1200, required_probes=["c17.op"]),
    "C18": P("w3", quick_runs=3000, thorough_runs=200000, quick_budget_s=100, thorough_budget_s=1500, required_probes=["c18.acquire", "c18.release"]),
    "C20": P("w3", quick_runs=2500, thorough_runs=150000, quick_budget_s=100, thorough_budget_s=1500, required_probes=["c20.judged"]),
    "C21": P("w3", quick_runs=2500, thorough_runs=150000, quick_budget_s=100, thorough_budget_s=1500, required_probes=["c21.judged", "c21.create-acked"],
             level_note="brokers' EtcdStores only at this commit: the operator's snapshot merge is not in this world"),
    "C19": P("w1", quick_runs=2500, thorough_runs=120000, quick_budget_s=120, thorough_budget_s=1500, required_probes=["c19.acked-append-judged", "c19.not-leader"],
             level_text="2-3 real broker handlers with real EtcdStores and lease managers on one simulated etcd and one simulated S3; the lease state is read from the etcd stub at the scheduler step each AppendBatch executes (woven site observer)"),
    "C27": P("w4", quick_runs=4000, thorough_runs=300000, quick_budget_s=100, thorough_budget_s=1500,
             required_probes=["c27.produce-entry-success", "c27.fetch-entry-success", "c27.produce-entry-error"]),
    "C28": P("w4", quick_runs=4000, thorough_runs=300000, quick_budget_s=100, thorough_budget_s=1500,
             required_probes=["c28.topology-judged", "c28.coordinator-reply"],
             level_text="generated cluster metadata snapshots and metadata / coordinator requests (every version, all topics / by name / by id) against the real proxy while the simulator changes the cluster metadata, delays and fails the store and holds the proxy in its not-ready state; mostly input generation, the simulator contributes the ready/not-ready/stale-cache states and the concurrent snapshot changes"),
    "C30": P("w4", quick_runs=4000, thorough_runs=300000, quick_budget_s=100, thorough_budget_s=1500,
             required_probes=["c30.download-served", "c30.download-refused", "c30.reader-returned", "c30.reader-refused"],
             level_text="generated envelopes (algorithms, checksum fields, sizes) and object contents (replaced, truncated, extended) read through the real Resolver, Consumer and the proxy's download handler over a simulated S3 whose reads are corrupted, cut short, extended or fail mid-body; mostly input generation, the simulator contributes the storage faults"),
    "C31": P("w4", quick_runs=3000, thorough_runs=200000, quick_budget_s=100, thorough_budget_s=1500,
             required_probes=["c31.flagged-record", "c31.rewritten-batch", "c31.partition-judged"],
             level_text="generated produce requests (flagged/unflagged records, several batches and partitions, every codec, arbitrary header sets, null/empty keys and values) sent through the real proxy with the LFS module on; the fake broker's received bytes are compared with what was sent. Deciding dimension: generated inputs; the simulator hosts the run (S3 faults, NOT_LEADER retries that re-encode)"),
    "C32": P("w4", quick_runs=1500, thorough_runs=100000, quick_budget_s=120, thorough_budget_s=1500,
             required_probes=["c32.success-judged", "c32.upload-refused", "c32.multipart-success"]),
    "C08": P("w7", quick_runs=6000, thorough_runs=400000, quick_budget_s=60, thorough_budget_s=900,
             required_probes=["c08.restore-succeeded", "c08.partial-restore", "c08.failure-clean", "c08.leftover-with-failed-delete"]),
}

NA = {
    "C23": "Authorizer.Allows is a pure function of (config, principal, action, resource, name): no schedule, clock, I/O or fault for a simulator to control (its semantics are exercised inside the C24 oracle only)",
    "C29": "pure encode/decode/detect functions in three languages (two not Go): nothing to schedule or fault",
    "C35": "sql.Parse(string) is a pure function: no schedule, clock, I/O or fault",
    "C39": "BuildClusterMetadata / bucket-name derivation are pure functions of the spec",
    "C45": "ExplodeXML([]byte, cfg) is a pure function",
}
# properties designed but whose check is not built yet are listed as not claimed until their check exists
PENDING = {}
