#!/usr/bin/env python3
"""Builds every world's test binary once so later checks only relink."""
import os, sys, subprocess, tempfile, shutil
V = os.path.dirname(os.path.dirname(os.path.abspath(__file__)))
sys.path.insert(0, os.path.join(V, "lib"))
from worlds import WORLDS, PROPS
import importlib.util, importlib.machinery
loader = importlib.machinery.SourceFileLoader("check", os.path.join(V, "check"))
spec = importlib.util.spec_from_loader("check", loader)
check = importlib.util.module_from_spec(spec)
loader.exec_module(check)
done = set()
for pid, p in sorted(PROPS.items()):
    key = (p["world"], bool(p.get("race")))
    if key in done:
        continue
    done.add(key)
    scratch = tempfile.mkdtemp(prefix="verif-prewarm-", dir="/var/tmp")
    try:
        check.build_world(p["world"], scratch, race=key[1])
        print("prewarmed", key)
    finally:
        shutil.rmtree(scratch, ignore_errors=True)
