#!/usr/bin/env python3
"""Rebuilds DESIGN.md = the design as written before the code (sections 0-10, appendices)
+ DESIGN-asbuilt.md (section 11), with a pointer to section 11 under the title."""
import os, re
V = os.path.dirname(os.path.dirname(os.path.abspath(__file__)))
p = os.path.join(V, "DESIGN.md")
s = open(p).read()
marker = "\n## 11. As built"
if marker in s:
    s = s[:s.index(marker)].rstrip() + "\n"
pointer = "> **Reader's note.** Sections 0-10 are the design as written before any code existed. Section 11 (\"As built\", at the end) records what was actually built, every deviation, the defects found and repaired in /repo, the open known findings, the false alarms of the machinery and how they were corrected, and the seeded-defect results; where the two disagree, section 11 describes the tree as it is.\n"
s = s.replace(pointer, "")
lines = s.split("\n")
# insert the pointer after the first heading line
for i, l in enumerate(lines):
    if l.startswith("# "):
        lines.insert(i + 1, "\n" + pointer.rstrip("\n"))
        break
s = "\n".join(lines).rstrip() + "\n\n" + open(os.path.join(V, "DESIGN-asbuilt.md")).read()
open(p, "w").write(s)
print("DESIGN.md: %d bytes" % len(s))
