#!/bin/sh
# Builds the framework from files on disk only and warms the Go build cache.
set -e
cd "$(dirname "$0")"
export GOFLAGS=-mod=mod GOPROXY=off GOSUMDB=off GOTOOLCHAIN=local PATH=/opt/veriftools/go1.26.8/bin:$PATH
mkdir -p bin evidence replays
(cd tools/simweave && go build -o ../../bin/simweave .)
python3 lib/prewarm.py
