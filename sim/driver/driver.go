// Package driver is the per-process worker loop shared by all worlds: it
// derives cases from seeds, runs them, checks determinism, minimises
// violations, writes replay files and a worker report that ./check aggregates.
package driver

import (
	"encoding/json"
	"flag"
	"fmt"
	"math/rand/v2"
	"os"
	"path/filepath"
	"sort"
	"strconv"
	"strings"
	"testing"
	"time"

	"verif/sim/simrt"
)

var (
	fProp    = flag.String("sim.prop", "", "property id")
	fSeed    = flag.Uint64("sim.seed", 1, "base seed")
	fStart   = flag.Int("sim.start", 0, "first case index")
	fN       = flag.Int("sim.n", 100, "number of cases")
	fOut     = flag.String("sim.out", "", "worker report path")
	fReplay  = flag.String("sim.replay", "", "replay file")
	fTier    = flag.String("sim.tier", "quick", "quick|thorough")
	fBudget  = flag.Int("sim.budget", 0, "wall-clock budget in seconds (0 = none)")
	fDet     = flag.Int("sim.detcheck", 3, "number of leading cases run twice to compare trace hashes")
	fReplays = flag.String("sim.replaydir", "/verif/replays", "where replay files go")
	fDump    = flag.Bool("sim.dump", false, "print the trace of every case")
	fShrink  = flag.Int("sim.shrink", 250, "max runs spent minimising one violation")
	fHashOut = flag.String("sim.hashout", "", "write \"index tracehash\" lines here (determinism self-test)")
	fMaxViol = flag.Int("sim.maxviol", 4, "max violations minimised per worker per signature class")
	fProgress = flag.String("sim.progress", "", "file that always holds the index of the case being run (lets the caller attribute a process crash)")
	fSkip     = flag.String("sim.skip", "", "comma separated case indices to skip (cases that crashed the process earlier)")
	fEmit     = flag.Int("sim.emitcase", -1, "write a process-crashed replay file for this case index to -sim.out and exit")
)

// World is what a harness provides.
type World struct {
	Name string
	// Gen derives a case from a PRNG for property prop.
	Gen func(r *rand.Rand, prop, tier string) *simrt.Case
	// Run executes one case and evaluates the oracles of prop.
	Run func(t *testing.T, c *simrt.Case, prop string, keepTrace bool) simrt.Result
	// Components describes what ran real and what ran as a stub.
	Real, Stub []string
}

// Replay is the replay-file format.
type Replay struct {
	World     string           `json:"world"`
	Property  string           `json:"property"`
	Clause    string           `json:"clause"`
	Detail    string           `json:"detail"`
	TraceHash string           `json:"trace_hash"`
	Case      *simrt.Case      `json:"case"`
	Original  map[string]int64 `json:"original_size,omitempty"`
	Trace     []string         `json:"trace,omitempty"`
}

// ViolationReport is one minimised violation in the worker report.
type ViolationReport struct {
	Property string `json:"property"`
	Clause   string `json:"clause"`
	Detail   string `json:"detail"`
	Seed     uint64 `json:"seed"`
	Replay   string `json:"replay"`
	Ops      int    `json:"ops"`
	Faults   int    `json:"faults"`
}

// Report is the worker report.
type Report struct {
	World        string            `json:"world"`
	Property     string            `json:"property"`
	Tier         string            `json:"tier"`
	BaseSeed     uint64            `json:"base_seed"`
	Start        int               `json:"start"`
	Runs         int               `json:"runs"`
	WallS        float64           `json:"wall_s"`
	Steps        int64             `json:"steps"`
	Contended    int64             `json:"contended_steps"`
	VirtualS     float64           `json:"virtual_s"`
	Truncated    int               `json:"truncated"`
	Stuck        int               `json:"stuck"`
	Leaked       int               `json:"leaked"`
	FaultsFired  map[string]int    `json:"faults_fired"`
	Probes       map[string]int    `json:"probes"`
	Sigs         []string          `json:"sigs"` // schedule signatures of non-trivial runs
	Violations   []ViolationReport `json:"violations"`
	ViolationRaw int               `json:"violations_raw"`
	ClauseCounts map[string]int    `json:"clause_counts"`
	Samples      []json.RawMessage `json:"samples"`
	DetMismatch  []string          `json:"det_mismatch"`
	TaskPanics   []string          `json:"task_panics"`
	StuckSamples []string          `json:"stuck_samples"`
	Real         []string          `json:"real"`
	Stub         []string          `json:"stub"`
	Error        string            `json:"error,omitempty"`
}

func mix(a, b uint64) uint64 {
	x := a*0x9E3779B97F4A7C15 + b + 0x632BE59BD9B4E019
	x ^= x >> 30
	x *= 0xBF58476D1CE4E5B9
	x ^= x >> 27
	x *= 0x94D049BB133111EB
	x ^= x >> 31
	return x
}

// CaseFor derives case i of the batch.
func CaseFor(w World, base uint64, i int, prop, tier string) *simrt.Case {
	seed := mix(base, uint64(i))
	r := rand.New(rand.NewPCG(seed, 0x5851F42D4C957F2D))
	c := w.Gen(r, prop, tier)
	c.Seed = seed
	if c.SchedSeed == 0 && len(c.Tape) == 0 {
		c.SchedSeed = mix(seed, 77) | 1
	}
	if c.Config == nil {
		c.Config = map[string]int64{}
	}
	if os.Getenv("VERIF_STALLS") != "" && r.IntN(3) == 0 {
		// experiment: any task about to take a lock may be held back for a while
		for k := 0; k < 1+r.IntN(2); k++ {
			c.Faults = append(c.Faults, simrt.Fault{Kind: "sched.stall", Op: "sched.lock", Nth: r.IntN(300), Count: 1, Arg: int64(1+r.IntN(3000)) * 1e6})
		}
	}
	return c
}

func sameViolation(a, b *simrt.Violation) bool {
	return a != nil && b != nil && a.Property == b.Property && a.Clause == b.Clause
}

func cloneCase(c *simrt.Case) *simrt.Case {
	n := *c
	n.Program = append([]simrt.Op(nil), c.Program...)
	n.Faults = append([]simrt.Fault(nil), c.Faults...)
	n.Tape = append([]uint32(nil), c.Tape...)
	n.Config = map[string]int64{}
	for k, v := range c.Config {
		n.Config[k] = v
	}
	return &n
}

// Shrink minimises a failing case while the same (property, clause) persists.
func Shrink(t *testing.T, w World, c *simrt.Case, prop string, want *simrt.Violation, budget int) (*simrt.Case, simrt.Result, int) {
	runs := 0
	try := func(cand *simrt.Case) (simrt.Result, bool) {
		runs++
		res := w.Run(t, cand, prop, false)
		return res, sameViolation(res.Violation, want)
	}
	best := cloneCase(c)
	bestRes, ok := try(best)
	if !ok {
		return c, bestRes, runs
	}
	// 1. materialise the schedule
	{
		cand := cloneCase(best)
		cand.Tape = append([]uint32(nil), bestRes.Choices...)
		cand.SchedSeed = 0
		if res, ok := try(cand); ok {
			best, bestRes = cand, res
		}
	}
	progress := true
	for progress && runs < budget {
		progress = false
		// 2. drop faults
		for i := len(best.Faults) - 1; i >= 0 && runs < budget; i-- {
			cand := cloneCase(best)
			cand.Faults = append(cand.Faults[:i:i], cand.Faults[i+1:]...)
			if res, ok := try(cand); ok {
				best, bestRes, progress = cand, res, true
			}
		}
		// 3. drop program ops: chunks then singles
		for chunk := len(best.Program) / 2; chunk >= 1 && runs < budget; chunk /= 2 {
			for i := len(best.Program) - chunk; i >= 0 && runs < budget; i -= chunk {
				if i+chunk > len(best.Program) {
					continue
				}
				cand := cloneCase(best)
				cand.Program = append(cand.Program[:i:i], cand.Program[i+chunk:]...)
				if res, ok := try(cand); ok {
					best, bestRes, progress = cand, res, true
				}
			}
		}
		// 4. straighten the schedule: truncate the tape, then zero entries
		for cut := len(best.Tape) / 2; cut >= 1 && runs < budget; cut /= 2 {
			if cut >= len(best.Tape) {
				continue
			}
			cand := cloneCase(best)
			cand.Tape = cand.Tape[:len(cand.Tape)-cut]
			if res, ok := try(cand); ok {
				best, bestRes, progress = cand, res, true
			}
		}
		nz := 0
		for i := 0; i < len(best.Tape) && runs < budget && nz < 60; i++ {
			if best.Tape[i] == 0 {
				continue
			}
			nz++
			cand := cloneCase(best)
			cand.Tape[i] = 0
			if res, ok := try(cand); ok {
				best, bestRes, progress = cand, res, true
			}
		}
	}
	// trailing zeros carry no information
	for len(best.Tape) > 0 && best.Tape[len(best.Tape)-1] == 0 {
		best.Tape = best.Tape[:len(best.Tape)-1]
	}
	final := w.Run(t, best, prop, true)
	runs++
	if !sameViolation(final.Violation, want) {
		// should not happen (determinism); fall back to the unminimised case
		final = w.Run(t, c, prop, true)
		return c, final, runs
	}
	return best, final, runs
}

func writeReplay(w World, prop string, c *simrt.Case, res simrt.Result, orig *simrt.Case) (string, error) {
	rp := Replay{World: w.Name, Property: res.Violation.Property, Clause: res.Violation.Clause, Detail: res.Violation.Detail,
		TraceHash: fmt.Sprintf("%016x", res.TraceHash), Case: c, Trace: tail(res.Trace, 400),
		Original: map[string]int64{"ops": int64(len(orig.Program)), "faults": int64(len(orig.Faults))}}
	dir := filepath.Join(*fReplays, prop)
	if err := os.MkdirAll(dir, 0o755); err != nil {
		return "", err
	}
	path := filepath.Join(dir, fmt.Sprintf("%s-%016x-%016x.json", strings.ReplaceAll(res.Violation.Clause, "/", "_"), orig.Seed, res.TraceHash))
	b, _ := json.MarshalIndent(rp, "", " ")
	return path, os.WriteFile(path, b, 0o644)
}

func tail(s []string, n int) []string {
	if len(s) > n {
		return s[len(s)-n:]
	}
	return s
}

// Main is called by each world's TestSim.
func Main(t *testing.T, w World) {
	prop := *fProp
	if prop == "" {
		t.Skip("no -sim.prop")
	}
	if *fReplay != "" {
		replay(t, w, *fReplay)
		return
	}
	if *fEmit >= 0 {
		c := CaseFor(w, *fSeed, *fEmit, prop, *fTier)
		rp := Replay{World: w.Name, Property: prop, Clause: "process-crashed", Detail: "the process running this case died (fatal runtime error)", TraceHash: "crash", Case: c,
			Original: map[string]int64{"ops": int64(len(c.Program)), "faults": int64(len(c.Faults))}}
		b, _ := json.MarshalIndent(rp, "", " ")
		if err := os.WriteFile(*fOut, b, 0o644); err != nil {
			t.Fatal(err)
		}
		return
	}
	skip := map[int]bool{}
	for _, f := range strings.Split(*fSkip, ",") {
		if n, err := strconv.Atoi(strings.TrimSpace(f)); err == nil {
			skip[n] = true
		}
	}
	rep := &Report{World: w.Name, Property: prop, Tier: *fTier, BaseSeed: *fSeed, Start: *fStart,
		FaultsFired: map[string]int{}, Probes: map[string]int{}, ClauseCounts: map[string]int{}, Real: w.Real, Stub: w.Stub}
	sigs := map[uint64]bool{}
	began := time.Now()
	perClause := map[string]int{}
	var hashLines []string
	defer func() {
		rep.WallS = time.Since(began).Seconds()
		for s := range sigs {
			rep.Sigs = append(rep.Sigs, fmt.Sprintf("%016x", s))
		}
		sort.Strings(rep.Sigs)
		if *fOut != "" {
			b, _ := json.Marshal(rep)
			os.WriteFile(*fOut, b, 0o644)
		}
		if *fHashOut != "" {
			os.WriteFile(*fHashOut, []byte(strings.Join(hashLines, "\n")+"\n"), 0o644)
		}
	}()
	for i := *fStart; i < *fStart+*fN; i++ {
		if *fBudget > 0 && time.Since(began) > time.Duration(*fBudget)*time.Second {
			break
		}
		if skip[i] {
			continue
		}
		if *fProgress != "" {
			os.WriteFile(*fProgress, []byte(strconv.Itoa(i)), 0o644)
		}
		c := CaseFor(w, *fSeed, i, prop, *fTier)
		keep := *fDump || len(rep.Samples) < 2
		if simrt.RaceBuild {
			// race reports go to stderr as they are detected: this marker attributes them to a case
			fmt.Fprintf(os.Stderr, "SIM-CASE index=%d seed=%d\n", i, c.Seed)
		}
		res := w.Run(t, c, prop, keep)
		rep.Runs++
		if rep.Runs <= *fDet && !simrt.RaceBuild {
			res2 := w.Run(t, c, prop, false)
			if res2.TraceHash != res.TraceHash {
				rep.DetMismatch = append(rep.DetMismatch, fmt.Sprintf("case %d seed %d: %016x vs %016x", i, c.Seed, res.TraceHash, res2.TraceHash))
			}
		}
		if *fHashOut != "" {
			hashLines = append(hashLines, fmt.Sprintf("%d %016x", i, res.TraceHash))
		}
		rep.Steps += int64(res.Stats.Steps)
		rep.Contended += int64(res.Stats.Contended)
		rep.VirtualS += float64(res.Stats.VirtualNs) / 1e9
		if res.Stats.Truncated {
			rep.Truncated++
			if len(res.Stats.FaultsFired) == 0 {
				// a run that does not finish although nothing was injected deserves a look (a request
				// that is never answered looks exactly like this)
				rep.Probes["truncated-without-fault"]++
				if len(rep.StuckSamples) < 3 {
					rep.StuckSamples = append(rep.StuckSamples, fmt.Sprintf("index %d seed %d: cut off after %d steps, no fault fired; %v", i, c.Seed, res.Stats.Steps, res.Stats.StuckInfo))
				}
			}
		}
		if res.Stats.Stuck {
			rep.Stuck++
			if len(rep.StuckSamples) < 3 {
				rep.StuckSamples = append(rep.StuckSamples, fmt.Sprintf("index %d seed %d: %v", i, c.Seed, res.Stats.StuckInfo))
			}
		}
		rep.Leaked += res.Stats.Leaked
		nontrivial := res.Stats.Contended > 0
		for k, v := range res.Stats.FaultsFired {
			rep.FaultsFired[k] += v
			nontrivial = true
		}
		for k, v := range res.Stats.Probes {
			rep.Probes[k] += v
		}
		if len(res.Stats.TaskPanics) > 0 && len(rep.TaskPanics) < 5 {
			rep.TaskPanics = append(rep.TaskPanics, res.Stats.TaskPanics...)
		}
		if nontrivial {
			sigs[res.SchedSig] = true
		}
		if *fDump {
			for _, l := range res.Trace {
				fmt.Println(l)
			}
		}
		if keep && len(rep.Samples) < 2 && nontrivial {
			sm, _ := json.Marshal(map[string]any{"seed": c.Seed, "config": c.Config, "program": c.Program, "faults": c.Faults, "trace_head": head(res.Trace, 30), "steps": res.Stats.Steps})
			rep.Samples = append(rep.Samples, sm)
		}
		if res.Violation != nil {
			rep.ViolationRaw++
			key := res.Violation.Property + "/" + res.Violation.Clause
			rep.ClauseCounts[key]++
			if perClause[key] >= *fMaxViol {
				continue
			}
			perClause[key]++
			min, mres, _ := Shrink(t, w, c, prop, res.Violation, *fShrink)
			if mres.Violation == nil {
				// the violation did not come back when the same case was run again: something the
				// simulator does not control took part in it. It is still reported, with the case as
				// generated, and the run is marked non-deterministic.
				rep.DetMismatch = append(rep.DetMismatch, fmt.Sprintf("case %d seed %d: violation %s/%s did not reproduce on re-run", i, c.Seed, res.Violation.Property, res.Violation.Clause))
				min, mres = c, res
			}
			path, err := writeReplay(w, prop, min, mres, c)
			if err != nil {
				rep.Error = err.Error()
			}
			rep.Violations = append(rep.Violations, ViolationReport{Property: mres.Violation.Property, Clause: mres.Violation.Clause,
				Detail: mres.Violation.Detail, Seed: c.Seed, Replay: path, Ops: len(min.Program), Faults: len(min.Faults)})
		}
	}
}

func head(s []string, n int) []string {
	if len(s) > n {
		return s[:n]
	}
	return s
}

func replay(t *testing.T, w World, path string) {
	b, err := os.ReadFile(path)
	if err != nil {
		fmt.Printf("REPLAY-ERROR %v\n", err)
		os.Exit(2)
	}
	var rp Replay
	if err := json.Unmarshal(b, &rp); err != nil {
		fmt.Printf("REPLAY-ERROR %v\n", err)
		os.Exit(2)
	}
	res := w.Run(t, rp.Case, rp.Property, true)
	for _, l := range res.Trace {
		fmt.Println(l)
	}
	got := fmt.Sprintf("%016x", res.TraceHash)
	if res.Violation == nil {
		fmt.Printf("REPLAY-NOVIOLATION expected %s/%s trace=%s got trace=%s\n", rp.Property, rp.Clause, rp.TraceHash, got)
		return
	}
	fmt.Printf("REPLAY-VIOLATION property=%s clause=%s detail=%q trace=%s expected_trace=%s same_trace=%v\n",
		res.Violation.Property, res.Violation.Clause, res.Violation.Detail, got, rp.TraceHash, got == rp.TraceHash)
}
