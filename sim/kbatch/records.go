package kbatch

import "fmt"

// ParseRecords parses exactly n records from an (already decompressed) records
// payload; trailing bytes are an error.
func ParseRecords(payload []byte, n int32) ([]Record, error) {
	var out []Record
	p := payload
	for i := int32(0); i < n; i++ {
		r, used, err := parseRecord(p)
		if err != nil {
			return out, fmt.Errorf("record %d of %d: %w", i, n, err)
		}
		out = append(out, r)
		p = p[used:]
	}
	if len(p) != 0 {
		return out, fmt.Errorf("%d bytes after the %d declared records", len(p), n)
	}
	return out, nil
}

// EncodeRecords concatenates the encodings of recs (offset deltas as given).
func EncodeRecords(recs []Record) []byte {
	var out []byte
	for _, r := range recs {
		out = append(out, EncodeRecord(r)...)
	}
	return out
}
