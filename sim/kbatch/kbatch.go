// Package kbatch builds and parses Kafka v2 record batches independently of
// the repo's code (it is part of the oracles).
package kbatch

import (
	"encoding/binary"
	"errors"
	"fmt"
	"hash/crc32"
)

var castagnoli = crc32.MakeTable(crc32.Castagnoli)

type Header struct {
	Key   string
	Value []byte
}

type Record struct {
	OffsetDelta int32
	TsDelta     int64
	Key         []byte // nil = null
	Value       []byte // nil = null
	Headers     []Header
}

type Batch struct {
	BaseOffset      int64
	BatchLength     int32
	LeaderEpoch     int32
	Magic           int8
	CRC             uint32
	Attributes      int16
	LastOffsetDelta int32
	BaseTimestamp   int64
	MaxTimestamp    int64
	ProducerID      int64
	ProducerEpoch   int16
	BaseSequence    int32
	RecordCount     int32
	Records         []Record
	Raw             []byte // the whole batch
	CRCOK           bool
}

func putVarint(b []byte, v int64) []byte {
	u := uint64((v << 1) ^ (v >> 63))
	for u >= 0x80 {
		b = append(b, byte(u)|0x80)
		u >>= 7
	}
	return append(b, byte(u))
}

func getVarint(b []byte) (int64, int, error) {
	var u uint64
	var shift uint
	for i := 0; i < len(b) && i < 10; i++ {
		u |= uint64(b[i]&0x7f) << shift
		if b[i]&0x80 == 0 {
			return int64(u>>1) ^ -int64(u&1), i + 1, nil
		}
		shift += 7
	}
	return 0, 0, errors.New("kbatch: bad varint")
}

func EncodeRecord(r Record) []byte {
	var body []byte
	body = append(body, 0) // attributes
	body = putVarint(body, r.TsDelta)
	body = putVarint(body, int64(r.OffsetDelta))
	if r.Key == nil {
		body = putVarint(body, -1)
	} else {
		body = putVarint(body, int64(len(r.Key)))
		body = append(body, r.Key...)
	}
	if r.Value == nil {
		body = putVarint(body, -1)
	} else {
		body = putVarint(body, int64(len(r.Value)))
		body = append(body, r.Value...)
	}
	body = putVarint(body, int64(len(r.Headers)))
	for _, h := range r.Headers {
		body = putVarint(body, int64(len(h.Key)))
		body = append(body, h.Key...)
		if h.Value == nil {
			body = putVarint(body, -1)
		} else {
			body = putVarint(body, int64(len(h.Value)))
			body = append(body, h.Value...)
		}
	}
	out := putVarint(nil, int64(len(body)))
	return append(out, body...)
}

// Build encodes an uncompressed batch with base offset 0.
func Build(baseTs int64, recs []Record) []byte {
	var payload []byte
	var maxTs int64 = baseTs
	for i := range recs {
		recs[i].OffsetDelta = int32(i)
		payload = append(payload, EncodeRecord(recs[i])...)
		if baseTs+recs[i].TsDelta > maxTs {
			maxTs = baseTs + recs[i].TsDelta
		}
	}
	return BuildRaw(0, int32(len(recs))-1, int32(len(recs)), baseTs, maxTs, 0, payload)
}

// BuildRaw encodes a batch with explicit header fields and a pre-encoded
// records payload (for malformed-header producers).
func BuildRaw(baseOffset int64, lastOffsetDelta, recordCount int32, baseTs, maxTs int64, attrs int16, payload []byte) []byte {
	b := make([]byte, 61, 61+len(payload))
	binary.BigEndian.PutUint64(b[0:8], uint64(baseOffset))
	binary.BigEndian.PutUint32(b[8:12], uint32(61-12+len(payload)))
	binary.BigEndian.PutUint32(b[12:16], 0)
	b[16] = 2
	binary.BigEndian.PutUint16(b[21:23], uint16(attrs))
	binary.BigEndian.PutUint32(b[23:27], uint32(lastOffsetDelta))
	binary.BigEndian.PutUint64(b[27:35], uint64(baseTs))
	binary.BigEndian.PutUint64(b[35:43], uint64(maxTs))
	binary.BigEndian.PutUint64(b[43:51], ^uint64(0)) // producer id -1
	binary.BigEndian.PutUint16(b[51:53], 0xffff)
	binary.BigEndian.PutUint32(b[53:57], 0xffffffff)
	binary.BigEndian.PutUint32(b[57:61], uint32(recordCount))
	b = append(b, payload...)
	binary.BigEndian.PutUint32(b[17:21], crc32.Checksum(b[21:], castagnoli))
	return b
}

// FixCRC recomputes the CRC of a (possibly hand-mutated) batch in place.
func FixCRC(b []byte) {
	if len(b) >= 61 {
		binary.BigEndian.PutUint32(b[17:21], crc32.Checksum(b[21:], castagnoli))
	}
}

// ParseOne parses the batch at the start of b and returns it with its length.
func ParseOne(b []byte) (*Batch, int, error) {
	if len(b) < 61 {
		return nil, 0, fmt.Errorf("kbatch: %d bytes is shorter than a batch header", len(b))
	}
	bt := &Batch{}
	bt.BaseOffset = int64(binary.BigEndian.Uint64(b[0:8]))
	bt.BatchLength = int32(binary.BigEndian.Uint32(b[8:12]))
	total := 12 + int(bt.BatchLength)
	if bt.BatchLength < 49 || total > len(b) {
		return nil, 0, fmt.Errorf("kbatch: batch length %d does not fit %d bytes", bt.BatchLength, len(b))
	}
	bt.LeaderEpoch = int32(binary.BigEndian.Uint32(b[12:16]))
	bt.Magic = int8(b[16])
	bt.CRC = binary.BigEndian.Uint32(b[17:21])
	bt.Attributes = int16(binary.BigEndian.Uint16(b[21:23]))
	bt.LastOffsetDelta = int32(binary.BigEndian.Uint32(b[23:27]))
	bt.BaseTimestamp = int64(binary.BigEndian.Uint64(b[27:35]))
	bt.MaxTimestamp = int64(binary.BigEndian.Uint64(b[35:43]))
	bt.ProducerID = int64(binary.BigEndian.Uint64(b[43:51]))
	bt.ProducerEpoch = int16(binary.BigEndian.Uint16(b[51:53]))
	bt.BaseSequence = int32(binary.BigEndian.Uint32(b[53:57]))
	bt.RecordCount = int32(binary.BigEndian.Uint32(b[57:61]))
	bt.Raw = b[:total]
	bt.CRCOK = crc32.Checksum(b[21:total], castagnoli) == bt.CRC
	if bt.Attributes&7 == 0 && bt.Magic == 2 {
		p := b[61:total]
		for i := int32(0); i < bt.RecordCount && len(p) > 0; i++ {
			r, n, err := parseRecord(p)
			if err != nil {
				bt.Records = nil
				break
			}
			bt.Records = append(bt.Records, r)
			p = p[n:]
		}
	}
	return bt, total, nil
}

func parseRecord(p []byte) (Record, int, error) {
	var r Record
	l, n, err := getVarint(p)
	if err != nil || l < 0 || int(l)+n > len(p) {
		return r, 0, errors.New("kbatch: bad record length")
	}
	body := p[n : n+int(l)]
	total := n + int(l)
	if len(body) < 1 {
		return r, 0, errors.New("kbatch: empty record")
	}
	body = body[1:]
	v, k, err := getVarint(body)
	if err != nil {
		return r, 0, err
	}
	r.TsDelta = v
	body = body[k:]
	v, k, err = getVarint(body)
	if err != nil {
		return r, 0, err
	}
	r.OffsetDelta = int32(v)
	body = body[k:]
	readBytes := func() ([]byte, error) {
		v, k, err := getVarint(body)
		if err != nil {
			return nil, err
		}
		body = body[k:]
		if v < 0 {
			return nil, nil
		}
		if int(v) > len(body) {
			return nil, errors.New("kbatch: short bytes")
		}
		out := append([]byte{}, body[:v]...)
		body = body[v:]
		return out, nil
	}
	if r.Key, err = readBytes(); err != nil {
		return r, 0, err
	}
	if r.Value, err = readBytes(); err != nil {
		return r, 0, err
	}
	hc, k, err := getVarint(body)
	if err != nil {
		return r, 0, err
	}
	body = body[k:]
	for i := int64(0); i < hc; i++ {
		hk, err := readBytes()
		if err != nil {
			return r, 0, err
		}
		hv, err := readBytes()
		if err != nil {
			return r, 0, err
		}
		r.Headers = append(r.Headers, Header{Key: string(hk), Value: hv})
	}
	return r, total, nil
}

// ParseAll parses a concatenation of batches; a trailing partial batch is
// returned as rest (Kafka fetch semantics allow it).
func ParseAll(b []byte) (batches []*Batch, rest []byte) {
	for len(b) > 0 {
		bt, n, err := ParseOne(b)
		if err != nil {
			return batches, b
		}
		batches = append(batches, bt)
		b = b[n:]
	}
	return batches, nil
}
