// Package kafsim adapts the generic stubs to the repo's interfaces
// (storage.S3Client, metadata.Store).
package kafsim

import (
	"context"
	"errors"
	"fmt"
	"strings"
	"time"

	metadatapb "github.com/KafScale/platform/pkg/gen/metadata"
	"github.com/KafScale/platform/pkg/metadata"
	"github.com/KafScale/platform/pkg/protocol"
	"github.com/KafScale/platform/pkg/storage"

	"verif/sim/simrt"
	"verif/sim/sims3"
)

// S3 implements storage.S3Client on a sims3.Store.
type S3 struct{ St *sims3.Store }

func mapErr(err error) error {
	if errors.Is(err, sims3.ErrNotFound) {
		return storage.ErrNotFound
	}
	return err
}

func (a S3) UploadSegment(ctx context.Context, key string, body []byte) error {
	return a.St.Put(ctx, "put.segment", key, body)
}
func (a S3) UploadIndex(ctx context.Context, key string, body []byte) error {
	return a.St.Put(ctx, "put.index", key, body)
}
func (a S3) DeleteSegment(ctx context.Context, key string) error {
	return a.St.Delete(ctx, "del.segment", key)
}
func (a S3) DeleteIndex(ctx context.Context, key string) error {
	return a.St.Delete(ctx, "del.index", key)
}
func (a S3) DownloadSegment(ctx context.Context, key string, rng *storage.ByteRange) ([]byte, error) {
	var r *[2]int64
	if rng != nil {
		r = &[2]int64{rng.Start, rng.End}
	}
	b, err := a.St.Get(ctx, "get.segment", key, r)
	return b, mapErr(err)
}
func (a S3) DownloadIndex(ctx context.Context, key string) ([]byte, error) {
	b, err := a.St.Get(ctx, "get.index", key, nil)
	return b, mapErr(err)
}
func (a S3) ListSegments(ctx context.Context, prefix string) ([]storage.S3Object, error) {
	objs, err := a.St.List(ctx, "list", prefix)
	if err != nil {
		return nil, err
	}
	out := make([]storage.S3Object, len(objs))
	for i, o := range objs {
		out[i] = storage.S3Object{Key: o.Key, Size: o.Size}
	}
	return out, nil
}
func (a S3) EnsureBucket(ctx context.Context) error {
	out := simrt.IO(ctx, a.St.Name+".ensure", "", time.Millisecond, nil)
	if out.Fault != "" && !strings.HasSuffix(out.Fault, ".slow") {
		return &sims3.InjectedError{Kind: out.Fault, Op: "ensure"}
	}
	return nil
}

// StoreWrite is one applied mutation of the metadata store, attributed.
type StoreWrite struct {
	Step   int
	Task   string
	Method string
	Key    string
	Val    int64
	Err    bool
	Tag    string // harness-defined attribution (principal / request id)
}

// Store decorates a metadata.Store: every call is a scheduling point with
// latency and optional injected error, and every mutation is logged.
type Store struct {
	Inner   metadata.Store
	Name    string
	LatUs   int64
	mu      simrt.QuietMutex
	Log     []StoreWrite
	Refused []StoreWrite      // mutations refused by an injected failure (not applied)
	Tags    map[string]string // task name prefix -> tag
}

func NewStore(inner metadata.Store, latUs int64) *Store {
	return &Store{Inner: inner, Name: "store", LatUs: latUs, Tags: map[string]string{}}
}

type StoreInjected struct{ Kind, Method string }

func (e *StoreInjected) Error() string { return "simstore injected " + e.Kind + " on " + e.Method }

func (s *Store) lat() time.Duration {
	base := s.LatUs
	if base <= 0 {
		base = 500
	}
	j := int64(0)
	if sim := simrt.Current(); sim != nil {
		j = int64(sim.Aux(int(base)))
	}
	return time.Duration(base+j) * time.Microsecond
}

func (s *Store) call(ctx context.Context, method, key string, mut bool, val int64, fn func() error) error {
	var err error
	out := simrt.IO(ctx, s.Name+"."+method, key, s.lat(), func() {
		err = fn()
		if mut {
			w := StoreWrite{Task: simrt.TaskName(), Method: method, Key: key, Val: val, Err: err != nil}
			if sim := simrt.Current(); sim != nil {
				w.Step = sim.Step()
			}
			s.mu.Lock()
			s.Log = append(s.Log, w)
			s.mu.Unlock()
		}
	})
	switch {
	case out.Fault == "":
		return err
	case out.Fault == "ctx_cancel" || out.Fault == "dead" || out.Fault == "crash" || out.Fault == "shutdown":
		return context.Canceled
	case strings.HasSuffix(out.Fault, ".slow"):
		return err
	}
	if mut {
		// a mutation that was refused by injection (callers that reason about "the store is behind
		// because a write failed" need to know which key and when)
		w := StoreWrite{Task: simrt.TaskName(), Method: method, Key: key, Val: val, Err: true}
		if sim := simrt.Current(); sim != nil {
			w.Step = sim.Step()
		}
		s.mu.Lock()
		s.Refused = append(s.Refused, w)
		s.mu.Unlock()
	}
	if out.Fault == "store.timeout" {
		// what an etcd-backed store returns when its own request deadline passes
		return fmt.Errorf("simstore %s: %w", method, context.DeadlineExceeded)
	}
	return &StoreInjected{Kind: out.Fault, Method: method}
}

// Writes returns a copy of the mutation log.
func (s *Store) Writes() []StoreWrite {
	s.mu.Lock()
	defer s.mu.Unlock()
	return append([]StoreWrite(nil), s.Log...)
}

func pk(topic string, p int32) string { return fmt.Sprintf("%s/%d", topic, p) }

func (s *Store) Metadata(ctx context.Context, topics []string) (r *metadata.ClusterMetadata, err error) {
	err = s.call(ctx, "Metadata", strings.Join(topics, ","), false, 0, func() (e error) { r, e = s.Inner.Metadata(ctx, topics); return })
	return
}
func (s *Store) NextOffset(ctx context.Context, topic string, partition int32) (r int64, err error) {
	err = s.call(ctx, "NextOffset", pk(topic, partition), false, 0, func() (e error) { r, e = s.Inner.NextOffset(ctx, topic, partition); return })
	return
}
func (s *Store) UpdateOffsets(ctx context.Context, topic string, partition int32, lastOffset int64) error {
	return s.call(ctx, "UpdateOffsets", pk(topic, partition), true, lastOffset, func() error { return s.Inner.UpdateOffsets(ctx, topic, partition, lastOffset) })
}
func (s *Store) CommitConsumerOffset(ctx context.Context, group, topic string, partition int32, offset int64, md string) error {
	return s.call(ctx, "CommitConsumerOffset", group+"|"+pk(topic, partition), true, offset, func() error {
		return s.Inner.CommitConsumerOffset(ctx, group, topic, partition, offset, md)
	})
}
func (s *Store) FetchConsumerOffset(ctx context.Context, group, topic string, partition int32) (o int64, md string, err error) {
	err = s.call(ctx, "FetchConsumerOffset", group+"|"+pk(topic, partition), false, 0, func() (e error) {
		o, md, e = s.Inner.FetchConsumerOffset(ctx, group, topic, partition)
		return
	})
	return
}
func (s *Store) ListConsumerOffsets(ctx context.Context) (r []metadata.ConsumerOffset, err error) {
	err = s.call(ctx, "ListConsumerOffsets", "", false, 0, func() (e error) { r, e = s.Inner.ListConsumerOffsets(ctx); return })
	return
}
func (s *Store) PutConsumerGroup(ctx context.Context, group *metadatapb.ConsumerGroup) error {
	return s.call(ctx, "PutConsumerGroup", group.GetGroupId(), true, int64(group.GetGenerationId()), func() error { return s.Inner.PutConsumerGroup(ctx, group) })
}
func (s *Store) FetchConsumerGroup(ctx context.Context, groupID string) (r *metadatapb.ConsumerGroup, err error) {
	err = s.call(ctx, "FetchConsumerGroup", groupID, false, 0, func() (e error) { r, e = s.Inner.FetchConsumerGroup(ctx, groupID); return })
	return
}
func (s *Store) ListConsumerGroups(ctx context.Context) (r []*metadatapb.ConsumerGroup, err error) {
	err = s.call(ctx, "ListConsumerGroups", "", false, 0, func() (e error) { r, e = s.Inner.ListConsumerGroups(ctx); return })
	return
}
func (s *Store) DeleteConsumerGroup(ctx context.Context, groupID string) error {
	return s.call(ctx, "DeleteConsumerGroup", groupID, true, 0, func() error { return s.Inner.DeleteConsumerGroup(ctx, groupID) })
}
func (s *Store) FetchTopicConfig(ctx context.Context, topic string) (r *metadatapb.TopicConfig, err error) {
	err = s.call(ctx, "FetchTopicConfig", topic, false, 0, func() (e error) { r, e = s.Inner.FetchTopicConfig(ctx, topic); return })
	return
}
func (s *Store) UpdateTopicConfig(ctx context.Context, cfg *metadatapb.TopicConfig) error {
	return s.call(ctx, "UpdateTopicConfig", cfg.GetName(), true, 0, func() error { return s.Inner.UpdateTopicConfig(ctx, cfg) })
}
func (s *Store) CreatePartitions(ctx context.Context, topic string, partitionCount int32) error {
	return s.call(ctx, "CreatePartitions", topic, true, int64(partitionCount), func() error { return s.Inner.CreatePartitions(ctx, topic, partitionCount) })
}
func (s *Store) CreateTopic(ctx context.Context, spec metadata.TopicSpec) (r *protocol.MetadataTopic, err error) {
	err = s.call(ctx, "CreateTopic", spec.Name, true, int64(spec.NumPartitions), func() (e error) { r, e = s.Inner.CreateTopic(ctx, spec); return })
	return
}
func (s *Store) DeleteTopic(ctx context.Context, name string) error {
	return s.call(ctx, "DeleteTopic", name, true, 0, func() error { return s.Inner.DeleteTopic(ctx, name) })
}

// Lock / Unlock give harness code a consistent view of Log and Refused.
func (s *Store) Lock()   { s.mu.Lock() }
func (s *Store) Unlock() { s.mu.Unlock() }
