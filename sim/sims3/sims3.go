// Package sims3 is the simulated object store: a map with a write log. Every
// call is a pending simrt.IO operation whose outcome the fault plan decides.
// It has no dependency on the repo; adapters for the repo's S3 client shapes
// live next to the harnesses.
package sims3

import (
	"context"
	"errors"
	"fmt"
	"sort"
	"strings"
	"time"

	"verif/sim/simrt"
)

var ErrNotFound = errors.New("sims3: not found")

// InjectedError is returned for every injected failure.
type InjectedError struct{ Kind, Op, Key string }

func (e *InjectedError) Error() string { return fmt.Sprintf("sims3 injected %s on %s %s", e.Kind, e.Op, e.Key) }

// Write is one applied mutation (durable state history).
type Write struct {
	Step   int
	Key    string
	Task   string
	Node   string
	Del    bool
	Size   int
	Fault  string
	Prev   bool // key existed before
	Differ bool // overwrote different bytes
}

// Obj is a listing entry.
type Obj struct {
	Key  string
	Size int64
}

// Store is one bucket.
type Store struct {
	Name string
	mu   simrt.QuietMutex
	objs map[string][]byte
	Log  []Write
	// OpLog records every attempted operation (for "replica saw no writes" style oracles)
	Ops     []string
	// Attempts records completed Put calls with their outcome
	Attempts []Attempt
	// FailedDeletes: keys whose Delete call returned an error to its caller (whether or not it took effect)
	FailedDeletes []string
	LatUs         int64 // base latency in microseconds
	OnWrite func(w Write, body []byte)
}

func New(name string, latUs int64) *Store {
	return &Store{Name: name, objs: map[string][]byte{}, LatUs: latUs}
}

func (s *Store) lat() time.Duration {
	base := s.LatUs
	if base <= 0 {
		base = 2000
	}
	j := int64(0)
	if sim := simrt.Current(); sim != nil {
		j = int64(sim.Aux(int(base)))
	}
	return time.Duration(base+j) * time.Microsecond
}

func (s *Store) opname(op string) string { return s.Name + "." + op }

func (s *Store) note(op, key string) {
	s.mu.Lock()
	s.Ops = append(s.Ops, op+" "+key)
	s.mu.Unlock()
}

func errFor(out simrt.Outcome, op, key string) error {
	switch {
	case out.Fault == "":
		return nil
	case out.Fault == "ctx_cancel":
		return context.Canceled
	case out.Fault == "dead" || out.Fault == "shutdown" || out.Fault == "crash":
		return context.Canceled
	case strings.HasSuffix(out.Fault, ".slow"):
		return nil
	case strings.Contains(out.Fault, "read_"):
		return nil
	}
	return &InjectedError{Kind: out.Fault, Op: op, Key: key}
}

// Put stores body under key.
func (s *Store) Put(ctx context.Context, op, key string, body []byte) error {
	s.note(op, key)
	cp := append([]byte(nil), body...)
	var out simrt.Outcome
	out = simrt.IO(ctx, s.opname(op), key, s.lat(), func() {
		s.mu.Lock()
		prev, had := s.objs[key]
		s.objs[key] = cp
		w := Write{Key: key, Task: simrt.TaskName(), Node: simrt.TaskNode(), Size: len(cp), Prev: had, Differ: had && string(prev) != string(cp)}
		if sim := simrt.Current(); sim != nil {
			w.Step = sim.Step()
		}
		s.Log = append(s.Log, w)
		cb := s.OnWrite
		s.mu.Unlock()
		if cb != nil {
			cb(w, cp)
		}
	})
	s.attempt(op, key, out)
	return errFor(out, op, key)
}

// Attempt is one completed call (whatever its outcome), for oracles that need
// to know when a request tried something.
type Attempt struct {
	Step    int
	Op, Key string
	Task    string
	Fault   string
	Applied bool
}

func (s *Store) attempt(op, key string, out simrt.Outcome) {
	a := Attempt{Op: op, Key: key, Task: simrt.TaskName(), Fault: out.Fault, Applied: out.Applied}
	if sim := simrt.Current(); sim != nil {
		a.Step = sim.Step()
	}
	s.mu.Lock()
	s.Attempts = append(s.Attempts, a)
	s.mu.Unlock()
}

// Delete removes key (no error if absent, like S3).
func (s *Store) Delete(ctx context.Context, op, key string) error {
	s.note(op, key)
	out := simrt.IO(ctx, s.opname(op), key, s.lat(), func() {
		s.mu.Lock()
		_, had := s.objs[key]
		delete(s.objs, key)
		w := Write{Key: key, Task: simrt.TaskName(), Node: simrt.TaskNode(), Del: true, Prev: had}
		if sim := simrt.Current(); sim != nil {
			w.Step = sim.Step()
		}
		s.Log = append(s.Log, w)
		s.mu.Unlock()
	})
	err := errFor(out, op, key)
	if err != nil {
		s.mu.Lock()
		s.FailedDeletes = append(s.FailedDeletes, key)
		s.mu.Unlock()
	}
	return err
}

// Get returns the object (or the inclusive byte range [start,end]).
// Read faults: "<name>.read_short" truncates, "<name>.read_corrupt" flips
// bytes, "<name>.read_garbage" returns unrelated bytes.
func (s *Store) Get(ctx context.Context, op, key string, rng *[2]int64) ([]byte, error) {
	s.note(op, key)
	var data []byte
	found := false
	out := simrt.IO(ctx, s.opname(op), key, s.lat(), func() {
		s.mu.Lock()
		b, ok := s.objs[key]
		if ok {
			found = true
			data = append([]byte(nil), b...)
		}
		s.mu.Unlock()
	})
	if err := errFor(out, op, key); err != nil {
		return nil, err
	}
	if !found {
		return nil, ErrNotFound
	}
	if rng != nil {
		start, end := rng[0], rng[1]
		if start < 0 {
			start = 0
		}
		if start >= int64(len(data)) {
			return nil, fmt.Errorf("sims3: range not satisfiable %d-%d of %d", rng[0], rng[1], len(data))
		}
		if end >= int64(len(data)) {
			end = int64(len(data)) - 1
		}
		data = data[start : end+1]
	}
	switch {
	case strings.HasSuffix(out.Fault, "read_short"):
		n := int(out.Arg)
		if n < 0 {
			n = 0
		}
		if len(data) > 0 {
			data = data[:n%len(data)]
		}
	case strings.HasSuffix(out.Fault, "read_corrupt"):
		if len(data) > 0 {
			a := uint64(out.Arg)
			for i := 0; i < 1+int(a%4); i++ {
				pos := int((a >> (8 * uint(i))) % uint64(len(data)))
				data[pos] ^= byte(1 + (a>>(3*uint(i)))%255)
			}
		}
	case strings.HasSuffix(out.Fault, "read_garbage"):
		g := make([]byte, len(data))
		a := uint64(out.Arg)*2862933555777941757 + 3037000493
		for i := range g {
			a = a*6364136223846793005 + 1442695040888963407
			g[i] = byte(a >> 33)
		}
		data = g
	}
	return data, nil
}

// List returns the objects under prefix in key order.
func (s *Store) List(ctx context.Context, op, prefix string) ([]Obj, error) {
	s.note(op, prefix)
	var res []Obj
	out := simrt.IO(ctx, s.opname(op), prefix, s.lat(), func() {
		s.mu.Lock()
		for k, v := range s.objs {
			if strings.HasPrefix(k, prefix) {
				res = append(res, Obj{Key: k, Size: int64(len(v))})
			}
		}
		s.mu.Unlock()
		sort.Slice(res, func(i, j int) bool { return res[i].Key < res[j].Key })
	})
	if err := errFor(out, op, prefix); err != nil {
		return nil, err
	}
	if strings.HasSuffix(out.Fault, "list_partial") && len(res) > 0 {
		res = res[:int(out.Arg)%len(res)]
	}
	return res, nil
}

// ---- direct (oracle / harness) access: no scheduling, no faults

func (s *Store) Peek(key string) ([]byte, bool) {
	s.mu.Lock()
	defer s.mu.Unlock()
	b, ok := s.objs[key]
	return b, ok
}

func (s *Store) Keys(prefix string) []string {
	s.mu.Lock()
	defer s.mu.Unlock()
	var ks []string
	for k := range s.objs {
		if strings.HasPrefix(k, prefix) {
			ks = append(ks, k)
		}
	}
	sort.Strings(ks)
	return ks
}

func (s *Store) Poke(key string, body []byte) {
	s.mu.Lock()
	s.objs[key] = append([]byte(nil), body...)
	s.mu.Unlock()
}

func (s *Store) Remove(key string) {
	s.mu.Lock()
	delete(s.objs, key)
	s.mu.Unlock()
}

func (s *Store) WriteLogLen() int {
	s.mu.Lock()
	defer s.mu.Unlock()
	return len(s.Log)
}

func (s *Store) Snapshot() map[string][]byte {
	s.mu.Lock()
	defer s.mu.Unlock()
	m := make(map[string][]byte, len(s.objs))
	for k, v := range s.objs {
		m[k] = v
	}
	return m
}
