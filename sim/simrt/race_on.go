//go:build race

package simrt

import (
	"runtime"
	"unsafe"
)

// RaceBuild reports whether the binary was built with -race.
const RaceBuild = true

// RaceOff / RaceOn bracket the simulator's own synchronisation so that the
// race detector sees only the application's happens-before edges (DESIGN 2.8).
func RaceOff() { runtime.RaceDisable() }
func RaceOn()  { runtime.RaceEnable() }

// RacePublish / RaceObserve add the one happens-before edge the harness owes
// the detector: "this node finished starting" -> "a request reaches it" (in the
// real program: main builds the handler before the listener accepts).
func RacePublish(p unsafe.Pointer) { runtime.RaceReleaseMerge(p) }
func RaceObserve(p unsafe.Pointer) { runtime.RaceAcquire(p) }
