package simrt

import (
	"context"
	"net"
	"time"
)

// Network seams. A world that simulates the network installs NetHooks for the
// duration of a run; otherwise the calls go to the real net package.
type NetHooks struct {
	Listen func(network, address string) (net.Listener, error)
	Dial   func(ctx context.Context, network, address string) (net.Conn, error)
}

var netHooks *NetHooks

// SetNetHooks installs (or with nil removes) the simulated network.
func SetNetHooks(h *NetHooks) { netHooks = h }

func Listen(network, address string) (net.Listener, error) {
	if h := netHooks; h != nil && Active() {
		return h.Listen(network, address)
	}
	return net.Listen(network, address)
}

func Dial(network, address string) (net.Conn, error) {
	if h := netHooks; h != nil && Active() {
		return h.Dial(context.Background(), network, address)
	}
	return net.Dial(network, address)
}

func DialTimeout(network, address string, timeout time.Duration) (net.Conn, error) {
	if h := netHooks; h != nil && Active() {
		ctx, cancel := context.WithTimeout(context.Background(), timeout)
		defer cancel()
		return h.Dial(ctx, network, address)
	}
	return net.DialTimeout(network, address, timeout)
}

func DialerDialContext(d *net.Dialer, ctx context.Context, network, address string) (net.Conn, error) {
	if h := netHooks; h != nil && Active() {
		if d.Timeout > 0 {
			var cancel context.CancelFunc
			ctx, cancel = context.WithTimeout(ctx, d.Timeout)
			defer cancel()
		}
		return h.Dial(ctx, network, address)
	}
	return d.DialContext(ctx, network, address)
}
