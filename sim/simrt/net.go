package simrt

import (
	"context"
	crand "crypto/rand"
	"fmt"
	"net"
	"time"
)

// Network seams. A world that simulates the network installs NetHooks for the
// duration of a run; otherwise the calls go to the real net package.
type NetHooks struct {
	Listen func(network, address string) (net.Listener, error)
	Dial   func(ctx context.Context, network, address string) (net.Conn, error)
}

var netHooks *NetHooks

// SetNetHooks installs (or with nil removes) the simulated network.
func SetNetHooks(h *NetHooks) { netHooks = h }

func Listen(network, address string) (net.Listener, error) {
	if h := netHooks; h != nil && Active() {
		return h.Listen(network, address)
	}
	return net.Listen(network, address)
}

func Dial(network, address string) (net.Conn, error) {
	if h := netHooks; h != nil && Active() {
		return h.Dial(context.Background(), network, address)
	}
	return net.Dial(network, address)
}

func DialTimeout(network, address string, timeout time.Duration) (net.Conn, error) {
	if h := netHooks; h != nil && Active() {
		ctx, cancel := context.WithTimeout(context.Background(), timeout)
		defer cancel()
		return h.Dial(ctx, network, address)
	}
	return net.DialTimeout(network, address, timeout)
}

func DialerDialContext(d *net.Dialer, ctx context.Context, network, address string) (net.Conn, error) {
	if h := netHooks; h != nil && Active() {
		if d.Timeout > 0 {
			var cancel context.CancelFunc
			ctx, cancel = context.WithTimeout(ctx, d.Timeout)
			defer cancel()
		}
		return h.Dial(ctx, network, address)
	}
	return d.DialContext(ctx, network, address)
}

// UUIDString replaces uuid.NewString in woven code: inside a run the ids come
// from the run's own counter (crypto/rand would make object keys, and with
// them the trace, differ between two runs of one seed).
func UUIDString() string {
	if s := Current(); s != nil {
		n := s.uuidSeq.Add(1)
		return fmt.Sprintf("00000000-0000-4000-8000-%012x", n)
	}
	var b [16]byte
	_, _ = crand.Read(b[:])
	b[6] = (b[6] & 0x0f) | 0x40
	b[8] = (b[8] & 0x3f) | 0x80
	return fmt.Sprintf("%x-%x-%x-%x-%x", b[0:4], b[4:6], b[6:8], b[8:10], b[10:16])
}
