// Package simrt is the deterministic simulation kernel: a scheduler that
// releases exactly one parked goroutine at a time inside a testing/synctest
// bubble, a lock-ownership table, a sim condition variable, deterministic task
// names, a fault plan, and a trace. See /verif/DESIGN.md section 2.
//
// Outside a simulation (no active Sim) every shim calls straight through.
package simrt

import (
	"context"
	"fmt"
	"hash/fnv"
	"math/rand/v2"
	"runtime"
	"sort"
	"strconv"
	"strings"
	"sync"
	"sync/atomic"
	"testing"
	"testing/synctest"
	"time"
	"unsafe"
)

// Fault is one directive of the fault plan. It fires on the Nth..Nth+Count-1
// operations (counted per fault) whose op kind has prefix Op and whose key
// contains Key. Kind "crash" is special: Key names the node and Nth is the
// scheduler step at which the node dies.
type Fault struct {
	Kind  string `json:"kind"`
	Op    string `json:"op,omitempty"`
	Key   string `json:"key,omitempty"`
	Nth   int    `json:"nth"`
	Count int    `json:"count,omitempty"`
	Arg   int64  `json:"arg,omitempty"`
}

// Case is everything a run is a pure function of.
type Case struct {
	Seed      uint64           `json:"seed"`
	Config    map[string]int64 `json:"config"`
	Program   []Op             `json:"program"`
	Faults    []Fault          `json:"faults"`
	SchedSeed uint64           `json:"sched_seed"`
	Tape      []uint32         `json:"tape"`
}

// Op is one generic workload operation; worlds interpret the fields.
type Op struct {
	Actor int    `json:"actor"`
	Kind  string `json:"kind"`
	A     int64  `json:"a,omitempty"`
	B     int64  `json:"b,omitempty"`
	C     int64  `json:"c,omitempty"`
	D     int64  `json:"d,omitempty"`
	S     string `json:"s,omitempty"`
}

func (c *Case) Cfg(name string, def int64) int64 {
	if v, ok := c.Config[name]; ok {
		return v
	}
	return def
}

type entryKind int

const (
	kStart entryKind = iota
	kYield
	kLock
	kRLock
	kCond
	kIO
	kIOResp
	kSleep
	kWait
)

var kindNames = [...]string{"start", "yield", "lock", "rlock", "cond", "io", "ioresp", "sleep", "wait"}

// Outcome is what the scheduler decided for a parked operation.
type Outcome struct {
	Fault   string // "" = none
	Arg     int64
	Applied bool // whether the operation's effect was applied
	poison  bool
}

type entry struct {
	kind   entryKind
	site   string
	lk     uintptr // lock key
	cond   uintptr
	ready  time.Time // kIO / kSleep: candidate when now >= ready
	ctx    context.Context
	opKind string
	opKey  string
	fut    *Future
	ch     chan Outcome
}

// Task is one goroutine under scheduler control.
type Task struct {
	Name    string
	Node    string
	goid    int64
	entry   *entry
	spawned map[string]int
	dying   bool
	exiting bool // unwinding via Goexit: shims reached from deferred calls pass through
	done    bool
	fake    map[uintptr]int // locks "held" only nominally while dying
	real    map[uintptr]int // mutexes a dying task really took through TryLock
	client  bool
	auxN    uint64
	anon    bool
	ch      chan Outcome
}

type lockState struct {
	writer  *Task
	readers map[*Task]int
}

// Stats are per-run counters that go into evidence.
type Stats struct {
	Steps       int
	Contended   int // steps with >= 2 candidates
	FaultsFired map[string]int
	Probes      map[string]int
	VirtualNs   int64
	Truncated   bool
	Stuck       bool
	StuckInfo   []string
	Leaked      int
	TaskPanics  []string
}

// Sim is one simulation run.
type Sim struct {
	T    *testing.T
	Case *Case

	mu       quietMutex
	vmu      quietMutex
	uuidSeq  atomic.Int64
	mapCalls atomic.Int64
	rootGoid int64
	tasks    map[int64]*Task
	all      []*Task
	locks    map[uintptr]*lockState
	condq    map[uintptr][]*Task
	deadNode map[string]bool
	wake     chan struct{}

	step           int
	tapeIdx        int
	rng            *rand.Rand
	aux            *rand.Rand
	Choices        []uint32
	faultHits      []int
	hasSchedFaults bool
	crashDone      []bool

	hash      uint64
	sig       uint64 // schedule signature: contended steps and fired faults only
	KeepTrace bool
	Trace     []string
	start     time.Time

	Stats Stats

	stepHooks    []func() error
	releaseHooks []func(task, site string)
	crashHooks   map[string]func()
	stopFns      []func()
	violation    *Violation
	soft         *Violation
	MaxSteps     int
	MaxVirtual   time.Duration
	anonSeq      int
	// SetupNode is the node incarnation that goroutines started from the
	// scheduler goroutine (harness set-up code) are attributed to.
	SetupNode string
	rootSpawn map[string]int
}

// Violation is an oracle verdict.
type Violation struct {
	Property string `json:"property"`
	Clause   string `json:"clause"`
	Detail   string `json:"detail"`
	Step     int    `json:"step"`
}

func (v *Violation) Error() string {
	return fmt.Sprintf("%s/%s: %s (step %d)", v.Property, v.Clause, v.Detail, v.Step)
}

var cur atomic.Pointer[Sim]

// Active reports whether a simulation is running in this process.
func Active() bool { return cur.Load() != nil }

// Current returns the active Sim or nil.
func Current() *Sim { return cur.Load() }

func goid() int64 {
	var buf [64]byte
	n := runtime.Stack(buf[:], false)
	// "goroutine 123 ["
	s := buf[10:n]
	i := 0
	for i < len(s) && s[i] >= '0' && s[i] <= '9' {
		i++
	}
	id, _ := strconv.ParseInt(string(s[:i]), 10, 64)
	return id
}

func (s *Sim) me() *Task {
	g := goid()
	if g == s.rootGoid {
		return nil
	}
	s.mu.Lock()
	t := s.tasks[g]
	if t == nil {
		// A goroutine the weaver did not see being started (library-spawned).
		s.anonSeq++
		t = &Task{Name: fmt.Sprintf("~anon%03d", s.anonSeq), goid: g, anon: true, spawned: map[string]int{}, ch: make(chan Outcome, 1)}
		s.tasks[g] = t
		s.all = append(s.all, t)
	}
	s.mu.Unlock()
	return t
}

func current() (*Sim, *Task) {
	s := cur.Load()
	if s == nil {
		return nil, nil
	}
	t := s.me()
	if t == nil {
		return nil, nil // the scheduler goroutine itself: pass through
	}
	return s, t
}

// ---------------------------------------------------------------- running

// Result summarises a finished run.
type Result struct {
	Violation *Violation
	TraceHash uint64
	SchedSig  uint64
	Stats     Stats
	Choices   []uint32
	Trace     []string
}

// Run executes one case. setup runs inside the bubble on the scheduler
// goroutine before scheduling starts; it spawns the root tasks. finish runs
// after the last step (post-run oracles) and may call s.Fail.
func Run(t *testing.T, c *Case, keepTrace bool, setup func(s *Sim), finish func(s *Sim)) (res Result) {
	s := &Sim{
		T: t, Case: c,
		tasks:      map[int64]*Task{},
		locks:      map[uintptr]*lockState{},
		condq:      map[uintptr][]*Task{},
		deadNode:   map[string]bool{},
		crashHooks: map[string]func(){},
		faultHits:  make([]int, len(c.Faults)),
		hasSchedFaults: func() bool {
			for _, f := range c.Faults {
				if strings.HasPrefix(f.Op, "sched.") {
					return true
				}
			}
			return false
		}(),
		crashDone:  make([]bool, len(c.Faults)),
		rng:        rand.New(rand.NewPCG(c.SchedSeed, 0x9e3779b97f4a7c15)),
		aux:        rand.New(rand.NewPCG(c.Seed, 0xabcdef12345)),
		KeepTrace:  keepTrace,
		MaxSteps:   int(c.Cfg("max_steps", 4000)),
		MaxVirtual: time.Duration(c.Cfg("max_virtual_s", 600)) * time.Second,
	}
	s.Stats.FaultsFired = map[string]int{}
	s.Stats.Probes = map[string]int{}
	s.hash = 14695981039346656037
	s.sig = 14695981039346656037
	body := func(t *testing.T) {
		defer func() {
			if r := recover(); r != nil {
				msg := fmt.Sprint(r)
				if strings.Contains(msg, "deadlock") || strings.Contains(msg, "blocked goroutines remain") {
					s.Stats.Leaked++
					return
				}
				panic(r)
			}
		}()
		synctest.Test(t, func(t *testing.T) {
			s.rootGoid = goid()
			s.wake = make(chan struct{}, 1)
			s.start = time.Now()
			cur.Store(s)
			defer cur.Store(nil)
			setup(s)
			s.loop()
			if finish != nil && s.violation == nil {
				finish(s)
			}
			s.Stats.VirtualNs = int64(time.Since(s.start))
			s.shutdown()
		})
	}
	if RaceBuild {
		// Under -race any report (also one about simulator or harness memory,
		// which ./check ignores) fails the bubble's test and synctest.Test then
		// calls FailNow: give it a sub-test to end instead of the worker loop.
		t.Run("case", body)
	} else {
		body(t)
	}
	cur.Store(nil)
	if s.violation == nil {
		s.violation = s.soft
	}
	res.Violation = s.violation
	res.TraceHash = s.hash
	res.SchedSig = s.sig
	res.Stats = s.Stats
	res.Choices = s.Choices
	res.Trace = s.Trace
	return res
}

// Fail records the first violation of the run.
func (s *Sim) Fail(prop, clause, format string, args ...any) {
	s.vmu.Lock()
	if s.violation == nil {
		s.violation = &Violation{Property: prop, Clause: clause, Detail: fmt.Sprintf(format, args...), Step: s.step}
	}
	s.vmu.Unlock()
}

// FailSoft records a violation without ending the run: the run goes on so
// that other clauses are still explored, and the soft verdict is reported only
// if no other violation turns up. Used for clauses with an open known finding.
func (s *Sim) FailSoft(prop, clause, format string, args ...any) {
	s.vmu.Lock()
	if s.soft == nil {
		s.soft = &Violation{Property: prop, Clause: clause, Detail: fmt.Sprintf(format, args...), Step: s.step}
	}
	s.vmu.Unlock()
}

// Failed reports whether a violation has been recorded.
func (s *Sim) Failed() bool {
	s.vmu.Lock()
	defer s.vmu.Unlock()
	return s.violation != nil
}

// Probe counts a "this rare condition was hit" event.
func (s *Sim) Probe(name string) {
	s.mu.Lock()
	s.Stats.Probes[name]++
	s.mu.Unlock()
}

// Probe on the active sim, if any.
func Probe(name string) {
	if s := cur.Load(); s != nil {
		s.Probe(name)
	}
}

// OnStep registers an invariant evaluated by the scheduler after every step,
// while every task is parked or durably blocked.
func (s *Sim) OnStep(f func() error) { s.stepHooks = append(s.stepHooks, f) }

// OnCrash registers what happens right after node dies (typically: schedule a restart).
func (s *Sim) OnCrash(node string, f func()) { s.crashHooks[node] = f }

// OnStop registers a function run at shutdown (cancel contexts, Stop()).
func (s *Sim) OnStop(f func()) { s.stopFns = append(s.stopFns, f) }

// Step returns the current scheduler step (global event sequence number).
func (s *Sim) Step() int { return s.step }

// Now is virtual time since the start of the run.
func (s *Sim) Now() time.Duration { return time.Since(s.start) }

// Aux draws from the auxiliary PRNG stream (latencies, fragment sizes).
// Only call from the single running task or the scheduler.
func (s *Sim) Aux(n int) int {
	if n <= 1 {
		return 0
	}
	// A goroutine woken by a real primitive (semaphore, WaitGroup) can run at
	// the same time as the released task until it reaches its next shim, so a
	// shared stream would hand out values in a runtime-dependent order. Each
	// task therefore gets its own stream: hash(case seed, task name, counter).
	if t := s.me(); t != nil {
		t.auxN++
		h := fnv.New64a()
		fmt.Fprintf(h, "%d|%s|%d", s.Case.Seed, t.Name, t.auxN)
		return int(h.Sum64() % uint64(n))
	}
	s.mu.Lock()
	v := s.aux.IntN(n)
	s.mu.Unlock()
	return v
}

func (s *Sim) choose(n int) int {
	if n <= 1 {
		return 0
	}
	var v uint32
	if s.tapeIdx < len(s.Case.Tape) {
		v = s.Case.Tape[s.tapeIdx]
	} else if s.Case.SchedSeed != 0 {
		v = s.rng.Uint32()
	}
	s.tapeIdx++
	c := int(v % uint32(n))
	s.Choices = append(s.Choices, uint32(c))
	return c
}

func (s *Sim) record(contended bool, parts ...string) {
	line := strings.Join(parts, "|")
	h := fnv.New64a()
	var b [8]byte
	for i := 0; i < 8; i++ {
		b[i] = byte(s.hash >> (8 * i))
	}
	h.Write(b[:])
	h.Write([]byte(line))
	s.hash = h.Sum64()
	if contended {
		h2 := fnv.New64a()
		for i := 0; i < 8; i++ {
			b[i] = byte(s.sig >> (8 * i))
		}
		h2.Write(b[:])
		h2.Write([]byte(line))
		s.sig = h2.Sum64()
	}
	if s.KeepTrace {
		s.Trace = append(s.Trace, fmt.Sprintf("%d|%dus|%s", s.step, time.Since(s.start)/time.Microsecond, line))
	}
}

// Note adds a harness-level line to the trace (and the trace hash).
func (s *Sim) Note(format string, args ...any) {
	s.mu.Lock()
	s.record(false, "note", fmt.Sprintf(format, args...))
	s.mu.Unlock()
}

func (s *Sim) lockFree(e *entry, t *Task) bool {
	ls := s.locks[e.lk]
	if ls == nil {
		return true
	}
	if e.kind == kRLock {
		return ls.writer == nil
	}
	if ls.writer != nil {
		return false
	}
	for r := range ls.readers {
		if r != t {
			return false
		}
	}
	return len(ls.readers) == 0
}

func (s *Sim) enabled(t *Task, now time.Time) bool {
	e := t.entry
	if e == nil {
		return false
	}
	if t.Node != "" && s.deadNode[t.Node] {
		return true // will be poisoned
	}
	switch e.kind {
	case kStart, kYield, kIOResp:
		return true
	case kLock, kRLock:
		return s.lockFree(e, t)
	case kCond:
		return false
	case kIO, kSleep:
		if e.ctx != nil && e.ctx.Err() != nil {
			return true
		}
		return !now.Before(e.ready)
	case kWait:
		if e.ctx != nil && e.ctx.Err() != nil {
			return true
		}
		return e.fut.ready()
	}
	return false
}

func (s *Sim) aliveClients() int {
	n := 0
	for _, t := range s.all {
		if t.client && !t.done {
			n++
		}
	}
	return n
}

func (s *Sim) loop() {
	deadline := s.start.Add(s.MaxVirtual)
	for {
		synctest.Wait()
		if s.violation != nil {
			return
		}
		for _, h := range s.stepHooks {
			if err := h(); err != nil {
				if v, ok := err.(*Violation); ok {
					if s.violation == nil {
						v.Step = s.step
						s.violation = v
					}
				} else {
					s.Fail("HARNESS", "step-hook", "%v", err)
				}
				return
			}
		}
		if s.step >= s.MaxSteps {
			s.Stats.Truncated = true
			return
		}
		s.fireCrashes()
		now := time.Now()
		s.mu.Lock()
		var cands []*Task
		var next time.Time
		for _, t := range s.all {
			if t.done || t.entry == nil {
				continue
			}
			if s.enabled(t, now) {
				cands = append(cands, t)
			} else if k := t.entry.kind; k == kIO || k == kSleep {
				if next.IsZero() || t.entry.ready.Before(next) {
					next = t.entry.ready
				}
			}
		}
		clients := s.aliveClients()
		s.mu.Unlock()
		if len(cands) == 0 {
			if clients == 0 {
				return
			}
			if !now.Before(deadline) {
				s.Stats.Truncated = true
				s.Stats.Stuck = true
				s.mu.Lock()
				for _, t := range s.all {
					if t.done {
						continue
					}
					if t.entry != nil {
						s.Stats.StuckInfo = append(s.Stats.StuckInfo, fmt.Sprintf("%s parked %s %s dead=%v", t.Name, kindNames[t.entry.kind], t.entry.site, s.deadNode[t.Node]))
					} else {
						s.Stats.StuckInfo = append(s.Stats.StuckInfo, fmt.Sprintf("%s blocked outside simrt dead=%v", t.Name, s.deadNode[t.Node]))
					}
				}
				s.mu.Unlock()
				return
			}
			d := deadline.Sub(now)
			if !next.IsZero() && next.Sub(now) < d {
				d = next.Sub(now)
			}
			if d <= 0 {
				d = time.Nanosecond
			}
			timer := time.NewTimer(d)
			select {
			case <-s.wake:
			case <-timer.C:
			}
			timer.Stop()
			continue
		}
		select {
		case <-s.wake:
		default:
		}
		sort.Slice(cands, func(i, j int) bool { return cands[i].Name < cands[j].Name })
		pick := cands[s.choose(len(cands))]
		s.release(pick, len(cands) > 1)
	}
}

// release applies the effect of the chosen entry and lets its goroutine run.
func (s *Sim) release(t *Task, contended bool) {
	s.mu.Lock()
	e := t.entry
	t.entry = nil
	s.step++
	s.Stats.Steps++
	if contended {
		s.Stats.Contended++
	}
	out := Outcome{}
	if t.Node != "" && s.deadNode[t.Node] {
		out.poison = true
		if e.kind == kIO {
			out.Applied = s.chooseLocked(2) == 1
			out.Fault = "crash"
		}
		s.record(true, t.Name, kindNames[e.kind], e.site, "poison", fmt.Sprint(out.Applied))
		s.mu.Unlock()
		e.ch <- out
		return
	}
	switch e.kind {
	case kLock:
		ls := s.lockOf(e.lk)
		ls.writer = t
	case kRLock:
		ls := s.lockOf(e.lk)
		ls.readers[t]++
	case kIO:
		if e.ctx != nil && e.ctx.Err() != nil {
			out.Fault = "ctx_cancel"
			out.Applied = s.chooseLocked(2) == 1
		} else if f, arg := s.faultFor(e.opKind, e.opKey); f != "" {
			out.Fault = f
			out.Arg = arg
			out.Applied = FaultApplies(f)
		} else {
			out.Applied = true
		}
	case kWait, kSleep:
		if e.ctx != nil && e.ctx.Err() != nil {
			out.Fault = "ctx_cancel"
		}
	}
	s.record(contended || out.Fault != "", t.Name, kindNames[e.kind], e.site, e.opKind, e.opKey, out.Fault)
	s.mu.Unlock()
	for _, h := range s.releaseHooks {
		h(t.Name, e.site) // the world is quiescent here: a harness can look at stub state "at the step this code point executes"
	}
	e.ch <- out
}

// OnRelease registers an observer called by the scheduler each time a parked
// entry is released, with the task name and the entry's site (e.g.
// "storage.PartitionLog.AppendBatch#lock0").
func (s *Sim) OnRelease(f func(task, site string)) { s.releaseHooks = append(s.releaseHooks, f) }

func (s *Sim) chooseLocked(n int) int { return s.choose(n) }

// FaultApplies says whether an operation hit by this fault kind still takes
// effect on the service (lost response, slow, corrupted read) or not (refused).
func FaultApplies(kind string) bool {
	for _, suf := range []string{"fail_before", "unavail", ".err", "refused", ".drop", "list_err"} {
		if strings.HasSuffix(kind, suf) {
			return false
		}
	}
	return true
}

func (s *Sim) lockOf(k uintptr) *lockState {
	ls := s.locks[k]
	if ls == nil {
		ls = &lockState{readers: map[*Task]int{}}
		s.locks[k] = ls
	}
	return ls
}

// faultFor returns the fault (if any) for this operation and advances the
// per-fault match counters. Called with s.mu held.
func (s *Sim) faultFor(opKind, opKey string) (string, int64) {
	fired := ""
	var arg int64
	for i := range s.Case.Faults {
		f := &s.Case.Faults[i]
		if f.Kind == "crash" || f.Kind == "" {
			continue
		}
		if !strings.HasPrefix(opKind, f.Op) || !strings.Contains(opKey, f.Key) {
			continue
		}
		n := s.faultHits[i]
		s.faultHits[i]++
		cnt := f.Count
		if cnt <= 0 {
			cnt = 1
		}
		if n >= f.Nth && n < f.Nth+cnt && fired == "" {
			fired = f.Kind
			arg = f.Arg
		}
	}
	if fired != "" {
		s.Stats.FaultsFired[fired]++
	}
	return fired, arg
}

// PeekFault lets a stub ask for a fault outside an IO park (e.g. per-read
// corruption); same matching rules.
func (s *Sim) PeekFault(opKind, opKey string) (string, int64) {
	s.mu.Lock()
	defer s.mu.Unlock()
	return s.faultFor(opKind, opKey)
}

func (s *Sim) fireCrashes() {
	for i := range s.Case.Faults {
		f := &s.Case.Faults[i]
		if f.Kind != "crash" || s.crashDone[i] || s.step < f.Nth {
			continue
		}
		s.crashDone[i] = true
		s.CrashNode(f.Key)
	}
}

// CrashNode kills the current incarnation of node: every task of it dies at
// its next (or current) shim. The registered crash hook then runs.
func (s *Sim) CrashNode(node string) {
	s.mu.Lock()
	hook := s.crashHooks[node]
	s.mu.Unlock()
	if hook != nil {
		// the world owns incarnations: its hook picks the live one and calls KillNode
		hook()
		return
	}
	s.mu.Lock()
	inc := ""
	for _, t := range s.all {
		if !t.done && (t.Node == node || strings.HasPrefix(t.Node, node+"#")) && !s.deadNode[t.Node] {
			inc = t.Node
			break
		}
	}
	s.mu.Unlock()
	if inc != "" {
		s.KillNode(inc)
	}
}

// NodeDead reports whether the given node incarnation has been crashed.
func (s *Sim) NodeDead(inc string) bool {
	s.mu.Lock()
	defer s.mu.Unlock()
	return s.deadNode[inc]
}

// KillNode marks an exact incarnation dead: each of its tasks ends at its
// current or next shim; its in-flight I/O is applied or dropped by a draw.
func (s *Sim) KillNode(inc string) {
	s.mu.Lock()
	if !s.deadNode[inc] {
		s.deadNode[inc] = true
		s.Stats.FaultsFired["crash"]++
		s.record(true, "crash", inc)
	}
	s.mu.Unlock()
}

func (s *Sim) shutdown() {
	for _, f := range s.stopFns {
		f()
	}
	for round := 0; round < 200; round++ {
		synctest.Wait()
		s.mu.Lock()
		alive := 0
		var parked []*Task
		for _, t := range s.all {
			if t.done || (t.anon && t.entry == nil) {
				continue
			}
			alive++
			t.dying = true
			if t.entry != nil {
				parked = append(parked, t)
			}
		}
		s.mu.Unlock()
		if alive == 0 {
			return
		}
		if len(parked) == 0 {
			// Blocked on a real primitive or timer: let virtual time pass.
			time.Sleep(time.Second << uint(min(round, 12)))
			continue
		}
		for _, t := range parked {
			s.mu.Lock()
			e := t.entry
			t.entry = nil
			s.mu.Unlock()
			if e != nil {
				e.ch <- Outcome{poison: true, Fault: "shutdown"}
			}
		}
	}
	s.mu.Lock()
	for _, t := range s.all {
		if !t.done && !t.anon {
			s.Stats.Leaked++
		}
	}
	s.mu.Unlock()
}

// ---------------------------------------------------------------- tasks

func (s *Sim) newTask(name, node string, client bool) *Task {
	t := &Task{Name: name, Node: node, spawned: map[string]int{}, client: client, ch: make(chan Outcome, 1)}
	s.mu.Lock()
	s.all = append(s.all, t)
	s.mu.Unlock()
	return t
}

func (s *Sim) startTask(t *Task, fn func()) {
	go func() {
		t.goid = goid()
		s.mu.Lock()
		s.tasks[t.goid] = t
		s.mu.Unlock()
		defer s.finishTask(t)
		s.park(t, &entry{kind: kStart, site: "start"})
		fn()
	}()
}

func (s *Sim) finishTask(t *Task) {
	r := recover()
	s.mu.Lock()
	t.done = true
	delete(s.tasks, t.goid)
	// release nominal lock ownership so the table stays consistent
	for k, ls := range s.locks {
		if ls.writer == t {
			ls.writer = nil
		}
		delete(ls.readers, t)
		_ = k
	}
	if r != nil && t.dying {
		// The task was being unwound (end of the run, or its node crashed) together with its peers: a peer that
		// was unwound first ran its deferred calls (a WaitGroup.Done, a channel close) and this task went on for a
		// few statements over state no real execution produces. Whatever it tripped over says nothing about the code.
		s.Stats.Probes["simrt.panic-while-being-unwound"]++
	} else if r != nil {
		buf := make([]byte, 4096)
		n := runtime.Stack(buf, false)
		s.Stats.TaskPanics = append(s.Stats.TaskPanics, fmt.Sprintf("%s: %v\n%s", t.Name, r, buf[:n]))
	}
	s.mu.Unlock()
	s.notify()
}

func (s *Sim) notify() {
	RaceOff()
	select {
	case s.wake <- struct{}{}:
	default:
	}
	RaceOn()
}

// quietMutex is a mutex whose lock/unlock are invisible to the race detector
// (and so is everything between them): the simulator's own hand-offs must not
// add happens-before edges between application goroutines (DESIGN 2.8).
type quietMutex struct{ mu sync.Mutex }

// QuietMutex is for the stubs' internal state.
type QuietMutex = quietMutex

func (q *quietMutex) Lock()   { RaceOff(); q.mu.Lock() }
func (q *quietMutex) Unlock() { q.mu.Unlock(); RaceOn() }

func (s *Sim) park(t *Task, e *entry) Outcome {
	e.ch = t.ch
	s.mu.Lock()
	t.entry = e
	s.mu.Unlock()
	RaceOff()
	s.notify()
	out := <-e.ch
	RaceOn()
	if out.poison {
		t.dying = true
		if e.kind != kIO {
			t.exiting = true
			runtime.Goexit()
		}
	}
	return out
}

func childName(t *Task, site string) string {
	k := t.spawned[site]
	t.spawned[site] = k + 1
	return fmt.Sprintf("%s/%s#%d", t.Name, site, k)
}

// Spawn starts a named root task on a node ("" = no node). client tasks keep
// the run alive until they finish. Must be called from the scheduler goroutine
// (setup/hooks) or from a task.
func (s *Sim) Spawn(name, node string, client bool, fn func()) {
	t := s.newTask(name, node, client)
	s.startTask(t, fn)
}

// Go is the woven replacement of the go statement.
func Go(site string, fn func()) {
	s, t := current()
	if s == nil {
		if rs := rootSim(); rs != nil {
			nt := rs.newTask(rs.rootChild(site), rs.SetupNode, false)
			rs.startTask(nt, fn)
			return
		}
		go fn()
		return
	}
	nt := s.newTask(childName(t, site), t.Node, false)
	s.startTask(nt, fn)
}

// rootSim returns the active sim when the caller is its scheduler goroutine
// (harness set-up code constructing repo objects that start goroutines).
func rootSim() *Sim {
	s := cur.Load()
	if s != nil && goid() == s.rootGoid {
		return s
	}
	return nil
}

func (s *Sim) rootChild(site string) string {
	s.mu.Lock()
	defer s.mu.Unlock()
	if s.rootSpawn == nil {
		s.rootSpawn = map[string]int{}
	}
	k := s.rootSpawn[site]
	s.rootSpawn[site] = k + 1
	node := s.SetupNode
	if node == "" {
		node = "root"
	}
	return fmt.Sprintf("%s/%s#%d", node, site, k)
}

// WrapErr wraps a func() error handed to a library that will run it on a new
// goroutine (errgroup.Go).
func WrapErr(site string, fn func() error) func() error {
	s, t := current()
	if s == nil {
		return fn
	}
	nt := s.newTask(childName(t, site), t.Node, false)
	return func() (err error) {
		nt.goid = goid()
		s.mu.Lock()
		s.tasks[nt.goid] = nt
		s.mu.Unlock()
		defer s.finishTask(nt)
		s.park(nt, &entry{kind: kStart, site: "start"})
		return fn()
	}
}

// WrapVoid is WrapErr for func() (time.AfterFunc).
func WrapVoid(site string, fn func()) func() {
	s, t := current()
	if s == nil {
		return fn
	}
	var name, node string
	if t != nil {
		name, node = childName(t, site), t.Node
	}
	nt := s.newTask(name, node, false)
	return func() {
		nt.goid = goid()
		s.mu.Lock()
		s.tasks[nt.goid] = nt
		s.mu.Unlock()
		defer s.finishTask(nt)
		s.park(nt, &entry{kind: kStart, site: "start"})
		fn()
	}
}

// Yield is a plain scheduling point.
func Yield(site string) {
	s, t := current()
	if s == nil || checkDying(s, t) {
		return
	}
	s.park(t, &entry{kind: kYield, site: site})
}

// Sleep parks the task until virtual time has advanced by d (client think time).
func Sleep(d time.Duration) {
	s, t := current()
	if s == nil {
		time.Sleep(d)
		return
	}
	if checkDying(s, t) {
		return
	}
	s.park(t, &entry{kind: kSleep, site: "sleep", ready: time.Now().Add(d)})
}

// Dying reports whether the calling task belongs to a crashed node (or the
// run is shutting down).
func Dying() bool {
	s, t := current()
	if s == nil {
		return false
	}
	if t.dying {
		return true
	}
	if t.Node != "" {
		s.mu.Lock()
		d := s.deadNode[t.Node]
		s.mu.Unlock()
		if d {
			t.dying = true
		}
		return d
	}
	return false
}

// TaskName returns the calling task's name ("" for the scheduler).
func TaskName() string {
	_, t := current()
	if t == nil {
		return ""
	}
	return t.Name
}

// TaskNode returns the calling task's node incarnation.
func TaskNode() string {
	_, t := current()
	if t == nil {
		return ""
	}
	return t.Node
}

// ---------------------------------------------------------------- locks

func key(p unsafe.Pointer) uintptr { return uintptr(p) }

func (s *Sim) dyingLock(t *Task, k uintptr, try func() bool) {
	if try() {
		if t.real == nil {
			t.real = map[uintptr]int{}
		}
		t.real[k]++ // really taken (outside the lock table): its Unlock must reach the mutex
		return
	}
	if t.fake == nil {
		t.fake = map[uintptr]int{}
	}
	t.fake[k]++
}

func (s *Sim) dyingUnlock(t *Task, k uintptr) bool {
	if t.fake != nil && t.fake[k] > 0 {
		t.fake[k]--
		return true
	}
	return false
}

func checkDying(s *Sim, t *Task) bool {
	if !t.dying && t.Node != "" {
		s.mu.Lock()
		d := s.deadNode[t.Node]
		s.mu.Unlock()
		if d {
			t.dying = true
		}
	}
	if !t.dying {
		return false
	}
	// The first shim a dead task reaches ends it (deferred calls still run, and
	// application code cannot recover from it); shims reached while it unwinds
	// pass through without parking.
	if !t.exiting {
		t.exiting = true
		runtime.Goexit()
	}
	return true
}

// Lock is the woven replacement of (*sync.Mutex).Lock.
func Lock(m *sync.Mutex, site string) {
	s, t := current()
	if s == nil {
		m.Lock()
		return
	}
	k := key(unsafe.Pointer(m))
	if checkDying(s, t) {
		s.dyingLock(t, k, m.TryLock)
		return
	}
	s.maybeStall(t, site)
	s.park(t, &entry{kind: kLock, site: site, lk: k})
	m.Lock()
}

// maybeStall implements the "sched.stall" fault: a task about to take a lock is held back for a while
// (a goroutine that is not scheduled, a GC pause), which lets other tasks get in before it. Fault fields:
// Op "sched.lock", Key = substring of the lock site, Arg = duration in ns.
func (s *Sim) maybeStall(t *Task, site string) {
	if !s.hasSchedFaults {
		return
	}
	s.mu.Lock()
	f, arg := s.faultFor("sched.lock", site)
	s.mu.Unlock()
	if f != "sched.stall" || arg <= 0 {
		return
	}
	s.park(t, &entry{kind: kSleep, site: "sched.stall", ready: time.Now().Add(time.Duration(arg))})
}

// Unlock is the woven replacement of (*sync.Mutex).Unlock.
func Unlock(m *sync.Mutex) {
	s, t := current()
	if s == nil {
		m.Unlock()
		return
	}
	k := key(unsafe.Pointer(m))
	if t.dying && s.dyingUnlock(t, k) {
		return
	}
	if t.dying || t.exiting {
		// a task that is being unwound (its node crashed, the run is over) runs its deferred unlocks; if
		// it was unwound while it did not hold the mutex (between an explicit Unlock and the re-Lock of an
		// "unlock around a slow call" pattern) there is nothing to unlock
		s.mu.Lock()
		ls := s.locks[k]
		held := ls != nil && ls.writer == t
		s.mu.Unlock()
		if !held && t.real[k] > 0 {
			t.real[k]--
			held = true
		}
		if !held {
			return
		}
	}
	m.Unlock()
	s.mu.Lock()
	if ls := s.locks[k]; ls != nil && ls.writer == t {
		ls.writer = nil
	} else if ls != nil && ls.writer != nil && t.dying {
		// a dying task unlocking on behalf of itself after TryLock: nothing recorded
	}
	s.mu.Unlock()
}

// TryLock is the woven replacement of (*sync.Mutex).TryLock.
func TryLock(m *sync.Mutex, site string) bool {
	s, t := current()
	if s == nil {
		return m.TryLock()
	}
	k := key(unsafe.Pointer(m))
	if !checkDying(s, t) {
		s.park(t, &entry{kind: kYield, site: site})
	}
	s.mu.Lock()
	ls := s.lockOf(k)
	free := ls.writer == nil && len(ls.readers) == 0
	if free {
		ls.writer = t
	}
	s.mu.Unlock()
	if free {
		m.Lock()
	}
	return free
}

// WLock / WUnlock / RLock / RUnlock are the RWMutex shims.
func WLock(m *sync.RWMutex, site string) {
	s, t := current()
	if s == nil {
		m.Lock()
		return
	}
	k := key(unsafe.Pointer(m))
	if checkDying(s, t) {
		s.dyingLock(t, k, m.TryLock)
		return
	}
	s.maybeStall(t, site)
	s.park(t, &entry{kind: kLock, site: site, lk: k})
	m.Lock()
}

func WUnlock(m *sync.RWMutex) {
	s, t := current()
	if s == nil {
		m.Unlock()
		return
	}
	k := key(unsafe.Pointer(m))
	if t.dying && s.dyingUnlock(t, k) {
		return
	}
	m.Unlock()
	s.mu.Lock()
	if ls := s.locks[k]; ls != nil && ls.writer == t {
		ls.writer = nil
	}
	s.mu.Unlock()
}

func RLock(m *sync.RWMutex, site string) {
	s, t := current()
	if s == nil {
		m.RLock()
		return
	}
	k := key(unsafe.Pointer(m))
	if checkDying(s, t) {
		s.dyingLock(t, k+1, m.TryRLock)
		return
	}
	s.maybeStall(t, site)
	s.park(t, &entry{kind: kRLock, site: site, lk: k})
	m.RLock()
}

func RUnlock(m *sync.RWMutex) {
	s, t := current()
	if s == nil {
		m.RUnlock()
		return
	}
	k := key(unsafe.Pointer(m))
	if t.dying && s.dyingUnlock(t, k+1) {
		return
	}
	m.RUnlock()
	s.mu.Lock()
	if ls := s.locks[k]; ls != nil {
		if ls.readers[t] > 1 {
			ls.readers[t]--
		} else {
			delete(ls.readers, t)
		}
	}
	s.mu.Unlock()
}

// Held reports whether the sim's table says the mutex at p is held by some
// task (for oracles running on the scheduler goroutine).
func (s *Sim) Held(p unsafe.Pointer) bool {
	s.mu.Lock()
	defer s.mu.Unlock()
	ls := s.locks[key(p)]
	return ls != nil && (ls.writer != nil || len(ls.readers) > 0)
}

// ---------------------------------------------------------------- cond

// CondWait is the woven replacement of (*sync.Cond).Wait. c.L must be a
// *sync.Mutex (the only shape in the repo).
func CondWait(c *sync.Cond, site string) {
	s, t := current()
	if s == nil {
		c.Wait()
		return
	}
	m := c.L.(*sync.Mutex)
	mk := key(unsafe.Pointer(m))
	ck := key(unsafe.Pointer(c))
	if checkDying(s, t) {
		return // unwinding: nothing sensible to wait for
	}
	m.Unlock()
	s.mu.Lock()
	if ls := s.locks[mk]; ls != nil && ls.writer == t {
		ls.writer = nil
	}
	s.condq[ck] = append(s.condq[ck], t)
	s.mu.Unlock()
	s.park(t, &entry{kind: kCond, site: site, lk: mk, cond: ck})
	m.Lock()
}

func CondBroadcast(c *sync.Cond) {
	s, _ := current()
	if s == nil {
		if cs := cur.Load(); cs == nil {
			c.Broadcast()
			return
		} else {
			s = cs
		}
	}
	ck := key(unsafe.Pointer(c))
	s.mu.Lock()
	for _, w := range s.condq[ck] {
		if w.entry != nil && w.entry.kind == kCond {
			w.entry.kind = kLock
		}
	}
	delete(s.condq, ck)
	s.mu.Unlock()
}

func CondSignal(c *sync.Cond) {
	s, _ := current()
	if s == nil {
		if cs := cur.Load(); cs == nil {
			c.Signal()
			return
		} else {
			s = cs
		}
	}
	ck := key(unsafe.Pointer(c))
	s.mu.Lock()
	q := s.condq[ck]
	if len(q) > 0 {
		w := q[0]
		s.condq[ck] = q[1:]
		if w.entry != nil && w.entry.kind == kCond {
			w.entry.kind = kLock
		}
	}
	s.mu.Unlock()
}

// ---------------------------------------------------------------- I/O

// IO parks the calling task as a pending operation against a simulated
// service. When the scheduler completes it, apply (the operation's effect on
// the stub's state) runs iff the outcome says the request landed. A response
// hop (second scheduling point) follows so other tasks can run between the
// effect and the caller seeing the result. If the caller's node crashed while
// the operation was in flight the effect is applied-or-dropped by a schedule
// draw and the task ends.
func IO(ctx context.Context, opKind, opKey string, latency time.Duration, apply func()) Outcome {
	s, t := current()
	if s == nil {
		if apply != nil {
			apply()
		}
		return Outcome{Applied: true}
	}
	if checkDying(s, t) {
		return Outcome{Fault: "dead"}
	}
	out := s.park(t, &entry{kind: kIO, site: opKind, opKind: opKind, opKey: opKey, ctx: ctx, ready: time.Now().Add(latency)})
	if out.Fault == "slow" || strings.HasSuffix(out.Fault, ".slow") {
		// extra latency then success
		if out.Arg > 0 {
			o2 := s.park(t, &entry{kind: kSleep, site: opKind + ".slow", ready: time.Now().Add(time.Duration(out.Arg))})
			if o2.poison {
				t.exiting = true
				runtime.Goexit()
			}
		}
	}
	if out.Applied && apply != nil {
		apply()
	}
	if out.poison {
		t.exiting = true
		runtime.Goexit()
	}
	s.park(t, &entry{kind: kIOResp, site: opKind + ".resp", opKind: opKind, opKey: opKey})
	return out
}

// ---------------------------------------------------------------- futures

// Future carries a result from one task to another (a simulated RPC reply).
type Future struct {
	s    *Sim
	mu   quietMutex
	done bool
	node string // if set: the future fails when this node incarnation dies
	val  any
}

func (s *Sim) NewFuture(node string) *Future { return &Future{s: s, node: node} }

func (f *Future) ready() bool {
	f.mu.Lock()
	d := f.done
	f.mu.Unlock()
	if d {
		return true
	}
	return f.node != "" && f.s.deadNode[f.node]
}

// Set completes the future.
func (f *Future) Set(v any) {
	f.mu.Lock()
	f.val = v
	f.done = true
	f.mu.Unlock()
	f.s.notify()
}

// Wait parks until the future is set, its node died (ok=false) or ctx is done.
func (f *Future) Wait(ctx context.Context, site string) (v any, ok bool) {
	s, t := current()
	if s == nil {
		panic("Future.Wait outside a simulation task")
	}
	if checkDying(s, t) {
		return nil, false
	}
	s.park(t, &entry{kind: kWait, site: site, fut: f, ctx: ctx})
	f.mu.Lock()
	defer f.mu.Unlock()
	return f.val, f.done
}

// ---------------------------------------------------------------- maps

// MapKeys returns the keys of m in a deterministic, per-run permuted order.
func MapKeys[M ~map[K]V, K comparable, V any](m M) []K {
	keys := make([]K, 0, len(m))
	for k := range m {
		keys = append(keys, k)
	}
	if len(keys) < 2 {
		return keys
	}
	strs := make([]string, len(keys))
	for i, k := range keys {
		strs[i] = fmt.Sprintf("%v", k)
	}
	idx := make([]int, len(keys))
	for i := range idx {
		idx[i] = i
	}
	sort.Slice(idx, func(a, b int) bool { return strs[idx[a]] < strs[idx[b]] })
	out := make([]K, len(keys))
	for i, j := range idx {
		out[i] = keys[j]
	}
	if s := cur.Load(); s != nil {
		if ms := uint64(s.Case.Cfg("map_seed", 0)); ms != 0 {
			if s.Case.Cfg("map_reshuffle", 0) == 1 {
				// a fresh order on every iteration (as Go's runtime gives), still a function of the schedule
				ms += uint64(s.mapCalls.Add(1)) * 0x9e3779b97f4a7c15
			}
			r := rand.New(rand.NewPCG(ms, uint64(len(out))))
			r.Shuffle(len(out), func(i, j int) { out[i], out[j] = out[j], out[i] })
		}
	}
	return out
}

// Method values of the sync primitives (mu.Unlock passed around as a func): the weaver
// replaces them with these closures.
func LockFn(m *sync.Mutex, site string) func()    { return func() { Lock(m, site) } }
func UnlockFn(m *sync.Mutex) func()               { return func() { Unlock(m) } }
func WLockFn(m *sync.RWMutex, site string) func() { return func() { WLock(m, site) } }
func WUnlockFn(m *sync.RWMutex) func()            { return func() { WUnlock(m) } }
func RLockFn(m *sync.RWMutex, site string) func() { return func() { RLock(m, site) } }
func RUnlockFn(m *sync.RWMutex) func()            { return func() { RUnlock(m) } }

// PanicInHarness reports whether a recorded task panic (TaskPanics entry: value + stack) was raised by
// harness or simulator code rather than by the code under test: the innermost frame that is neither Go
// runtime nor this package decides. Worlds whose property is "never panics" use it to keep their own bugs
// from being reported as the repository's.
func PanicInHarness(msg string) bool {
	for _, l := range strings.Split(msg, "\n") {
		if !strings.HasPrefix(l, "\t/") {
			continue
		}
		path := strings.TrimSpace(l)
		if i := strings.Index(path, ":"); i > 0 {
			path = path[:i]
		}
		if strings.Contains(path, "/src/runtime/") || strings.Contains(path, "/src/testing/") || strings.HasSuffix(path, "/sim/simrt/simrt.go") {
			continue
		}
		base := path[strings.LastIndex(path, "/")+1:]
		return strings.HasPrefix(base, "zz_") || strings.Contains(path, "/verif/sim/") || strings.Contains(path, "/verif/harness/")
	}
	return false
}
