//go:build !race

package simrt

import "unsafe"

const RaceBuild = false

func RaceOff()                     {}
func RaceOn()                      {}
func RacePublish(p unsafe.Pointer) {}
func RaceObserve(p unsafe.Pointer) {}
