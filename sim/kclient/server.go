package kclient

import (
	"encoding/binary"
	"errors"
	"fmt"

	"github.com/twmb/franz-go/pkg/kmsg"
)

// DecodeRequest parses a request frame payload the way a standard broker does
// (independently of the repo's pkg/protocol).
func DecodeRequest(payload []byte) (req kmsg.Request, corr int32, clientID *string, err error) {
	if len(payload) < 10 {
		return nil, 0, nil, errors.New("kclient: request shorter than a header")
	}
	key := int16(binary.BigEndian.Uint16(payload[0:2]))
	ver := int16(binary.BigEndian.Uint16(payload[2:4]))
	corr = int32(binary.BigEndian.Uint32(payload[4:8]))
	n := int(int16(binary.BigEndian.Uint16(payload[8:10])))
	body := payload[10:]
	if n >= 0 {
		if len(body) < n {
			return nil, corr, nil, errors.New("kclient: client id longer than the frame")
		}
		s := string(body[:n])
		clientID = &s
		body = body[n:]
	}
	req = kmsg.RequestForKey(key)
	if req == nil {
		return nil, corr, clientID, fmt.Errorf("kclient: unknown api key %d", key)
	}
	req.SetVersion(ver)
	if req.IsFlexible() {
		if len(body) < 1 || body[0] != 0 {
			return nil, corr, clientID, errors.New("kclient: request header tag section")
		}
		body = body[1:]
	}
	if err := req.ReadFrom(body); err != nil {
		return nil, corr, clientID, fmt.Errorf("kclient: decode %s v%d request: %w", kmsg.NameForKey(key), ver, err)
	}
	return req, corr, clientID, nil
}

// EncodeResponse returns a complete wire frame (length prefix included) for resp.
func EncodeResponse(req kmsg.Request, corr int32, resp kmsg.Response) []byte {
	resp.SetVersion(req.GetVersion())
	b := make([]byte, 4, 64)
	b = binary.BigEndian.AppendUint32(b, uint32(corr))
	if req.IsFlexible() && req.Key() != 18 {
		b = append(b, 0)
	}
	b = resp.AppendTo(b)
	binary.BigEndian.PutUint32(b[:4], uint32(len(b)-4))
	return b
}
