// Package kclient encodes Kafka requests and decodes responses the way a
// standard client does (kmsg codecs + hand-written headers), independently of
// the repo's pkg/protocol.
package kclient

import (
	"encoding/binary"
	"errors"
	"fmt"

	"github.com/twmb/franz-go/pkg/kmsg"
)

// EncodeRequest returns the frame payload (without the 4-byte length prefix).
func EncodeRequest(req kmsg.Request, corr int32, clientID *string) []byte {
	b := make([]byte, 0, 64)
	b = binary.BigEndian.AppendUint16(b, uint16(req.Key()))
	b = binary.BigEndian.AppendUint16(b, uint16(req.GetVersion()))
	b = binary.BigEndian.AppendUint32(b, uint32(corr))
	if clientID == nil {
		b = binary.BigEndian.AppendUint16(b, 0xffff)
	} else {
		b = binary.BigEndian.AppendUint16(b, uint16(len(*clientID)))
		b = append(b, *clientID...)
	}
	if req.IsFlexible() {
		b = append(b, 0) // no tagged fields
	}
	return req.AppendTo(b)
}

// DecodeResponse decodes the reply to req: checks the header shape and
// returns the correlation id and the typed response.
func DecodeResponse(req kmsg.Request, data []byte) (kmsg.Response, int32, error) {
	if len(data) < 4 {
		return nil, 0, errors.New("kclient: response shorter than a correlation id")
	}
	corr := int32(binary.BigEndian.Uint32(data[:4]))
	body := data[4:]
	if req.IsFlexible() && req.Key() != 18 { // ApiVersions responses never have a flexible header
		if len(body) < 1 {
			return nil, corr, errors.New("kclient: missing response header tag section")
		}
		if body[0] != 0 {
			return nil, corr, fmt.Errorf("kclient: unexpected response header tags 0x%02x", body[0])
		}
		body = body[1:]
	}
	resp := req.ResponseKind()
	resp.SetVersion(req.GetVersion())
	if err := resp.ReadFrom(body); err != nil {
		return nil, corr, fmt.Errorf("kclient: decode %s v%d: %w", kmsg.NameForKey(req.Key()), req.GetVersion(), err)
	}
	return resp, corr, nil
}
