// Package simetcd is a simulated etcd: a linearizable MVCC key-value store with
// leases on the virtual clock and ordered watches, exposed as a real
// *clientv3.Client (the concrete type the repo uses everywhere) without
// sockets or gRPC. Every RPC is a pending simrt.IO operation. See DESIGN.md
// section 3.2 and appendix C.
package simetcd

import (
	"bytes"
	"context"
	"errors"
	"fmt"
	"sort"
	"strings"
	"time"

	pb "go.etcd.io/etcd/api/v3/etcdserverpb"
	"go.etcd.io/etcd/api/v3/mvccpb"
	"go.etcd.io/etcd/api/v3/v3rpc/rpctypes"
	clientv3 "go.etcd.io/etcd/client/v3"
	"google.golang.org/grpc"

	"verif/sim/simrt"
)

type kv struct {
	value                []byte
	create, mod, version int64
	lease                int64
}

type lease struct {
	id     int64
	ttl    time.Duration
	expiry time.Time
	keys   map[string]bool
	owner  string
}

// Applied is one applied write (for oracles: who changed what, when).
type Applied struct {
	Step   int
	Rev    int64
	Client string
	Task   string
	Op     string // put / delete / expire / revoke
	Key    string
	Value  string
	Prev   string
	Lease  int64
}

type watcher struct {
	id       int
	client   string
	key, end string
	queue    []*clientv3.Event
	ch       chan clientv3.WatchResponse
	ctx      context.Context
	closed   bool
	wake     *simrt.Future
}

// Server is one simulated etcd cluster.
type Server struct {
	clientSeq int
	mu        simrt.QuietMutex
	sim       *simrt.Sim
	rev       int64
	kvs       map[string]*kv
	leases    map[int64]*lease
	nextID    int64
	watchers  []*watcher
	wseq      int
	compacted int64 // revisions below this one are no longer available to watches (0 = nothing compacted)
	Log       []Applied
	LatUs     int64
	active    *Server
}

var current *Server

// Install makes srv the target of New() (the woven clientv3.New) for this run.
func Install(srv *Server) { current = srv }

func NewServer(sim *simrt.Sim, latUs int64) *Server {
	s := &Server{sim: sim, rev: 1, kvs: map[string]*kv{}, leases: map[int64]*lease{}, nextID: 7000, LatUs: latUs}
	return s
}

func (s *Server) lat() time.Duration {
	base := s.LatUs
	if base <= 0 {
		base = 400
	}
	return time.Duration(base+int64(s.sim.Aux(int(base)))) * time.Microsecond
}

// ---------------------------------------------------------------- state machine (call with s.mu held)

func (s *Server) expireDue(now time.Time) {
	var due []*lease
	for _, l := range s.leases {
		if !now.Before(l.expiry) {
			due = append(due, l)
		}
	}
	sort.Slice(due, func(i, j int) bool { return due[i].id < due[j].id })
	for _, l := range due {
		s.dropLease(l, "expire")
	}
}

func (s *Server) dropLease(l *lease, how string) {
	delete(s.leases, l.id)
	var keys []string
	for k := range l.keys {
		keys = append(keys, k)
	}
	sort.Strings(keys)
	if len(keys) == 0 {
		return
	}
	s.rev++
	for _, k := range keys {
		if cur := s.kvs[k]; cur != nil && cur.lease == l.id {
			s.deleteKey(k, how, "lease-"+fmt.Sprint(l.id))
		}
	}
}

func (s *Server) note(a Applied) {
	a.Step, a.Rev = s.sim.Step(), s.rev
	if a.Task == "" {
		a.Task = simrt.TaskName()
	}
	s.Log = append(s.Log, a)
}

func (s *Server) toKV(k string, v *kv) *mvccpb.KeyValue {
	return &mvccpb.KeyValue{Key: []byte(k), Value: append([]byte(nil), v.value...), CreateRevision: v.create, ModRevision: v.mod, Version: v.version, Lease: v.lease}
}

func (s *Server) emit(ev *clientv3.Event) {
	k := string(ev.Kv.Key)
	for _, w := range s.watchers {
		if w.closed {
			continue
		}
		if inRange(k, w.key, w.end) {
			w.queue = append(w.queue, ev)
			if w.wake != nil {
				w.wake.Set(true)
			}
		}
	}
}

func inRange(k, key, end string) bool {
	switch {
	case end == "":
		return k == key
	case end == "\x00":
		return k >= key
	default:
		return k >= key && k < end
	}
}

// putKey applies a put at the current s.rev (caller bumped it).
func (s *Server) putKey(k string, val []byte, leaseID int64, client string) {
	prev := s.kvs[k]
	n := &kv{value: append([]byte(nil), val...), mod: s.rev, lease: leaseID}
	var prevKV *mvccpb.KeyValue
	prevVal := ""
	if prev != nil {
		n.create, n.version = prev.create, prev.version+1
		prevKV = s.toKV(k, prev)
		prevVal = string(prev.value)
		if prev.lease != 0 && prev.lease != leaseID {
			if l := s.leases[prev.lease]; l != nil {
				delete(l.keys, k)
			}
		}
	} else {
		n.create, n.version = s.rev, 1
	}
	s.kvs[k] = n
	if leaseID != 0 {
		if l := s.leases[leaseID]; l != nil {
			l.keys[k] = true
		}
	}
	s.note(Applied{Client: client, Op: "put", Key: k, Value: string(val), Prev: prevVal, Lease: leaseID})
	s.emit(&clientv3.Event{Type: mvccpb.PUT, Kv: s.toKV(k, n), PrevKv: prevKV})
}

func (s *Server) deleteKey(k, how, client string) {
	prev := s.kvs[k]
	if prev == nil {
		return
	}
	delete(s.kvs, k)
	if prev.lease != 0 {
		if l := s.leases[prev.lease]; l != nil {
			delete(l.keys, k)
		}
	}
	s.note(Applied{Client: client, Op: how, Key: k, Prev: string(prev.value), Lease: prev.lease})
	s.emit(&clientv3.Event{Type: mvccpb.DELETE, Kv: &mvccpb.KeyValue{Key: []byte(k), ModRevision: s.rev}, PrevKv: s.toKV(k, prev)})
}

func (s *Server) keysIn(key, end string) []string {
	var ks []string
	for k := range s.kvs {
		if inRange(k, key, end) {
			ks = append(ks, k)
		}
	}
	sort.Strings(ks)
	return ks
}

func (s *Server) header() *pb.ResponseHeader {
	return &pb.ResponseHeader{ClusterId: 1, MemberId: 1, Revision: s.rev, RaftTerm: 1}
}

func (s *Server) doRange(r *pb.RangeRequest) *pb.RangeResponse {
	resp := &pb.RangeResponse{Header: s.header()}
	ks := s.keysIn(string(r.Key), string(r.RangeEnd))
	resp.Count = int64(len(ks))
	if r.CountOnly {
		return resp
	}
	for i, k := range ks {
		if r.Limit > 0 && int64(i) >= r.Limit {
			resp.More = true
			break
		}
		e := s.toKV(k, s.kvs[k])
		if r.KeysOnly {
			e.Value = nil
		}
		resp.Kvs = append(resp.Kvs, e)
	}
	return resp
}

func (s *Server) doPut(r *pb.PutRequest, client string, bump bool) (*pb.PutResponse, error) {
	if r.Lease != 0 && s.leases[r.Lease] == nil {
		return nil, rpctypes.ErrLeaseNotFound
	}
	if bump {
		s.rev++
	}
	resp := &pb.PutResponse{}
	if prev := s.kvs[string(r.Key)]; prev != nil && r.PrevKv {
		resp.PrevKv = s.toKV(string(r.Key), prev)
	}
	val, lease := r.Value, r.Lease
	if r.IgnoreLease || r.IgnoreValue {
		// etcd: the key must exist; its current lease / value is kept
		prev := s.kvs[string(r.Key)]
		if prev == nil {
			return nil, rpctypes.ErrKeyNotFound
		}
		if r.IgnoreLease {
			lease = prev.lease
		}
		if r.IgnoreValue {
			val = prev.value
		}
	}
	s.putKey(string(r.Key), val, lease, client)
	resp.Header = s.header()
	return resp, nil
}

func (s *Server) doDelete(r *pb.DeleteRangeRequest, client string, bump bool) *pb.DeleteRangeResponse {
	ks := s.keysIn(string(r.Key), string(r.RangeEnd))
	resp := &pb.DeleteRangeResponse{Deleted: int64(len(ks))}
	if len(ks) > 0 && bump {
		s.rev++
	}
	for _, k := range ks {
		if r.PrevKv {
			resp.PrevKvs = append(resp.PrevKvs, s.toKV(k, s.kvs[k]))
		}
		s.deleteKey(k, "delete", client)
	}
	resp.Header = s.header()
	return resp
}

func (s *Server) compare(c *pb.Compare) bool {
	cur := s.kvs[string(c.Key)]
	var cmp int
	switch c.Target {
	case pb.Compare_VALUE:
		var v []byte
		if cur != nil {
			v = cur.value
		}
		want, _ := c.TargetUnion.(*pb.Compare_Value)
		var wv []byte
		if want != nil {
			wv = want.Value
		}
		if cur == nil {
			// etcd: a value compare on a missing key fails for every operator
			return false
		}
		cmp = bytes.Compare(v, wv)
	default:
		var have, want int64
		switch c.Target {
		case pb.Compare_VERSION:
			if cur != nil {
				have = cur.version
			}
			if t, ok := c.TargetUnion.(*pb.Compare_Version); ok {
				want = t.Version
			}
		case pb.Compare_CREATE:
			if cur != nil {
				have = cur.create
			}
			if t, ok := c.TargetUnion.(*pb.Compare_CreateRevision); ok {
				want = t.CreateRevision
			}
		case pb.Compare_MOD:
			if cur != nil {
				have = cur.mod
			}
			if t, ok := c.TargetUnion.(*pb.Compare_ModRevision); ok {
				want = t.ModRevision
			}
		case pb.Compare_LEASE:
			if cur != nil {
				have = cur.lease
			}
			if t, ok := c.TargetUnion.(*pb.Compare_Lease); ok {
				want = t.Lease
			}
		}
		switch {
		case have < want:
			cmp = -1
		case have > want:
			cmp = 1
		}
	}
	switch c.Result {
	case pb.Compare_EQUAL:
		return cmp == 0
	case pb.Compare_NOT_EQUAL:
		return cmp != 0
	case pb.Compare_GREATER:
		return cmp > 0
	case pb.Compare_LESS:
		return cmp < 0
	}
	return false
}

func (s *Server) doTxn(r *pb.TxnRequest, client string) (*pb.TxnResponse, error) {
	ok := true
	for _, c := range r.Compare {
		if !s.compare(c) {
			ok = false
			break
		}
	}
	ops := r.Success
	if !ok {
		ops = r.Failure
	}
	// validate leases first (the whole txn fails atomically)
	writes := false
	for _, op := range ops {
		if p := op.GetRequestPut(); p != nil {
			writes = true
			if p.Lease != 0 && s.leases[p.Lease] == nil {
				return nil, rpctypes.ErrLeaseNotFound
			}
		}
		if d := op.GetRequestDeleteRange(); d != nil && len(s.keysIn(string(d.Key), string(d.RangeEnd))) > 0 {
			writes = true
		}
	}
	if writes {
		s.rev++
	}
	resp := &pb.TxnResponse{Succeeded: ok}
	for _, op := range ops {
		switch {
		case op.GetRequestRange() != nil:
			resp.Responses = append(resp.Responses, &pb.ResponseOp{Response: &pb.ResponseOp_ResponseRange{ResponseRange: s.doRange(op.GetRequestRange())}})
		case op.GetRequestPut() != nil:
			pr, _ := s.doPut(op.GetRequestPut(), client, false)
			resp.Responses = append(resp.Responses, &pb.ResponseOp{Response: &pb.ResponseOp_ResponsePut{ResponsePut: pr}})
		case op.GetRequestDeleteRange() != nil:
			resp.Responses = append(resp.Responses, &pb.ResponseOp{Response: &pb.ResponseOp_ResponseDeleteRange{ResponseDeleteRange: s.doDelete(op.GetRequestDeleteRange(), client, false)}})
		default:
			return nil, errors.New("simetcd: nested transactions are not supported")
		}
	}
	resp.Header = s.header()
	return resp, nil
}

// ---------------------------------------------------------------- client plumbing

// Unavailable is the error class for injected etcd failures.
var Unavailable = rpctypes.ErrGRPCNoLeader

func errFor(out simrt.Outcome) error {
	switch {
	case out.Fault == "":
		return nil
	case out.Fault == "ctx_cancel":
		return context.Canceled
	case out.Fault == "dead" || out.Fault == "crash" || out.Fault == "shutdown":
		return context.Canceled
	case strings.HasSuffix(out.Fault, ".slow"):
		return nil
	case strings.HasSuffix(out.Fault, "timeout_applied"):
		return context.DeadlineExceeded
	}
	return rpctypes.ErrNoLeader
}

type kvClient struct {
	s    *Server
	name string
}

func (c *kvClient) rpc(ctx context.Context, op, key string, apply func() error) error {
	var aerr error
	out := simrt.IO(ctx, "etcd."+op, key+"@"+c.name, c.s.lat(), func() {
		c.s.mu.Lock()
		c.s.expireDue(time.Now())
		aerr = apply()
		c.s.mu.Unlock()
	})
	if err := errFor(out); err != nil {
		return err
	}
	return aerr
}

func (c *kvClient) Range(ctx context.Context, in *pb.RangeRequest, _ ...grpc.CallOption) (r *pb.RangeResponse, err error) {
	err = c.rpc(ctx, "range", string(in.Key), func() error { r = c.s.doRange(in); return nil })
	if err != nil {
		r = nil
	}
	return
}
func (c *kvClient) Put(ctx context.Context, in *pb.PutRequest, _ ...grpc.CallOption) (r *pb.PutResponse, err error) {
	err = c.rpc(ctx, "put", string(in.Key), func() (e error) { r, e = c.s.doPut(in, c.name, true); return })
	if err != nil {
		r = nil
	}
	return
}
func (c *kvClient) DeleteRange(ctx context.Context, in *pb.DeleteRangeRequest, _ ...grpc.CallOption) (r *pb.DeleteRangeResponse, err error) {
	err = c.rpc(ctx, "delete", string(in.Key), func() error { r = c.s.doDelete(in, c.name, true); return nil })
	if err != nil {
		r = nil
	}
	return
}
func (c *kvClient) Txn(ctx context.Context, in *pb.TxnRequest, _ ...grpc.CallOption) (r *pb.TxnResponse, err error) {
	key := ""
	if len(in.Compare) > 0 {
		key = string(in.Compare[0].Key)
	}
	err = c.rpc(ctx, "txn", key, func() (e error) { r, e = c.s.doTxn(in, c.name); return })
	if err != nil {
		r = nil
	}
	return
}
func (c *kvClient) Compact(ctx context.Context, in *pb.CompactionRequest, _ ...grpc.CallOption) (*pb.CompactionResponse, error) {
	return &pb.CompactionResponse{}, nil
}

// ---------------------------------------------------------------- leases

type leaseClient struct {
	s    *Server
	name string
	seq  int
}

func (l *leaseClient) Grant(ctx context.Context, ttl int64) (*clientv3.LeaseGrantResponse, error) {
	var id int64
	c := &kvClient{s: l.s, name: l.name}
	err := c.rpc(ctx, "lease.grant", "", func() error {
		l.s.nextID++
		id = l.s.nextID
		d := time.Duration(ttl) * time.Second
		l.s.leases[id] = &lease{id: id, ttl: d, expiry: time.Now().Add(d), keys: map[string]bool{}, owner: l.name}
		l.s.note(Applied{Client: l.name, Op: "grant", Lease: id})
		l.s.kick()
		return nil
	})
	if err != nil {
		return nil, err
	}
	return &clientv3.LeaseGrantResponse{ResponseHeader: &pb.ResponseHeader{Revision: l.s.rev}, ID: clientv3.LeaseID(id), TTL: ttl}, nil
}

func (l *leaseClient) Revoke(ctx context.Context, id clientv3.LeaseID) (*clientv3.LeaseRevokeResponse, error) {
	c := &kvClient{s: l.s, name: l.name}
	err := c.rpc(ctx, "lease.revoke", fmt.Sprint(int64(id)), func() error {
		le := l.s.leases[int64(id)]
		if le == nil {
			return rpctypes.ErrLeaseNotFound
		}
		l.s.dropLease(le, "revoke")
		return nil
	})
	if err != nil {
		return nil, err
	}
	return &clientv3.LeaseRevokeResponse{}, nil
}

func (l *leaseClient) TimeToLive(ctx context.Context, id clientv3.LeaseID, _ ...clientv3.LeaseOption) (*clientv3.LeaseTimeToLiveResponse, error) {
	resp := &clientv3.LeaseTimeToLiveResponse{ID: id, TTL: -1}
	c := &kvClient{s: l.s, name: l.name}
	err := c.rpc(ctx, "lease.ttl", fmt.Sprint(int64(id)), func() error {
		if le := l.s.leases[int64(id)]; le != nil {
			resp.TTL = int64(time.Until(le.expiry) / time.Second)
			resp.GrantedTTL = int64(le.ttl / time.Second)
		}
		return nil
	})
	return resp, err
}

func (l *leaseClient) Leases(ctx context.Context) (*clientv3.LeaseLeasesResponse, error) {
	return &clientv3.LeaseLeasesResponse{}, nil
}

// KeepAlive renews the lease every ttl/3 through the simulated network until
// ctx ends, the server says the lease is gone, or no renewal got through for a
// whole ttl (the client-side deadline) - then the channel closes.
func (l *leaseClient) KeepAlive(ctx context.Context, id clientv3.LeaseID) (<-chan *clientv3.LeaseKeepAliveResponse, error) {
	ch := make(chan *clientv3.LeaseKeepAliveResponse, 16)
	l.s.mu.Lock()
	le := l.s.leases[int64(id)]
	var ttl time.Duration
	if le != nil {
		ttl = le.ttl
	}
	l.s.mu.Unlock()
	if le == nil {
		close(ch)
		return ch, nil
	}
	l.seq++
	c := &kvClient{s: l.s, name: l.name}
	simrt.Go(fmt.Sprintf("etcd-keepalive-%s-%d", l.name, l.seq), func() {
		defer close(ch)
		lastOK := time.Now()
		nextSend := lastOK.Add(ttl / 3)
		for {
			// like the real client: renew every ttl/3, and a deadline loop that closes the
			// channel as soon as a whole ttl has passed since the last successful renewal
			deadline := lastOK.Add(ttl)
			wake := nextSend
			if deadline.Before(wake) {
				wake = deadline
			}
			if d := time.Until(wake); d > 0 {
				simrt.Sleep(d)
			}
			if ctx.Err() != nil {
				return
			}
			if !time.Now().Before(deadline) {
				return // client-side expiry
			}
			if time.Now().Before(nextSend) {
				continue
			}
			nextSend = time.Now().Add(ttl / 3)
			alive := false
			err := c.rpc(ctx, "lease.keepalive", fmt.Sprint(int64(id)), func() error {
				if cur := l.s.leases[int64(id)]; cur != nil {
					cur.expiry = time.Now().Add(cur.ttl)
					alive = true
				}
				return nil
			})
			if err == nil && !alive {
				return // the server no longer knows the lease
			}
			if err == nil {
				lastOK = time.Now()
				select {
				case ch <- &clientv3.LeaseKeepAliveResponse{ID: id, TTL: int64(ttl / time.Second)}:
				default:
				}
			} else if time.Since(lastOK) > ttl {
				return // client-side deadline: nothing got through for a whole ttl
			}
		}
	})
	return ch, nil
}

func (l *leaseClient) KeepAliveOnce(ctx context.Context, id clientv3.LeaseID) (*clientv3.LeaseKeepAliveResponse, error) {
	alive := false
	c := &kvClient{s: l.s, name: l.name}
	err := c.rpc(ctx, "lease.keepalive", fmt.Sprint(int64(id)), func() error {
		if cur := l.s.leases[int64(id)]; cur != nil {
			cur.expiry = time.Now().Add(cur.ttl)
			alive = true
		}
		return nil
	})
	if err != nil {
		return nil, err
	}
	if !alive {
		return nil, rpctypes.ErrLeaseNotFound
	}
	return &clientv3.LeaseKeepAliveResponse{ID: id}, nil
}

func (l *leaseClient) Close() error { return nil }

// kick wakes the expirer (a lease was granted / the schedule changed).
func (s *Server) kick() {}

// StartExpirer runs the server-side lease expiry on the virtual clock.
func (s *Server) StartExpirer() {
	s.sim.Spawn("etcd/expirer", "", false, func() {
		for {
			s.mu.Lock()
			var next time.Time
			for _, l := range s.leases {
				if next.IsZero() || l.expiry.Before(next) {
					next = l.expiry
				}
			}
			s.mu.Unlock()
			d := 250 * time.Millisecond
			if !next.IsZero() {
				if u := time.Until(next); u > 0 && u < d {
					d = u
				} else if u <= 0 {
					d = 0
				}
			} else {
				d = time.Second
			}
			if d > 0 {
				simrt.Sleep(d)
			}
			if simrt.Dying() {
				return
			}
			s.mu.Lock()
			s.expireDue(time.Now())
			s.mu.Unlock()
			if d == 0 {
				simrt.Sleep(time.Millisecond)
			}
		}
	})
}

// ExpireNow ends a lease immediately (fault: lease.expire_now).
func (s *Server) ExpireNow(id int64) {
	s.mu.Lock()
	if l := s.leases[id]; l != nil {
		s.dropLease(l, "expire")
	}
	s.mu.Unlock()
}

// ---------------------------------------------------------------- watches

type watchClient struct {
	s    *Server
	name string
}

func (wc *watchClient) Watch(ctx context.Context, key string, opts ...clientv3.OpOption) clientv3.WatchChan {
	op := clientv3.OpGet(key, opts...)
	w := &watcher{client: wc.name, key: string(op.KeyBytes()), end: string(op.RangeBytes()), ch: make(chan clientv3.WatchResponse, 64), ctx: ctx}
	startRev := op.Rev()
	s := wc.s
	c := &kvClient{s: s, name: wc.name}
	s.mu.Lock()
	s.wseq++
	w.id = s.wseq
	s.mu.Unlock()
	simrt.Go(fmt.Sprintf("etcd-watch-%s-%d", wc.name, w.id), func() {
		defer func() {
			s.mu.Lock()
			w.closed = true
			s.mu.Unlock()
			close(w.ch)
		}()
		// registration is itself a message to the server: events applied before it
		// lands are not delivered when no start revision was asked for
		compactedAt := int64(0)
		err := c.rpc(ctx, "watch.create", w.key, func() error {
			if startRev > 0 && startRev < s.compacted {
				// the history this watch asks for has been compacted away: etcd cancels the watch and says
				// from which revision on events are still to be had
				compactedAt = s.compacted
				return nil
			}
			if startRev > 0 {
				// replay from the requested revision out of the applied-write log
				for _, a := range s.Log {
					if a.Rev >= startRev && inRange(a.Key, w.key, w.end) {
						switch a.Op {
						case "put":
							w.queue = append(w.queue, &clientv3.Event{Type: mvccpb.PUT, Kv: &mvccpb.KeyValue{Key: []byte(a.Key), Value: []byte(a.Value), ModRevision: a.Rev, Lease: a.Lease}})
						case "delete", "expire", "revoke":
							w.queue = append(w.queue, &clientv3.Event{Type: mvccpb.DELETE, Kv: &mvccpb.KeyValue{Key: []byte(a.Key), ModRevision: a.Rev}, PrevKv: &mvccpb.KeyValue{Key: []byte(a.Key), Value: []byte(a.Prev)}})
						}
					}
				}
			}
			s.watchers = append(s.watchers, w)
			return nil
		})
		if err != nil {
			w.ch <- clientv3.WatchResponse{Canceled: true}
			return
		}
		if compactedAt > 0 {
			s.sim.Probe("etcd.watch-from-compacted-revision")
			w.ch <- clientv3.WatchResponse{Canceled: true, CompactRevision: compactedAt}
			return
		}
		for {
			s.mu.Lock()
			var batch []*clientv3.Event
			if len(w.queue) > 0 {
				// events of one revision travel together
				rev := w.queue[0].Kv.ModRevision
				n := 0
				for n < len(w.queue) && w.queue[n].Kv.ModRevision == rev {
					n++
				}
				// a watcher that is behind gets the events of several revisions in one response (as etcd
				// does for a watcher that is catching up); the order inside the response is revision order
				if n < len(w.queue) && s.sim.Aux(3) == 0 {
					more := 1 + s.sim.Aux(len(w.queue)-n)
					for k := 0; k < more && n < len(w.queue); k++ {
						r2 := w.queue[n].Kv.ModRevision
						for n < len(w.queue) && w.queue[n].Kv.ModRevision == r2 {
							n++
						}
					}
				}
				batch = append(batch, w.queue[:n]...)
				w.queue = w.queue[n:]
			} else {
				w.wake = s.sim.NewFuture("")
			}
			wake := w.wake
			s.mu.Unlock()
			if batch == nil {
				if _, ok := wake.Wait(ctx, "etcd.watch.idle"); !ok || ctx.Err() != nil {
					if ctx.Err() != nil {
						return
					}
				}
				s.mu.Lock()
				w.wake = nil
				s.mu.Unlock()
				if ctx.Err() != nil || simrt.Dying() {
					return
				}
				continue
			}
			out := simrt.IO(ctx, "etcd.watch.deliver", w.key+"@"+wc.name, s.lat(), nil)
			switch {
			case out.Fault == "ctx_cancel" || out.Fault == "dead" || out.Fault == "crash" || out.Fault == "shutdown":
				return
			case strings.HasSuffix(out.Fault, "watch.compact"):
				// the stream breaks and the server compacts its history up to and including the events that
				// were pending: they can no longer be had from any watch, only the current state can be read
				s.mu.Lock()
				if c := batch[len(batch)-1].Kv.ModRevision + 1; c > s.compacted {
					s.compacted = c
				}
				at := s.compacted
				s.mu.Unlock()
				w.ch <- clientv3.WatchResponse{Canceled: true, CompactRevision: at}
				return
			case strings.HasSuffix(out.Fault, "watch.close"):
				// the stream breaks (compaction / cancelled stream): the pending events are lost with it
				w.ch <- clientv3.WatchResponse{Canceled: true, CompactRevision: batch[0].Kv.ModRevision}
				return
			case strings.HasSuffix(out.Fault, "watch.err_resp"):
				w.ch <- clientv3.WatchResponse{Canceled: true}
				return
			}
			// (a Go select with several ready cases picks one at random, which no seed controls: if the
			// watch has been cancelled by now, that decides)
			if ctx.Err() != nil {
				return
			}
			select {
			case w.ch <- clientv3.WatchResponse{Header: pb.ResponseHeader{Revision: batch[len(batch)-1].Kv.ModRevision}, Events: batch}:
			case <-ctx.Done():
				return
			}
		}
	})
	return w.ch
}

func (wc *watchClient) RequestProgress(ctx context.Context) error { return nil }
func (wc *watchClient) Close() error                              { return nil }

// ---------------------------------------------------------------- construction

// Client returns a real *clientv3.Client wired to the server; name identifies
// the node for fault targeting ("@name" suffix of operation keys) and write
// attribution.
func (s *Server) Client(name string) *clientv3.Client {
	c := clientv3.NewCtxClient(context.Background())
	c.KV = clientv3.NewKVFromKVClient(&kvClient{s: s, name: name}, c)
	c.Lease = &leaseClient{s: s, name: name}
	c.Watcher = &watchClient{s: s, name: name}
	c.Maintenance = &maintClient{s: s, name: name}
	return c
}

// maintClient answers the two maintenance calls the operator makes; every other
// method of the embedded (nil) interface panics if reached.
type maintClient struct {
	clientv3.Maintenance
	s    *Server
	name string
}

func (m *maintClient) Status(ctx context.Context, endpoint string) (*clientv3.StatusResponse, error) {
	out := simrt.IO(ctx, "etcd.status", endpoint+"@"+m.name, m.s.lat(), nil)
	if out.Fault != "" && !strings.HasSuffix(out.Fault, "slow") {
		return nil, fmt.Errorf("simetcd: status %s: %s", endpoint, out.Fault)
	}
	return &clientv3.StatusResponse{DbSize: 1 << 20, DbSizeInUse: 1 << 19}, nil
}

func (m *maintClient) AlarmList(ctx context.Context) (*clientv3.AlarmResponse, error) {
	out := simrt.IO(ctx, "etcd.alarmlist", "@"+m.name, m.s.lat(), nil)
	if out.Fault != "" && !strings.HasSuffix(out.Fault, "slow") {
		return nil, fmt.Errorf("simetcd: alarm list: %s", out.Fault)
	}
	return &clientv3.AlarmResponse{}, nil
}

// NextClientName lets a harness say which node the next New() call belongs to.
var NextClientName = ""

// New is the woven replacement of clientv3.New.
func New(cfg clientv3.Config) (*clientv3.Client, error) {
	if current == nil || !simrt.Active() {
		return clientv3.New(cfg)
	}
	name := NextClientName
	if name == "" {
		current.clientSeq++
		name = fmt.Sprintf("client%d", current.clientSeq)
	}
	return current.Client(name), nil
}

// ---------------------------------------------------------------- oracle access (no scheduling)

// Snapshot returns key -> value of everything under prefix.
func (s *Server) Snapshot(prefix string) map[string]string {
	s.mu.Lock()
	defer s.mu.Unlock()
	out := map[string]string{}
	for k, v := range s.kvs {
		if strings.HasPrefix(k, prefix) {
			out[k] = string(v.value)
		}
	}
	return out
}

// KeyInfo returns value, lease id and whether the key exists.
func (s *Server) KeyInfo(k string) (string, int64, bool) {
	s.mu.Lock()
	defer s.mu.Unlock()
	v := s.kvs[k]
	if v == nil {
		return "", 0, false
	}
	return string(v.value), v.lease, true
}

// LeaseAlive reports whether the server still holds the lease.
func (s *Server) LeaseAlive(id int64) bool {
	s.mu.Lock()
	defer s.mu.Unlock()
	return s.leases[id] != nil
}

// LeaseOwner returns the client that was granted the lease.
func (s *Server) LeaseOwner(id int64) string {
	s.mu.Lock()
	defer s.mu.Unlock()
	if l := s.leases[id]; l != nil {
		return l.owner
	}
	return ""
}

// Applied returns a copy of the applied-write log.
func (s *Server) AppliedLog() []Applied {
	s.mu.Lock()
	defer s.mu.Unlock()
	return append([]Applied(nil), s.Log...)
}

func (s *Server) Rev() int64 {
	s.mu.Lock()
	defer s.mu.Unlock()
	return s.rev
}
