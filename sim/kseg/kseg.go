// Package kseg parses KafScale segment (.kfs) and index (.index) files
// independently of the repo's code. It is part of the oracles: the layout is
// the documented one (32-byte header "KAFS", body of Kafka v2 record batches,
// 16-byte footer crc32c|lastOffset|"END!"; index "IDX\0" + 12-byte entries).
package kseg

import (
	"encoding/binary"
	"fmt"
	"hash/crc32"

	"verif/sim/kbatch"
)

var castagnoli = crc32.MakeTable(crc32.Castagnoli)

type Segment struct {
	Version      uint16
	Flags        uint16
	BaseOffset   int64
	MessageCount int32
	CreatedMs    int64
	Batches      []*kbatch.Batch
	BatchPos     []int // file position of each batch
	FooterCRC    uint32
	BodyCRC      uint32
	LastOffset   int64
}

func Parse(b []byte) (*Segment, error) {
	if len(b) < 48 {
		return nil, fmt.Errorf("kseg: %d bytes is shorter than header+footer", len(b))
	}
	if string(b[:4]) != "KAFS" {
		return nil, fmt.Errorf("kseg: bad header magic %q", b[:4])
	}
	s := &Segment{}
	s.Version = binary.BigEndian.Uint16(b[4:6])
	s.Flags = binary.BigEndian.Uint16(b[6:8])
	s.BaseOffset = int64(binary.BigEndian.Uint64(b[8:16]))
	s.MessageCount = int32(binary.BigEndian.Uint32(b[16:20]))
	s.CreatedMs = int64(binary.BigEndian.Uint64(b[20:28]))
	foot := b[len(b)-16:]
	if string(foot[12:16]) != "END!" {
		return nil, fmt.Errorf("kseg: bad footer magic %q", foot[12:16])
	}
	s.FooterCRC = binary.BigEndian.Uint32(foot[0:4])
	s.LastOffset = int64(binary.BigEndian.Uint64(foot[4:12]))
	body := b[32 : len(b)-16]
	s.BodyCRC = crc32.Checksum(body, castagnoli)
	pos := 0
	for pos < len(body) {
		bt, n, err := kbatch.ParseOne(body[pos:])
		if err != nil {
			return s, fmt.Errorf("kseg: body position %d: %w", 32+pos, err)
		}
		s.Batches = append(s.Batches, bt)
		s.BatchPos = append(s.BatchPos, 32+pos)
		pos += n
	}
	return s, nil
}

// Check returns the first structural defect of a parsed segment ("" if none).
func (s *Segment) Check() string {
	if s.Version != 1 {
		return fmt.Sprintf("header version %d", s.Version)
	}
	if s.FooterCRC != s.BodyCRC {
		return fmt.Sprintf("footer CRC %08x, body CRC %08x", s.FooterCRC, s.BodyCRC)
	}
	if len(s.Batches) == 0 {
		return "no batches"
	}
	if s.Batches[0].BaseOffset != s.BaseOffset {
		return fmt.Sprintf("header base offset %d, first batch base %d", s.BaseOffset, s.Batches[0].BaseOffset)
	}
	total := int32(0)
	next := s.BaseOffset
	for i, b := range s.Batches {
		if !b.CRCOK {
			return fmt.Sprintf("batch %d CRC invalid", i)
		}
		if b.BaseOffset < next {
			return fmt.Sprintf("batch %d base %d overlaps the previous batch (next free %d)", i, b.BaseOffset, next)
		}
		next = b.BaseOffset + int64(b.LastOffsetDelta) + 1
		total += b.RecordCount
	}
	if total != s.MessageCount {
		return fmt.Sprintf("header message count %d, batches hold %d", s.MessageCount, total)
	}
	if s.LastOffset != next-1 {
		return fmt.Sprintf("footer last offset %d, last batch ends at %d", s.LastOffset, next-1)
	}
	return ""
}

type IndexEntry struct {
	Offset   int64
	Position int32
}

type Index struct {
	Version  uint16
	Interval int32
	Entries  []IndexEntry
}

func ParseIndex(b []byte) (*Index, error) {
	if len(b) < 16 || string(b[:4]) != "IDX\x00" {
		return nil, fmt.Errorf("kseg: bad index header")
	}
	ix := &Index{Version: binary.BigEndian.Uint16(b[4:6]), Interval: int32(binary.BigEndian.Uint32(b[10:14]))}
	n := int(int32(binary.BigEndian.Uint32(b[6:10])))
	if n < 0 || 16+12*n != len(b) {
		return nil, fmt.Errorf("kseg: index declares %d entries in %d bytes", n, len(b))
	}
	for i := 0; i < n; i++ {
		e := b[16+12*i:]
		ix.Entries = append(ix.Entries, IndexEntry{int64(binary.BigEndian.Uint64(e[0:8])), int32(binary.BigEndian.Uint32(e[8:12]))})
	}
	return ix, nil
}

// CheckAgainst verifies that every entry points at the start of the batch with
// that base offset and that offsets increase.
func (ix *Index) CheckAgainst(s *Segment) string {
	if ix.Version != 1 {
		return fmt.Sprintf("index version %d", ix.Version)
	}
	if len(ix.Entries) == 0 {
		return "index has no entries"
	}
	at := map[int]int64{}
	for i, p := range s.BatchPos {
		at[p] = s.Batches[i].BaseOffset
	}
	prev := int64(-1)
	for i, e := range ix.Entries {
		base, ok := at[int(e.Position)]
		if !ok {
			return fmt.Sprintf("entry %d position %d is not the start of a batch", i, e.Position)
		}
		if base != e.Offset {
			return fmt.Sprintf("entry %d says offset %d at position %d, the batch there starts at %d", i, e.Offset, e.Position, base)
		}
		if e.Offset <= prev {
			return fmt.Sprintf("entry %d offset %d does not increase", i, e.Offset)
		}
		prev = e.Offset
	}
	if ix.Entries[0].Offset != s.BaseOffset {
		return fmt.Sprintf("first entry offset %d, segment base %d", ix.Entries[0].Offset, s.BaseOffset)
	}
	return ""
}

// Build serialises raw Kafka v2 batches (each with its base offset already
// patched) into a segment and its index, following the documented layout.
// indexInterval: an index entry is added for the first batch and then whenever
// at least that many messages were written since the last entry.
func Build(batches [][]byte, createdMs int64, indexInterval int32) (segment, index []byte, err error) {
	if len(batches) == 0 {
		return nil, nil, fmt.Errorf("kseg: no batches")
	}
	if indexInterval <= 0 {
		indexInterval = 1
	}
	var body []byte
	var entries []IndexEntry
	total := int32(0)
	since := int32(0)
	var base, last int64
	for i, raw := range batches {
		b, n, perr := kbatch.ParseOne(raw)
		if perr != nil || n != len(raw) {
			return nil, nil, fmt.Errorf("kseg: batch %d: %v", i, perr)
		}
		if i == 0 {
			base = b.BaseOffset
		}
		if len(entries) == 0 || since >= indexInterval {
			entries = append(entries, IndexEntry{b.BaseOffset, int32(32 + len(body))})
			since = 0
		}
		since += b.RecordCount
		total += b.RecordCount
		last = b.BaseOffset + int64(b.LastOffsetDelta)
		body = append(body, raw...)
	}
	seg := make([]byte, 32, 32+len(body)+16)
	copy(seg, "KAFS")
	binary.BigEndian.PutUint16(seg[4:6], 1)
	binary.BigEndian.PutUint64(seg[8:16], uint64(base))
	binary.BigEndian.PutUint32(seg[16:20], uint32(total))
	binary.BigEndian.PutUint64(seg[20:28], uint64(createdMs))
	seg = append(seg, body...)
	foot := make([]byte, 16)
	binary.BigEndian.PutUint32(foot[0:4], crc32.Checksum(body, castagnoli))
	binary.BigEndian.PutUint64(foot[4:12], uint64(last))
	copy(foot[12:], "END!")
	seg = append(seg, foot...)
	ix := make([]byte, 16, 16+12*len(entries))
	copy(ix, "IDX\x00")
	binary.BigEndian.PutUint16(ix[4:6], 1)
	binary.BigEndian.PutUint32(ix[6:10], uint32(len(entries)))
	binary.BigEndian.PutUint32(ix[10:14], uint32(indexInterval))
	for _, e := range entries {
		var eb [12]byte
		binary.BigEndian.PutUint64(eb[0:8], uint64(e.Offset))
		binary.BigEndian.PutUint32(eb[8:12], uint32(e.Position))
		ix = append(ix, eb[:]...)
	}
	return seg, ix, nil
}
