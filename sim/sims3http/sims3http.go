// Package sims3http puts the S3 REST protocol (the subset the repo's AWS SDK
// clients use: ListObjectsV2, GetObject with Range, PutObject, path style) in
// front of a simulated bucket, as an HTTP client the SDK can be given instead
// of a socket-backed one. Every request is one scheduled, fault-injectable
// I/O of the bucket, so the real SDK client code (request building, XML
// parsing, pagination, error mapping) runs inside the simulator.
package sims3http

import (
	"bytes"
	"encoding/xml"
	"errors"
	"fmt"
	"io"
	"net/http"
	"strconv"
	"strings"

	"verif/sim/simrt"
	"verif/sim/sims3"
)

// Client implements the SDK's HTTPClient interface (Do).
type Client struct {
	Store    *sims3.Store
	Bucket   string
	PageSize int    // objects per listing page (0 = 1000)
	OpPrefix string // prefix of the I/O operation names ("" = "h")
	// Requests counts requests by kind (list, get, get_range, put)
	Requests map[string]int
}

func New(store *sims3.Store, bucket string) *Client {
	return &Client{Store: store, Bucket: bucket, Requests: map[string]int{}}
}

type listResult struct {
	XMLName               xml.Name  `xml:"ListBucketResult"`
	Xmlns                 string    `xml:"xmlns,attr"`
	Name                  string    `xml:"Name"`
	Prefix                string    `xml:"Prefix"`
	KeyCount              int       `xml:"KeyCount"`
	MaxKeys               int       `xml:"MaxKeys"`
	IsTruncated           bool      `xml:"IsTruncated"`
	ContinuationToken     string    `xml:"ContinuationToken,omitempty"`
	NextContinuationToken string    `xml:"NextContinuationToken,omitempty"`
	Contents              []listObj `xml:"Contents"`
}

type listObj struct {
	Key          string `xml:"Key"`
	LastModified string `xml:"LastModified"`
	ETag         string `xml:"ETag"`
	Size         int64  `xml:"Size"`
	StorageClass string `xml:"StorageClass"`
}

func (c *Client) op(kind string) string {
	p := c.OpPrefix
	if p == "" {
		p = "h"
	}
	return p + "." + kind
}

func response(req *http.Request, status int, hdr map[string]string, body []byte) *http.Response {
	h := http.Header{}
	for k, v := range hdr {
		h.Set(k, v)
	}
	h.Set("x-amz-request-id", "SIM")
	return &http.Response{Status: fmt.Sprintf("%d %s", status, http.StatusText(status)), StatusCode: status, Proto: "HTTP/1.1", ProtoMajor: 1, ProtoMinor: 1,
		Header: h, Body: io.NopCloser(bytes.NewReader(body)), ContentLength: int64(len(body)), Request: req}
}

func s3error(req *http.Request, status int, code, msg string) *http.Response {
	body := fmt.Sprintf(`<?xml version="1.0" encoding="UTF-8"?><Error><Code>%s</Code><Message>%s</Message><RequestId>SIM</RequestId></Error>`, code, msg)
	return response(req, status, map[string]string{"Content-Type": "application/xml"}, []byte(body))
}

// failingBody yields n bytes and then a connection error.
type failingBody struct {
	data []byte
	pos  int
}

func (b *failingBody) Read(p []byte) (int, error) {
	if b.pos >= len(b.data) {
		// what net/http reports when the peer goes away before Content-Length bytes have arrived
		return 0, io.ErrUnexpectedEOF
	}
	n := copy(p, b.data[b.pos:])
	b.pos += n
	return n, nil
}
func (b *failingBody) Close() error { return nil }

// Do serves one request. Injected failures of the bucket I/O surface as
// transport errors; a missing key is a 404 NoSuchKey.
func (c *Client) Do(req *http.Request) (*http.Response, error) {
	path := strings.TrimPrefix(req.URL.Path, "/")
	bucket, key, _ := strings.Cut(path, "/")
	if bucket != c.Bucket {
		return s3error(req, 404, "NoSuchBucket", "no such bucket "+bucket), nil
	}
	ctx := req.Context()
	switch {
	case req.Method == http.MethodGet && key == "":
		c.Requests["list"]++
		q := req.URL.Query()
		prefix := q.Get("prefix")
		token := q.Get("continuation-token")
		page := c.PageSize
		if page <= 0 {
			page = 1000
		}
		if mk, err := strconv.Atoi(q.Get("max-keys")); err == nil && mk > 0 && mk < page {
			page = mk
		}
		objs, err := c.Store.List(ctx, c.op("list"), prefix)
		if err != nil {
			return nil, err
		}
		res := listResult{Xmlns: "http://s3.amazonaws.com/doc/2006-03-01/", Name: bucket, Prefix: prefix, MaxKeys: page, ContinuationToken: token}
		for _, o := range objs {
			if token != "" && o.Key <= token {
				continue
			}
			if len(res.Contents) == page {
				res.IsTruncated = true
				res.NextContinuationToken = res.Contents[len(res.Contents)-1].Key
				break
			}
			res.Contents = append(res.Contents, listObj{Key: o.Key, LastModified: "2000-01-01T00:00:00.000Z", ETag: `"sim"`, Size: o.Size, StorageClass: "STANDARD"})
		}
		res.KeyCount = len(res.Contents)
		body, _ := xml.Marshal(res)
		return response(req, 200, map[string]string{"Content-Type": "application/xml"}, append([]byte(xml.Header), body...)), nil

	case req.Method == http.MethodGet:
		kind := "get"
		rng := req.Header.Get("Range")
		if rng != "" {
			kind = "get_range"
		}
		c.Requests[kind]++
		data, err := c.Store.Get(ctx, c.op(kind), key, nil)
		if errors.Is(err, sims3.ErrNotFound) {
			return s3error(req, 404, "NoSuchKey", "The specified key does not exist."), nil
		}
		if err != nil {
			return nil, err
		}
		status := 200
		hdr := map[string]string{"Content-Type": "application/octet-stream", "ETag": `"sim"`, "Last-Modified": "Sat, 01 Jan 2000 00:00:00 GMT"}
		if rng != "" {
			total := int64(len(data))
			spec := strings.TrimPrefix(rng, "bytes=")
			a, b, _ := strings.Cut(spec, "-")
			var start, end int64
			switch {
			case a == "": // suffix
				n, _ := strconv.ParseInt(b, 10, 64)
				if n > total {
					n = total
				}
				start, end = total-n, total-1
			case b == "":
				start, _ = strconv.ParseInt(a, 10, 64)
				end = total - 1
			default:
				start, _ = strconv.ParseInt(a, 10, 64)
				end, _ = strconv.ParseInt(b, 10, 64)
				if end >= total {
					end = total - 1
				}
			}
			if total == 0 || start > end || start < 0 {
				return s3error(req, 416, "InvalidRange", "The requested range is not satisfiable"), nil
			}
			data = data[start : end+1]
			status = 206
			hdr["Content-Range"] = fmt.Sprintf("bytes %d-%d/%d", start, end, total)
		}
		resp := response(req, status, hdr, data)
		if sim := simrt.Current(); sim != nil {
			if f, arg := sim.PeekFault(c.op("body"), key); f != "" {
				cut := 0
				if len(data) > 0 {
					cut = int(uint64(arg) % uint64(len(data)))
				}
				resp.Body = &failingBody{data: data[:cut]}
			}
		}
		return resp, nil

	case req.Method == http.MethodPut:
		c.Requests["put"]++
		var body []byte
		if req.Body != nil {
			b, err := io.ReadAll(req.Body)
			if err != nil {
				return nil, err
			}
			body = b
		}
		if err := c.Store.Put(ctx, c.op("put"), key, body); err != nil {
			return nil, err
		}
		return response(req, 200, map[string]string{"ETag": `"sim"`}, nil), nil
	}
	return s3error(req, 405, "MethodNotAllowed", req.Method), nil
}
