// Package simnet provides in-bubble net.Conn implementations whose delivery
// (fragment sizes, delays, EOF/RST positions, stalls) is decided by the
// simulator.
package simnet

import (
	"errors"
	"io"
	"net"
	"strings"
	"time"

	"verif/sim/simrt"
)

// ErrReset is returned after an injected connection reset.
var ErrReset = errors.New("simnet: connection reset by peer")

type addr string

func (a addr) Network() string { return "sim" }
func (a addr) String() string  { return string(a) }

// ScriptConn is a connection whose inbound byte stream is known up front (the
// peer "already sent" it); the reader sees it in drawn fragments. Writes by
// the local side are collected in Out.
type ScriptConn struct {
	Name    string
	In      []byte
	pos     int
	Out     []byte
	MaxFrag int  // largest fragment a Read returns (0 = whole remaining data)
	RSTAt   int  // if >= 0: reads fail with ErrReset once pos reaches it
	closed  bool
	LatUs   int64
	Reads   int
	Local   string
	Remote  string
	// ReadMarks / WriteMarks: at which scheduler step each Read started handing out bytes from
	// offset Off of In, and each Write appended at offset Off of Out
	ReadMarks, WriteMarks []Mark
}

func NewScriptConn(name string, in []byte) *ScriptConn {
	return &ScriptConn{Name: name, In: in, RSTAt: -1, LatUs: 50, Local: "10.0.0.1:9092", Remote: "10.0.0.9:50000"}
}

func (c *ScriptConn) Read(p []byte) (int, error) {
	if c.closed {
		return 0, net.ErrClosed
	}
	if len(p) == 0 {
		return 0, nil
	}
	out := simrt.IO(nil, "net.read", c.Name, time.Duration(c.LatUs)*time.Microsecond, nil)
	if out.Fault != "" && !strings.HasSuffix(out.Fault, ".slow") {
		if out.Fault == "dead" || out.Fault == "crash" || out.Fault == "shutdown" {
			return 0, net.ErrClosed
		}
		return 0, ErrReset
	}
	c.Reads++
	if c.RSTAt >= 0 && c.pos >= c.RSTAt {
		return 0, ErrReset
	}
	rem := len(c.In) - c.pos
	if c.RSTAt >= 0 && c.RSTAt-c.pos < rem {
		rem = c.RSTAt - c.pos
	}
	if rem <= 0 {
		return 0, io.EOF
	}
	n := rem
	if c.MaxFrag > 0 && n > c.MaxFrag {
		n = c.MaxFrag
	}
	if n > 1 {
		if s := simrt.Current(); s != nil {
			n = 1 + s.Aux(n)
		}
	}
	if n > len(p) {
		n = len(p)
	}
	if s := simrt.Current(); s != nil {
		c.ReadMarks = append(c.ReadMarks, Mark{c.pos, s.Step()})
	}
	copy(p, c.In[c.pos:c.pos+n])
	c.pos += n
	return n, nil
}

func (c *ScriptConn) Write(p []byte) (int, error) {
	if c.closed {
		return 0, net.ErrClosed
	}
	simrt.Yield("net.write")
	if s := simrt.Current(); s != nil {
		c.WriteMarks = append(c.WriteMarks, Mark{len(c.Out), s.Step()})
	}
	c.Out = append(c.Out, p...)
	return len(p), nil
}

func (c *ScriptConn) Close() error                       { c.closed = true; return nil }
func (c *ScriptConn) LocalAddr() net.Addr                { return addr(c.Local) }
func (c *ScriptConn) RemoteAddr() net.Addr               { return addr(c.Remote) }
func (c *ScriptConn) SetDeadline(t time.Time) error      { return nil }
func (c *ScriptConn) SetReadDeadline(t time.Time) error  { return nil }
func (c *ScriptConn) SetWriteDeadline(t time.Time) error { return nil }

// Consumed reports how many inbound bytes have been handed to readers.
func (c *ScriptConn) Consumed() int { return c.pos }
