package simnet

import (
	"encoding/binary"
	"io"
	"net"
	"strings"
	"time"

	"verif/sim/simrt"
)

// Reply is what a scripted server does with one request frame.
type Reply struct {
	Data  []byte        // bytes put on the wire towards the client (already framed; may be nil)
	Close bool          // the server closes the connection after Data
	Stall time.Duration // with no Data: the server goes silent; the reader waits this long, then the connection resets
}

// ServerConn is the client half of a connection to a scripted server: the code
// under test writes length-prefixed request frames and reads replies. The
// server's behaviour per frame is the Handle callback, invoked at the step the
// frame's last byte is written (delivery is instantaneous, replies are not:
// every Read is a simulated IO with latency and faults).
type ServerConn struct {
	Name    string
	Peer    string
	Handle  func(c *ServerConn, frame []byte) Reply
	Framer  func(c *ServerConn, buf []byte) int // nil: Kafka framing (4-byte length prefix, stripped before Handle)
	LatUs   int64
	MaxFrag int

	in         []byte
	out        []byte
	peerClosed bool
	stall      time.Duration
	closed     bool
	broken     bool
	Frames     int
}

// Mark records at which scheduler step a byte offset of a stream was reached.
type Mark struct{ Off, Step int }

func NewServerConn(name, peer string, h func(c *ServerConn, frame []byte) Reply) *ServerConn {
	return &ServerConn{Name: name, Peer: peer, Handle: h, LatUs: 200}
}

func (c *ServerConn) Write(p []byte) (int, error) {
	if c.closed {
		return 0, net.ErrClosed
	}
	if c.broken {
		return 0, ErrReset
	}
	out := simrt.IO(nil, "net.write", c.Name, time.Duration(c.LatUs)*time.Microsecond, nil)
	if out.Fault != "" && !strings.HasSuffix(out.Fault, "slow") {
		if out.Fault == "dead" {
			return 0, net.ErrClosed
		}
		// reset before any of these bytes reached the server
		c.broken = true
		return 0, ErrReset
	}
	if c.peerClosed {
		// the kernel accepts the bytes; the peer never sees them
		return len(p), nil
	}
	c.in = append(c.in, p...)
	for !c.peerClosed {
		if c.Framer != nil {
			// a protocol with its own framing: Framer says how many bytes the next whole message takes (0: not yet)
			n := c.Framer(c, c.in)
			if n <= 0 || n > len(c.in) {
				break
			}
			frame := append([]byte(nil), c.in[:n]...)
			c.in = c.in[n:]
			c.Frames++
			r := c.Handle(c, frame)
			c.out = append(c.out, r.Data...)
			if r.Close {
				c.peerClosed = true
			}
			if r.Stall > 0 {
				c.stall = r.Stall
			}
			continue
		}
		if len(c.in) < 4 {
			break
		}
		n := int(binary.BigEndian.Uint32(c.in[:4]))
		if n < 0 || len(c.in) < 4+n {
			break
		}
		frame := append([]byte(nil), c.in[4:4+n]...)
		c.in = c.in[4+n:]
		c.Frames++
		r := c.Handle(c, frame)
		c.out = append(c.out, r.Data...)
		if r.Close {
			c.peerClosed = true
		}
		if r.Stall > 0 {
			c.stall = r.Stall
		}
	}
	return len(p), nil
}

func (c *ServerConn) Read(p []byte) (int, error) {
	if c.closed {
		return 0, net.ErrClosed
	}
	if c.broken {
		return 0, ErrReset
	}
	if len(p) == 0 {
		return 0, nil
	}
	out := simrt.IO(nil, "net.read", c.Name, time.Duration(c.LatUs)*time.Microsecond, nil)
	if out.Fault != "" && !strings.HasSuffix(out.Fault, "slow") {
		if out.Fault == "dead" {
			return 0, net.ErrClosed
		}
		c.broken = true
		return 0, ErrReset
	}
	if len(c.out) == 0 {
		if c.peerClosed {
			return 0, io.EOF
		}
		wait := c.stall
		if wait <= 0 {
			wait = 300 * time.Second // nothing was ever going to arrive
		}
		simrt.Sleep(wait)
		c.broken = true
		return 0, ErrReset
	}
	n := len(c.out)
	if c.MaxFrag > 0 && n > c.MaxFrag {
		n = c.MaxFrag
	}
	if n > 1 {
		if s := simrt.Current(); s != nil {
			n = 1 + s.Aux(n)
		}
	}
	if n > len(p) {
		n = len(p)
	}
	copy(p, c.out[:n])
	c.out = c.out[n:]
	return n, nil
}

func (c *ServerConn) Close() error                       { c.closed = true; return nil }
func (c *ServerConn) LocalAddr() net.Addr                { return addr("proxy:0") }
func (c *ServerConn) RemoteAddr() net.Addr               { return addr(c.Peer) }
func (c *ServerConn) SetDeadline(t time.Time) error      { return nil }
func (c *ServerConn) SetReadDeadline(t time.Time) error  { return nil }
func (c *ServerConn) SetWriteDeadline(t time.Time) error { return nil }
