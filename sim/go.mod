module verif/sim

go 1.25.2
